from lib import env; env.setup()
from lib.models import verilog_keywords as K
from litex.gen.fhdl import verilog
repo = verilog._ieee_1800_2017_verilog_reserved_keywords
print(len(K.KEYWORDS), len(repo))
print("mine - repo:", sorted(K.KEYWORDS - repo))
print("repo - mine:", sorted(repo - K.KEYWORDS))
print("mine - repo(stripped):", sorted(K.KEYWORDS - {x.strip() for x in repo}))
import keyword
print("python kw in list:", sorted(w for w in K.KEYWORDS if keyword.iskeyword(w)))
