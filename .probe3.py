import sys, time, json
from lib import env; env.setup()
from props import c02
shards = c02.plan("quick", 0)
print(len(shards), [ (s["id"], len(s["cases"])) for s in shards][:8])
which = sys.argv[1]
n = int(sys.argv[2])
sh = [s for s in shards if s["id"] == which][0]
sh = dict(sh, cases=sh["cases"][:n] if n > 0 else sh["cases"][n:])
t0 = time.time()
res = c02.run_shard(sh)
print("wall", time.time() - t0)
print("cases", res["cases"], "events", res["events"])
print("cover", {k: (v if not isinstance(v, list) or len(v) < 30 else len(v)) for k, v in res["cover"].items()})
print("inconclusive", res["inconclusive"][:3])
keys = {}
for v in res["violations"]:
    keys[v["key"]] = keys.get(v["key"], 0) + 1
print("viol keys", keys)
for v in res["violations"][:int(sys.argv[3]) if len(sys.argv) > 3 else 2]:
    v = dict(v); c = dict(v["case"]); c.pop("design", None); v["case"] = c
    print(json.dumps(v, indent=1, default=str)[:2500])
