from lib import env; env.setup()
from lib import tracer312
from migen import *
from migen.fhdl.specials import Memory, Instance
from litex.gen.fhdl import namer, verilog
import time

src = '''
class Sub(Module):
    def __init__(self):
        self.x = Signal(4)
        self.x_1 = Signal(4, name_override="x_1")
        y = Signal()
        self.l = [Signal() for _ in range(3)]
        self.comb += [self.x_1.eq(self.x), y.eq(self.x[0])] + [s.eq(y) for s in self.l]
        self.specials.mem = Memory(8, 16)
        p = self.mem.get_port(write_capable=True)
        self.specials += p
        self.r = Signal(name="repeat")
        self.w = Signal(name="wire")
        self.sync += [self.r.eq(self.w), p.adr.eq(self.x), p.we.eq(self.r), p.dat_w.eq(3)]
class Top(Module):
    def __init__(self):
        self.clock_domains.cd_sys = ClockDomain("sys")
        self.submodules.a = Sub()
        self.submodules.b = Sub()
        self.x = Signal(name_override="x")
        self.x2 = Signal(name_override="x")
        self.comb += self.x.eq(self.a.x[0] & self.b.x[1]), self.x2.eq(self.x)
        self.specials += Instance("PRIM", i_a=self.x, o_b=Signal(name="q"), p_W=3)
'''
for shim in (True, False):
    (tracer312.install if shim else tracer312.uninstall)()
    g = {}
    exec(compile("from migen import *\nfrom migen.fhdl.specials import *\n"+src, "<c02>", "exec"), g)
    top = g["Top"]()
    t0=time.time()
    r = verilog.convert(top, ios={top.cd_sys.clk, top.cd_sys.rst, top.x2})
    print("shim", shim, "convert s", time.time()-t0)
    print(r.main_source)
    print([(type(k).__name__, getattr(k,"backtrace",None), k.name_override, r.ns.get_name(k)) for k in r.ns.sigs])
