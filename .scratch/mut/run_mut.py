"""usage: run_mut.py PROP name file 'old' 'new' [count]  -- applies one textual mutant to a scratch copy and runs the check"""
import sys, os, shutil, subprocess, re
prop, name, rel, old, new = sys.argv[1:6]
root = "/tmp/c13mut"
if os.path.exists(root):
    shutil.rmtree(root)
shutil.copytree("/repo", root, ignore=shutil.ignore_patterns(".git", "__pycache__"))
p = os.path.join(root, rel)
s = open(p).read()
n = s.count(old)
if n < 1:
    print("MUTANT %s: pattern not found" % name); sys.exit(3)
s = s.replace(old, new, 1)
open(p, "w").write(s)
env = dict(os.environ, LITEX_ROOT=root)
r = subprocess.run(["./check", prop, "--no-evidence"] + sys.argv[6:], cwd="/verif", env=env, capture_output=True, text=True)
keys = re.findall(r"mechanism=(\S+) witnesses=(\d+)", r.stdout)
inc = re.findall(r"INCONCLUSIVE.*", r.stdout)
print("MUTANT %-40s exit=%d keys=%s %s" % (name, r.returncode, keys, inc[:1]))
print("   ", [l for l in r.stdout.splitlines() if l.startswith(prop)][:1])
shutil.rmtree(root)
