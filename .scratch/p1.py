import sys, time
sys.path.insert(0, "/verif")
from lib import env; env.setup()
from migen import *
from litex.soc.cores import code_8b10b as c
from lib.bench.kernel import Bench

class Top(Module):
    def __init__(self, nwords=1, lsb=False):
        self.submodules.enc = c.Encoder(nwords, lsb)
        self.decs = [c.Decoder(lsb) for _ in range(nwords)]
        self.submodules += self.decs
        for i in range(nwords):
            self.comb += self.decs[i].input.eq(self.enc.output[i])

class Ag:
    def __init__(self, top, seq):
        self.top, self.seq = top, seq
        self.log = []
    def signals(self):
        t = self.top
        return [t.enc.output[0], t.enc.disparity[0], t.decs[0].d, t.decs[0].k, t.decs[0].invalid]
    def step(self, v, c):
        t = self.top
        self.log.append((c, v[t.enc.output[0]], v[t.enc.disparity[0]], v[t.decs[0].d], v[t.decs[0].k], v[t.decs[0].invalid]))
        if c < len(self.seq):
            d, k = self.seq[c]
            return {t.enc.d[0]: d, t.enc.k[0]: k}
        return {t.enc.d[0]: 0, t.enc.k[0]: 0}
    def done(self):
        return len(self.log) > len(self.seq) + 6

top = Top()
seq = [(i, 0) for i in range(1, 20)]
b = Bench(top, cap=10000)
a = b.add(Ag(top, seq))
t0 = time.time()
b.run()
for l in a.log[:12]:
    print(l[0], format(l[1], "010b"), l[2:])
seq = [(i & 255, 0) for i in range(3000)]
top = Top()
b = Bench(top, cap=10000); a = b.add(Ag(top, seq))
t0 = time.time(); b.run(); print("cycles/s", 3000/(time.time()-t0))
