import sys, time
sys.path.insert(0, "/verif")
from lib import env
env.setup()
import icontract
from litex.soc.integration import soc as S
from litex.soc.interconnect import wishbone

class Broken(Exception): pass
N = {"inv":0, "ens":0}
def inv_regions(self):
    N["inv"] += 1
    return True
def ens_add(self, name, region, result):
    N["ens"] += 1
    return True

class MonBus(S.SoCBusHandler):
    @icontract.ensure(ens_add, error=Broken)
    def add_region(self, name, region):
        return S.SoCBusHandler.add_region(self, name, region)

t=time.time()
MonBus = icontract.invariant(inv_regions, error=Broken)(MonBus)
print("decorate", time.time()-t)
b = MonBus(standard="wishbone", data_width=32, address_width=32)
print(N)
b.add_region("io", S.SoCIORegion(0x8000_0000, 0x8000_0000, cached=False))
print(N)
b.add_slave("a", wishbone.Interface(data_width=32, address_width=32), S.SoCRegion(origin=0x1000, size=0x1000))
print(N)
try:
    b.add_slave("a", wishbone.Interface(data_width=32, address_width=32), S.SoCRegion(origin=0x1000, size=0x1000))
except S.SoCError as e:
    env.restore_stderr()
    print("rejected", b.regions.keys())
print(N)
b.add_master("m", wishbone.Interface(data_width=32, address_width=32))
b.add_slave("b", wishbone.Interface(data_width=32, address_width=32), S.SoCRegion(size=0x1000, cached=False))
print(b.regions["b"].origin)
t=time.time()
b.finalize()
print("fin", time.time()-t, N, type(b._interconnect))
