import sys, time, io, contextlib
sys.path.insert(0, "/verif")
from lib import env
env.setup()
from migen import *
from litex.soc.cores.clock import *
from litex.soc.cores.clock.gowin_gw1n import GW1NPLL
from litex.soc.cores.clock.gowin_gw2a import GW2APLL
import litex.soc.cores.clock as C
print([n for n in dir(C) if not n.startswith("_")])
def t(cls, fin, fouts, **kw):
    t0=time.time()
    with contextlib.redirect_stdout(io.StringIO()):
        pll = cls(**kw)
        pll.register_clkin(Signal(), fin)
        for i,f in enumerate(fouts):
            pll.create_clkout(ClockDomain("c%d"%i), f)
        try:
            pll.finalize()
            r = "ok"
        except Exception as e:
            r = repr(e)
    print(cls.__name__, round(time.time()-t0,3), r, {k:v for k,v in pll.params.items() if k.startswith("p_")} if hasattr(pll,"params") else "")
t(GW1NPLL, 27e6, [54e6], devicename="GW1N-9C", device="GW1N-LV9QN48C6/I5")
t(GW1NPLL, 27e6, [54e6, 27e6], devicename="GW1N-9C", device="GW1N-LV9QN48C6/I5")
t(GW1NPLL, 27e6, [27e6, 54e6], devicename="GW1N-9C", device="GW1N-LV9QN48C6/I5")
t(GW2APLL, 27e6, [54e6], devicename="GW2A-18C", device="GW2A-LV18PG256C8/I7")
from litex.soc.cores.clock.gowin_gw5a import GW5APLL
t(GW5APLL, 50e6, [100e6], devicename="GW5A-25A", device="GW5A-LV25MG121NES")
from litex.soc.cores.clock.colognechip import GateMatePLL
