import sys, time
sys.path.insert(0, "/verif")
from lib import env; env.setup()
from migen import *
from litex.soc.cores import code_8b10b as c
from lib.bench.kernel import Bench
from lib.bench.stream import *
from lib.collect import rng_for

class Top(Module):
    def __init__(self, nwords=1):
        self.submodules.enc = c.StreamEncoder(nwords)
        self.submodules.dec = c.StreamDecoder(nwords)
        self.comb += self.enc.source.connect(self.dec.sink)

def run(garbage, vk, rk, seed=1):
    rng = rng_for(seed)
    top = Top()
    toks = [{"first":0,"last":0,"pay":(rng.getrandbits(8), 0),"par":()} for i in range(200)]
    b = Bench(top, cap=5000, drain=4)
    vs,_ = make_sched(rng, vk); rs,_ = make_sched(rng, rk)
    drv = b.add(SourceDriver(top.enc.sink, toks, vs, rng, garbage=garbage))
    b.add(SinkDriver(top.dec.source, rs))
    im = b.add(EndpointMonitor(top.enc.sink, "in"))
    mm = b.add(EndpointMonitor(top.enc.source, "mid", check_stability=True))
    om = b.add(EndpointMonitor(top.dec.source, "out", check_stability=True))
    b.run()
    print(garbage, vk, rk, len(im.log), len(mm.log), len(om.log), mm.stab_viol[:1], om.stab_viol[:1])
    print(" roundtrip", [e[3] for e in im.log] == [e[3] for e in om.log])
    rd = -1; bad = 0
    for e in mm.log:
        w = e[3][0]
        ones = bin(w).count("1")
        rd += 2*ones - 10
        if rd not in (-1, 1):
            bad += 1
            rd = max(-1, min(1, rd))
    print(" rd bad", bad)

run(True, "always", "always")
run(True, "always", "b50")
run(True, "b50", "always")
run(False, "b50", "always")
run(True, "b50", "b50")
