import sys, traceback
sys.path.insert(0, "/verif")
from lib import env
env.setup()
from props import c13, c13mon as mon
M = mon.build()
GP = M["GP"]
from lib.collect import rng_for
rng = rng_for("x")
desc, mk = c13.gen_platform_desc(rng, False)
io = c13.build_io(GP, desc["io"])
GP.ConstraintManager = M["MonCM"]
try:
    p = GP.GenericPlatform("verif-device", io, [tuple(c) for c in desc["connectors"]], name="verif")
    print("ok", type(p.constraint_manager))
except Exception:
    traceback.print_exc()
from litex.soc.integration import soc_core
from litex.build.generic_platform import GenericPlatform, Pins
try:
    plat = GenericPlatform("verif-device", [("clk", 0, Pins("A1"))], name="verif")
    soc = soc_core.SoCCore(plat, clk_freq=int(50e6), cpu_type=None, bus_standard="wishbone",
                                   bus_data_width=32, csr_address_width=14,
                                   csr_paging=0x800, integrated_rom_size=0,
                                   integrated_sram_size=0x1000, with_uart=False, with_timer=True, with_ctrl=True,
                                   ident="", ident_version=False)
except Exception:
    traceback.print_exc()
