import sys, time
sys.path.insert(0, "/verif")
from lib import env; env.setup()
from migen import *
from litex.soc.cores.ecc import *
from lib.bench.kernel import Bench

class Top(Module):
    def __init__(self, k):
        m, n = compute_m_n(k)
        self.flip = Signal(n+1)
        self.submodules.enc = ECCEncoder(k)
        self.submodules.dec = ECCDecoder(k)
        self.comb += self.dec.i.eq(self.enc.o ^ self.flip)

class Ag:
    def __init__(self, top, vecs):
        self.top, self.vecs = top, vecs
        self.out = []
    def signals(self):
        t = self.top
        return [t.dec.o, t.dec.sec, t.dec.ded, t.enc.o]
    def step(self, v, c):
        t = self.top
        if c >= 1:
            self.out.append((v[t.dec.o], v[t.dec.sec], v[t.dec.ded], v[t.enc.o]))
        if c < len(self.vecs):
            d, f, e = self.vecs[c]
            return {t.enc.i: d, t.flip: f, t.dec.enable: e}
    def done(self):
        return len(self.out) >= len(self.vecs)

import random
for k in [int(a) for a in sys.argv[1:]]:
    t0 = time.time()
    top = Top(k)
    m, n = compute_m_n(k)
    N = 20
    vecs = [(random.getrandbits(k), 1 << random.randrange(n+1), 1) for _ in range(N)]
    b = Bench(top, cap=100000)
    a = b.add(Ag(top, vecs))
    t1 = time.time()
    b.run()
    t2 = time.time()
    ok = all(o[0] == v[0] for o, v in zip(a.out, vecs))
    print(k, n, m, "build %.2f" % (t1-t0), "per eval %.4f" % ((t2-t1)/N), ok, len(a.out))
