import sys, time
sys.path.insert(0, "/verif")
from lib import env; env.setup()
from migen import *
from litex.soc.cores.ecc import *
from litex.gen.sim.core import Simulator

class Top(Module):
    def __init__(self, k):
        m, n = compute_m_n(k)
        self.flip = Signal(n+1)
        self.submodules.enc = ECCEncoder(k)
        self.submodules.dec = ECCDecoder(k)
        self.comb += self.dec.i.eq(self.enc.o ^ self.flip)

import random
for k in [int(a) for a in sys.argv[1:]]:
    top = Top(k)
    m, n = compute_m_n(k)
    sim = Simulator(top, [])
    ev = sim.evaluator
    ev.execute(sim.fragment.comb); sim._commit_and_comb_propagate()
    passes = [0]
    orig = ev.execute
    def ex(st, orig=orig):
        if st is sim.fragment.comb: passes[0] += 1
        return orig(st)
    ev.execute = ex
    def evalvec(d, f, e):
        ev.assign(top.enc.i, d); ev.assign(top.flip, f); ev.assign(top.dec.enable, e)
        sim._commit_and_comb_propagate()
        return ev.eval(top.dec.o), ev.eval(top.dec.sec), ev.eval(top.dec.ded)
    d = random.getrandbits(k)
    t0 = time.time(); evalvec(d, 0, 1); t1 = time.time()
    print(k, "data change: %.3f s, passes %d" % (t1-t0, passes[0]))
    passes[0] = 0
    t0 = time.time()
    ok = True
    for p in range(n+1):
        r = evalvec(d, 1 << p, 1)
        ok &= (r[0] == d)
    t1 = time.time()
    print(k, "flip-only: %.4f s/eval, passes/eval %.1f" % ((t1-t0)/(n+1), passes[0]/(n+1)), ok, "stmts", len(sim.fragment.comb))
