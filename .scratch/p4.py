import sys, traceback, logging
sys.path.insert(0, "/verif")
from lib import env
env.setup()
logging.disable(logging.NOTSET)
logging.basicConfig(level=logging.ERROR)
from migen import *
from litex.soc.integration import soc_core, soc as S
from litex.soc.interconnect import wishbone
from litex.build.generic_platform import GenericPlatform, Pins
plat = GenericPlatform("verif-device", [("clk", 0, Pins("A1"))], name="verif")
soc = soc_core.SoCCore(plat, clk_freq=int(50e6), cpu_type=None, bus_standard="wishbone",
                               bus_data_width=32, csr_address_width=14,
                               csr_paging=0x800, integrated_rom_size=0x8000,
                               integrated_sram_size=0x1000, with_uart=False, with_timer=True, with_ctrl=True,
                               ident="", ident_version=False)
soc.clock_domains.cd_sys = ClockDomain("sys")
soc.bus.add_master("verif", wishbone.Interface(data_width=32, address_width=32))
print(soc.bus.io_regions_check, soc.bus.regions.keys(), soc.mem_map, soc.cpu.reset_address_check if hasattr(soc.cpu,"reset_address_check") else None)
try:
    soc.finalize()
    print(type(soc.bus._interconnect), soc.csr.locs, {k: hex(v.origin) for k,v in soc.csr.regions.items()}, hex(soc.bus.regions["csr"].origin))
except Exception:
    sys.stderr = sys.__stderr__
    traceback.print_exc()
