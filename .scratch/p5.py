import sys, time
sys.path.insert(0, "/verif")
from lib import env; env.setup()
from props import c18
for tier in ("quick", "thorough"):
    t0 = time.time()
    sh = c18.plan(tier, 0)
    tot = sum(s["est_cost_s"] for s in sh)
    nv = 0
    import json
    print(tier, "shards", len(sh), "est cpu %.0f" % tot, "max %.1f" % sh[0]["est_cost_s"], "plan time %.1f" % (time.time()-t0), "json KB", len(json.dumps(sh))//1024)
