import sys
sys.path.insert(0, "/verif")
from lib import env; env.setup()
from props import c18
from lib.collect import rng_for
for tier in ("quick", "thorough"):
    full = c18.quick_full_widths(0)
    agg = {}
    for k in range(1, 129):
        N = c18.code_bits(k)
        for j in c18.width_jobs(k, N, tier, 0, (k in full) or tier != "quick"):
            kind = "en0" if not j["en"] else ("single" if j.get("full_single") else ("double" if any(len(f) == 2 for f in j["flips"]) else "other"))
            band = "k<=8" if k <= 8 else "9-24" if k <= 24 else "25-64" if k <= 64 else ("big-full" if k in full or tier != "quick" else "big-touch")
            agg[(band, kind)] = agg.get((band, kind), 0) + c18.job_cost(j, N)
    print(tier)
    for kk in sorted(agg): print("  ", kk, round(agg[kk]))
