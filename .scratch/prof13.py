import sys, cProfile, pstats
sys.path.insert(0, "/verif")
from lib import env
env.setup()
from props import c13
cls = sys.argv[1]; n = int(sys.argv[2])
cases = [{"seed": "0/C13/%s/%d" % (cls, k), "cls": cls, "tier": "quick"} for k in range(n)]
cProfile.run('c13.run_shard({"id":"t","cls":"mixed","cases":cases})', "/verif/.scratch/prof.out")
pstats.Stats("/verif/.scratch/prof.out").sort_stats("cumulative").print_stats(35)
