import sys, os, time, concurrent.futures, shutil
sys.path.insert(0, "/verif")
from lib import env, runner
env.setup()
import importlib
prop = sys.argv[1]
mod = importlib.import_module("props." + prop.lower())
shards = mod.plan("quick", 0)
rundir = "/verif/.run/sw"; os.makedirs(rundir, exist_ok=True)
with concurrent.futures.ThreadPoolExecutor(max_workers=16) as ex:
    res = list(ex.map(lambda s: runner.run_shard_subprocess(prop, s, rundir, 900), shards))
shutil.rmtree("/verif/.run", ignore_errors=True)
print(sorted((round(r["wall"],1), r["shard"]) for r in res)[-8:])
