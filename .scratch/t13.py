import sys, json, time
sys.path.insert(0, "/verif")
from lib import env
env.setup()
from props import c13
cls = sys.argv[1]; n = int(sys.argv[2])
t=time.time()
cases = [{"seed": "0/C13/%s/%d" % (cls, k), "cls": cls, "tier": "quick"} for k in range(n)]
r = c13.run_shard({"id":"t","cls":"mixed","cases":cases})
print("wall", round(time.time()-t,2), "cases", r["cases"])
print(json.dumps(r["events"], indent=0, sort_keys=True).replace("\n"," "))
print({k: (v if len(str(v))<900 else str(v)[:900]) for k,v in r["cover"].items()})
print("inconclusive", len(r["inconclusive"]), r["inconclusive"][:2])
keys = {}
for v in r["violations"]:
    keys.setdefault(v["key"], []).append(v)
for k, vs in keys.items():
    print("VIOL", k, len(vs), vs[0]["what"])
    if "-v" in sys.argv: print(json.dumps(vs[0]["witness"], indent=1, default=str)[:3000])
if "-s" in sys.argv:
    print(json.dumps(r["samples"][:2], indent=1, default=str)[:5000])
