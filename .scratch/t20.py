import sys, json, time
sys.path.insert(0, "/verif")
from lib import env
env.setup()
from props import c20
cls = sys.argv[1]; n = int(sys.argv[2])
t=time.time()
cases = [{"seed": "0/C20/%s/%d" % (cls, k), "cls": cls} for k in range(n)]
r = c20.run_shard({"id":"t","cls":"mixed","cases":cases})
print("==", cls, "wall", round(time.time()-t,2), "cases", r["cases"])
print(json.dumps(r["events"], sort_keys=True))
print({k: (v if len(str(v))<600 else str(v)[:600]) for k,v in r["cover"].items() if "wrapped" not in k})
print("inconclusive", len(r["inconclusive"]), [i["reason"][-700:] for i in r["inconclusive"][:2]])
keys = {}
for v in r["violations"]:
    keys.setdefault(v["key"], []).append(v)
for k, vs in keys.items():
    print("VIOL", k, len(vs), vs[0]["what"])
    if "-v" in sys.argv: print(json.dumps(vs[0]["witness"], indent=1, default=str)[:2500])
if "-s" in sys.argv:
    print(json.dumps(r["samples"][:3], indent=1, default=str)[:5000])
