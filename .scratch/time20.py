import sys, json, time
sys.path.insert(0, "/verif")
from lib import env
env.setup()
from props import c20
import io, contextlib
from lib.collect import Collector
shards = c20.plan("quick", 0)
sh = shards[int(sys.argv[1])]
col = Collector("x"); col.sampled=set()
c20.mon.install()
tot = {}
slow = []
with contextlib.redirect_stdout(io.StringIO()):
    for case in sh["cases"]:
        t = time.time()
        col.guard(case, c20.run_case, col, case)
        env.restore_stderr()
        dt = time.time() - t
        tot[case["cls"]] = tot.get(case["cls"], 0) + dt
        if dt > 1.0: slow.append((round(dt,1), case["seed"]))
print(sorted(((round(v,1), k) for k, v in tot.items()), reverse=True)[:12], file=sys.stderr)
print(slow, file=sys.stderr)
