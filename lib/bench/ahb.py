"""AHB-Lite master BFM (single NONSEQ transfers with IDLE/BUSY cycles between them), pipelined
address/data phases as in AMBA AHB: an address phase ends at an edge where HREADYOUT is high, the
data phase of that transfer follows and ends at the next edge where HREADYOUT is high."""
from lib.bench.kernel import umask

IDLE, BUSY, NONSEQ, SEQ = 0, 1, 2, 3


class AHBMaster:
    """ops: {addr, write, size, wdata, gap (IDLE cycles before the address phase)}"""
    def __init__(self, bus, ops, rng, name="ahb", max_wait=400):
        self.bus, self.ops, self.rng, self.name = bus, ops, rng, name
        self.idx = 0                 # next op whose address phase has not been accepted yet
        self.addr_out = None         # op index currently in address phase
        self.data_op = None          # op index currently in data phase
        self.gap = ops[0].get("gap", 0) if ops else 0
        self.log = []
        self.max_wait = max_wait
        self.wait = 0
        self.hung = None
        self.issue = {}

    def signals(self):
        b = self.bus
        return [b.readyout, b.rdata, b.resp]

    def step(self, v, c):
        b = self.bus
        w = {b.sel: 1}
        ready = v[b.readyout]
        if not ready:
            self.wait += 1
            if self.wait > self.max_wait and self.hung is None:
                self.hung = {"cycle": c, "data_op": self.data_op, "addr_op": self.addr_out}
            return None                      # everything is held while HREADYOUT is low
        self.wait = 0
        # HREADYOUT high at this edge: the data phase in progress completes, the address phase in progress is accepted
        if self.data_op is not None:
            op = self.ops[self.data_op]
            self.log.append({"i": self.data_op, "addr": op["addr"], "write": op["write"], "size": op["size"],
                             "wdata": op.get("wdata", 0), "rdata": umask(b.rdata, v[b.rdata]), "resp": v[b.resp],
                             "issue": self.issue.get(self.data_op), "done": c})
            self.data_op = None
        if self.addr_out is not None:
            self.data_op = self.addr_out
            self.addr_out = None
            op = self.ops[self.data_op]
            w[b.wdata] = op.get("wdata", 0) if op["write"] else self.rng.getrandbits(len(b.wdata))
        # next address phase
        if self.idx < len(self.ops):
            op = self.ops[self.idx]
            if self.gap > 0:
                self.gap -= 1
                w[b.trans] = self.rng.choice([IDLE, IDLE, BUSY])
                w[b.addr] = self.rng.getrandbits(len(b.addr))
                w[b.write] = self.rng.getrandbits(1)
            else:
                w[b.trans], w[b.addr], w[b.write], w[b.size] = NONSEQ, op["addr"], op["write"], op["size"]
                w[b.burst], w[b.prot], w[b.mastlock] = 0, 3, 0
                self.addr_out = self.idx
                self.issue[self.idx] = c + 1
                self.idx += 1
                self.gap = self.ops[self.idx].get("gap", 0) if self.idx < len(self.ops) else 0
        else:
            w[b.trans] = IDLE
        return w

    def done(self):
        return (self.idx >= len(self.ops) and self.addr_out is None and self.data_op is None) or self.hung is not None
