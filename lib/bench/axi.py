"""AXI4 (full) bus-functional agents with bursts; same discipline as lib/bench/axil.py."""
from lib.bench.kernel import umask
from lib.bench.stream import Always
from lib.bench.axil import ChanOut, RESP_OKAY, RESP_SLVERR
from lib.models import axi as axm

AX_FIELDS = ["addr", "burst", "len", "size", "id"]


class AXIMaster:
    """writes: {addr, len, size, burst, id, beats:[(data, strb)]}; reads: {addr, len, size, burst, id}."""
    def __init__(self, bus, writes, reads, rng, order="together", max_out=1, p_aw=1.0, p_w=1.0, p_ar=1.0,
                 b_sched=None, r_sched=None, coop_from=10**9, garbage=True, name="m"):
        self.bus, self.rng, self.name = bus, rng, name
        self.writes, self.reads = writes, reads
        self.order, self.max_out = order, max_out
        self.p_aw, self.p_w, self.p_ar = p_aw, p_w, p_ar
        self.b_sched, self.r_sched = b_sched or Always(True), r_sched or Always(True)
        self.coop_from, self.garbage = coop_from, garbage
        self.aw = ChanOut(bus.aw, AX_FIELDS)
        self.w = ChanOut(bus.w, ["data", "strb", "last"])
        self.ar = ChanOut(bus.ar, AX_FIELDS)
        self.aw_i = self.aw_off = 0
        self.w_txn = self.w_beat = 0         # next W beat to offer
        self.w_done_txn = 0                  # txns whose last W beat handshook
        self.b_i = self.ar_i = self.r_i = 0
        self.log = {"aw": [], "w": [], "b": [], "ar": [], "r": []}
        self.offered = {"aw": [], "w": [], "ar": []}      # first cycle in which each token was visible
        self.aw_lead = 0
        self.b_ready = self.r_ready = 0
        self.r_cur = []
        self.r_bursts = []                   # per completed read: list of (cycle, resp, data, id)

    def signals(self):
        b = self.bus
        return [b.aw.ready, b.w.ready, b.ar.ready, b.b.valid, b.b.resp, b.b.id, b.r.valid, b.r.resp, b.r.data, b.r.last, b.r.id]

    def step(self, v, c):
        b, rng = self.bus, self.rng
        coop = c >= self.coop_from
        w = {}
        if self.aw.handshook(v):
            self.log["aw"].append((c, self.aw.offering))
            self.aw_i += 1
            self.aw.offering = None
        if self.w.handshook(v):
            self.log["w"].append((c, self.w.offering))
            if self.w.offering[2]:
                self.w_done_txn += 1
            self.w.offering = None
        if self.ar.handshook(v):
            self.log["ar"].append((c, self.ar.offering))
            self.ar_i += 1
            self.ar.offering = None
        if self.b_ready and v[b.b.valid]:
            self.log["b"].append((c, v[b.b.resp], v[b.b.id]))
            self.b_i += 1
        if self.r_ready and v[b.r.valid]:
            e = (c, v[b.r.resp], umask(b.r.data, v[b.r.data]), v[b.r.last], v[b.r.id])
            self.log["r"].append(e)
            self.r_cur.append(e)
            if v[b.r.last]:
                self.r_bursts.append(self.r_cur)
                self.r_cur = []
                self.r_i += 1
        g = rng if self.garbage else None
        nw = len(self.writes)
        self.aw_lead -= 1
        if self.aw.offering is None:
            i = self.aw_off
            can = i < nw and (i - self.b_i) < self.max_out
            if can and self.order == "w_first":
                can = self.w_txn > i or (self.w_txn == i and self.w_beat > 0)
            if can and (coop or rng.random() < self.p_aw):
                t = self.writes[i]
                self.aw.offer(w, (t["addr"], t["burst"], t["len"], t["size"], t.get("id", 0)))
                self.aw_off += 1
                self.aw_lead = rng.randint(1, 6) if self.order == "aw_first" else 0
            else:
                self.aw.idle(w, g)
        if self.w.offering is None:
            i = self.w_txn
            can = i < nw and (i - self.b_i) < self.max_out
            if can and self.order == "aw_first":
                can = self.aw_off > i and self.aw_lead <= 0   # AW[i] offered some cycles earlier (never waits for AWREADY)
            if can and self.order == "together":
                can = self.aw_off > i
            if can and (coop or rng.random() < self.p_w):
                t = self.writes[i]
                d, s = t["beats"][self.w_beat]
                last = int(self.w_beat == len(t["beats"]) - 1)
                self.w.offer(w, (d, s, last))
                if last:
                    self.w_txn += 1
                    self.w_beat = 0
                else:
                    self.w_beat += 1
            else:
                self.w.idle(w, g)
        if self.ar.offering is None:
            i = self.ar_i
            can = i < len(self.reads) and (i - self.r_i) < self.max_out
            if can and (coop or rng.random() < self.p_ar):
                t = self.reads[i]
                self.ar.offer(w, (t["addr"], t["burst"], t["len"], t["size"], t.get("id", 0)))
            else:
                self.ar.idle(w, g)
        for ch, co in (("aw", self.aw), ("w", self.w), ("ar", self.ar)):
            while len(self.offered[ch]) < co.offers:
                self.offered[ch].append(c + 1)
        self.b_ready = 1 if coop else int(self.b_sched.next())
        self.r_ready = 1 if coop else int(self.r_sched.next())
        w[b.b.ready] = self.b_ready
        w[b.r.ready] = self.r_ready
        return w

    def done(self):
        return self.b_i >= len(self.writes) and self.r_i >= len(self.reads)


class AXISlave:
    """AXI4 memory / tag slave. Accepts AW, W, AR independently; W beats are collected until last and
    paired with AWs in order; B and R bursts are returned in order."""
    def __init__(self, bus, rng, name="s", depth=4, aw_sched=None, w_sched=None, ar_sched=None, r_sched=None, lat=(0, 3),
                 err_p=0.0, mem=None, tagger=None, coop_from=10**9, mute_from=None, mute_kind="all", accept_lat=None):
        self.bus, self.rng, self.name, self.depth = bus, rng, name, depth
        self.aw_sched, self.w_sched, self.ar_sched = aw_sched or Always(True), w_sched or Always(True), ar_sched or Always(True)
        self.r_sched = r_sched or Always(True)
        self.accept_lat = accept_lat          # {"aw": L, "w": L, "ar": L}: ready only after valid was seen for L cycles (as AXILSlave)
        self.seen = {"aw": 0, "w": 0, "ar": 0}
        self.lat, self.err_p = lat, err_p
        self.mem = mem if mem is not None else {}          # byte address -> byte
        self.tagger = tagger
        self.coop_from = coop_from
        self.mute_from, self.mute_kind = mute_from, mute_kind
        self.nbytes = len(bus.w.data) // 8
        self.awq, self.wbursts, self.wcur, self.arq = [], [], [], []
        self.bq, self.rq = [], []
        self.b = ChanOut(bus.b, ["resp", "id"])
        self.r = ChanOut(bus.r, ["resp", "data", "last", "id"])
        self.aw_ready = self.w_ready = self.ar_ready = 0
        self.log = {"aw": [], "w": [], "b": [], "ar": [], "r": []}
        self.writes_done = []        # (aw entry, beats)
        self.nreads = 0
        self.illegal = []

    def signals(self):
        b = self.bus
        s = []
        for ch in (b.aw, b.ar):
            s += [ch.valid, ch.addr, ch.burst, ch.len, ch.size, ch.id]
        s += [b.w.valid, b.w.data, b.w.strb, b.w.last, b.b.ready, b.r.ready]
        return s

    def muted(self, c, what):
        return self.mute_from is not None and c >= self.mute_from and (self.mute_kind == "all" or what in self.mute_kind)

    def _ax(self, ch, v, c):
        return {"cycle": c, "addr": v[ch.addr], "burst": v[ch.burst], "len": v[ch.len], "size": v[ch.size], "id": v[ch.id]}

    def step(self, v, c):
        b, rng = self.bus, self.rng
        coop = c >= self.coop_from
        w = {}
        prev_ready = {"aw": self.aw_ready, "w": self.w_ready, "ar": self.ar_ready}
        if self.aw_ready and v[b.aw.valid]:
            e = self._ax(b.aw, v, c)
            self.log["aw"].append(e)
            self.awq.append(e)
        if self.w_ready and v[b.w.valid]:
            e = (c, umask(b.w.data, v[b.w.data]), v[b.w.strb], v[b.w.last])
            self.log["w"].append(e)
            self.wcur.append(e)
            if v[b.w.last]:
                self.wbursts.append(self.wcur)
                self.wcur = []
        if self.ar_ready and v[b.ar.valid]:
            e = self._ax(b.ar, v, c)
            self.log["ar"].append(e)
            self.arq.append(e)
        if self.b.handshook(v):
            self.log["b"].append((c,) + tuple(self.b.offering))
            self.b.offering = None
        if self.r.handshook(v):
            self.log["r"].append((c,) + tuple(self.r.offering))
            self.r.offering = None
        while self.awq and self.wbursts:
            a, beats = self.awq.pop(0), self.wbursts.pop(0)
            err = int(rng.random() < self.err_p)
            self.writes_done.append((a, beats))
            if len(beats) != a["len"] + 1:
                self.illegal.append({"kind": "w-beat-count-differs-from-awlen", "aw": a, "beats": len(beats)})
            if not axm.legal(a["addr"], a["len"], a["size"], a["burst"], self.nbytes):
                self.illegal.append({"kind": "illegal-aw", "aw": a})
            elif not err:
                addrs = axm.beat_addresses(a["addr"], a["len"], a["size"], a["burst"])
                for k, (ba, (_, data, strb, _)) in enumerate(zip(addrs, beats)):
                    lo, up = axm.byte_lanes(ba, a["size"], self.nbytes, k == 0)
                    base = (ba // self.nbytes) * self.nbytes
                    for lane in range(self.nbytes):
                        if (strb >> lane) & 1:
                            if lo <= lane <= up:
                                self.mem[base + lane] = (data >> (8 * lane)) & 0xff
                            else:
                                self.illegal.append({"kind": "strobe-outside-transfer-lanes", "aw": a, "beat": k, "lane": lane})
            self.bq.append((c + rng.randint(*self.lat), (RESP_SLVERR if err else RESP_OKAY, a["id"])))
        while self.arq:
            a = self.arq.pop(0)
            err = int(rng.random() < self.err_p)
            beats = []
            if not axm.legal(a["addr"], a["len"], a["size"], a["burst"], self.nbytes):
                self.illegal.append({"kind": "illegal-ar", "ar": a})
                addrs = [a["addr"]] * (a["len"] + 1)
            else:
                addrs = axm.beat_addresses(a["addr"], a["len"], a["size"], a["burst"])
            for k, ba in enumerate(addrs):
                if self.tagger is not None:
                    data = self.tagger(self, a, self.nreads, k)
                else:
                    base = (ba // self.nbytes) * self.nbytes
                    data = sum(self.mem.get(base + l, 0) << (8 * l) for l in range(self.nbytes))
                beats.append((RESP_SLVERR if err else RESP_OKAY, data, int(k == len(addrs) - 1), a["id"]))
            self.nreads += 1
            at = c + rng.randint(*self.lat)
            for bt in beats:
                self.rq.append((at, bt))
        if self.b.offering is None:
            if self.bq and (self.bq[0][0] <= c or coop) and not self.muted(c, "b"):
                self.b.offer(w, self.bq.pop(0)[1])
            else:
                self.b.idle(w)
        if self.r.offering is None:
            if self.rq and (self.rq[0][0] <= c or coop) and (coop or self.r_sched.next()) and not self.muted(c, "r"):
                self.r.offer(w, self.rq.pop(0)[1])
            else:
                self.r.idle(w)
        room_w = len(self.bq) + len(self.awq) < self.depth
        self.aw_ready = int(room_w and (coop or self.aw_sched.next()) and not self.muted(c, "aw"))
        self.w_ready = int(len(self.wbursts) < self.depth and (coop or self.w_sched.next()) and not self.muted(c, "w"))
        self.ar_ready = int(len(self.rq) < 64 and (coop or self.ar_sched.next()) and not self.muted(c, "ar"))
        if self.accept_lat:
            for ch, attr in (("aw", "aw_ready"), ("w", "w_ready"), ("ar", "ar_ready")):
                ep = getattr(b, ch)
                if prev_ready[ch] and v[ep.valid]:
                    self.seen[ch] = 0                      # handshake in the cycle that ended
                elif v[ep.valid]:
                    self.seen[ch] += 1
                else:
                    self.seen[ch] = 0
                if ch in self.accept_lat:
                    setattr(self, attr, int(self.seen[ch] >= self.accept_lat[ch] and not self.muted(c, ch)))
        w[b.aw.ready], w[b.w.ready], w[b.ar.ready] = self.aw_ready, self.w_ready, self.ar_ready
        return w
