"""AXI4-Lite bus-functional agents. Channels are stream endpoints; every agent obeys the AXI rule
that a raised valid is held with its payload until ready."""
from lib.bench.kernel import umask
from lib.bench.stream import EndpointMonitor, Always

RESP_OKAY, RESP_SLVERR, RESP_DECERR = 0, 2, 3


class ChanOut:
    """Drives one channel as a source (valid + payload), one token at a time."""
    def __init__(self, ep, fields):
        self.ep, self.fields = ep, fields
        self.offering = None
        self.offers = 0

    def handshook(self, v):
        return self.offering is not None and v[self.ep.ready]

    def offer(self, w, tok):
        self.offering = tok
        self.offers += 1
        w[self.ep.valid] = 1
        for f, x in zip(self.fields, tok):
            w[getattr(self.ep, f)] = x

    def idle(self, w, rng=None):
        self.offering = None
        w[self.ep.valid] = 0
        if rng is not None:
            for f in self.fields:
                s = getattr(self.ep, f)
                w[s] = rng.getrandbits(len(s))


class AXILMaster:
    """Script of writes {addr, data, strb} and reads {addr}. Timing knobs:
    order: 'together' | 'aw_first' | 'w_first' | 'free' (relative offering of AW[i] and W[i]);
    max_out: outstanding requests per direction; p_*: per-cycle probability to start offering;
    b_ready / r_ready: schedules for response acceptance. After `coop_from` everything is eager."""
    def __init__(self, bus, writes, reads, rng, order="together", max_out=1, p_aw=1.0, p_w=1.0, p_ar=1.0,
                 b_sched=None, r_sched=None, coop_from=10**9, garbage=True, name="m", prot=0, with_id=False, hold_next_addr=False):
        self.bus, self.rng, self.name = bus, rng, name
        self.hold_next_addr = hold_next_addr      # while AW is idle its address lines already carry the next write's address
        self.writes, self.reads = writes, reads
        self.order, self.max_out = order, max_out
        self.p_aw, self.p_w, self.p_ar = p_aw, p_w, p_ar
        self.b_sched, self.r_sched = b_sched or Always(True), r_sched or Always(True)
        self.coop_from = coop_from
        self.garbage = garbage
        self.prot = prot
        self.aw = ChanOut(bus.aw, ["addr", "prot"])
        self.w = ChanOut(bus.w, ["data", "strb"])
        self.ar = ChanOut(bus.ar, ["addr", "prot"])
        self.aw_i = self.w_i = self.b_i = self.ar_i = self.r_i = 0
        self.aw_off = self.w_off = 0          # number of AW / W ever offered
        self.log = {"aw": [], "w": [], "b": [], "ar": [], "r": []}
        self.offered = {"aw": [], "w": [], "ar": []}      # first cycle in which each token was visible
        self.aw_lead = 0
        self.b_ready = self.r_ready = 0

    def signals(self):
        b = self.bus
        return [b.aw.ready, b.w.ready, b.ar.ready, b.b.valid, b.b.resp, b.r.valid, b.r.resp, b.r.data]

    def step(self, v, c):
        b, rng = self.bus, self.rng
        coop = c >= self.coop_from
        w = {}
        # --- completions of the cycle that just ended
        if self.aw.handshook(v):
            self.log["aw"].append((c, self.aw.offering))
            self.aw_i += 1
            self.aw.offering = None
        if self.w.handshook(v):
            self.log["w"].append((c, self.w.offering))
            self.w_i += 1
            self.w.offering = None
        if self.ar.handshook(v):
            self.log["ar"].append((c, self.ar.offering))
            self.ar_i += 1
            self.ar.offering = None
        if self.b_ready and v[b.b.valid]:
            self.log["b"].append((c, v[b.b.resp]))
            self.b_i += 1
        if self.r_ready and v[b.r.valid]:
            self.log["r"].append((c, v[b.r.resp], umask(b.r.data, v[b.r.data])))
            self.r_i += 1
        # --- new offers
        g = rng if self.garbage else None
        nw = len(self.writes)
        self.aw_lead -= 1
        if self.aw.offering is None:
            i = self.aw_off
            can = i < nw and (i - self.b_i) < self.max_out
            if can and self.order == "w_first":
                can = self.w_off > i                      # W[i] already offered (or done)
            if can and (coop or rng.random() < self.p_aw):
                self.aw.offer(w, (self.writes[i]["addr"], self.writes[i].get("prot", self.prot)))
                self.aw_off += 1
                self.aw_lead = rng.randint(1, 6) if self.order == "aw_first" else 0
            else:
                self.aw.idle(w, g)
                if self.hold_next_addr and self.aw_off < nw:
                    w[b.aw.addr] = self.writes[self.aw_off]["addr"]
        if self.w.offering is None:
            i = self.w_off
            can = i < nw and (i - self.b_i) < self.max_out
            if can and self.order == "aw_first":
                can = self.aw_off > i and self.aw_lead <= 0   # AW[i] offered some cycles earlier (never waits for AWREADY)
            if can and self.order == "together":
                can = self.aw_off > i                     # offered in the same cycle as (or after) AW[i]
            if can and (coop or self.order == "together" or rng.random() < self.p_w):
                self.w.offer(w, (self.writes[i]["data"], self.writes[i]["strb"]))
                self.w_off += 1
            else:
                self.w.idle(w, g)
        if self.ar.offering is None:
            i = self.ar_i
            can = i < len(self.reads) and (i - self.r_i) < self.max_out
            if can and (coop or rng.random() < self.p_ar):
                self.ar.offer(w, (self.reads[i]["addr"], self.reads[i].get("prot", self.prot)))
            else:
                self.ar.idle(w, g)
        for ch, co in (("aw", self.aw), ("w", self.w), ("ar", self.ar)):
            while len(self.offered[ch]) < co.offers:
                self.offered[ch].append(c + 1)
        self.b_ready = 1 if coop else int(self.b_sched.next())
        self.r_ready = 1 if coop else int(self.r_sched.next())
        w[b.b.ready] = self.b_ready
        w[b.r.ready] = self.r_ready
        return w

    def done(self):
        return self.b_i >= len(self.writes) and self.r_i >= len(self.reads)


class AXILSlave:
    """Accepts AW, W and AR independently (own ready schedules), queues up to `depth` requests per
    direction, answers B and R in order after a random delay. mode 'mem' = byte memory, 'tag' = R data
    from tagger(slave, addr), resp drawn at random with err_p. mute_from: stops answering (C11)."""
    def __init__(self, bus, rng, name="s", depth=4, aw_sched=None, w_sched=None, ar_sched=None, lat=(0, 3),
                 err_p=0.0, mem=None, tagger=None, coop_from=10**9, mute_from=None, mute_kind="all", data_width=32,
                 accept_lat=None):
        self.bus, self.rng, self.name, self.depth = bus, rng, name, depth
        self.accept_lat = accept_lat          # {"aw": L, "w": L, "ar": L}: ready only after valid was seen for L cycles
        self.seen = {"aw": 0, "w": 0, "ar": 0}
        self.aw_sched, self.w_sched, self.ar_sched = aw_sched or Always(True), w_sched or Always(True), ar_sched or Always(True)
        self.lat, self.err_p = lat, err_p
        self.mem = mem if mem is not None else {}
        self.tagger = tagger
        self.coop_from = coop_from
        self.mute_from, self.mute_kind = mute_from, mute_kind
        self.nbytes = len(bus.w.data) // 8
        self.awq, self.wq, self.arq = [], [], []
        self.bq, self.rq = [], []           # (ready_at_cycle, payload)
        self.b = ChanOut(bus.b, ["resp"])
        self.r = ChanOut(bus.r, ["resp", "data"])
        self.aw_ready = self.w_ready = self.ar_ready = 0
        self.log = {"aw": [], "w": [], "b": [], "ar": [], "r": []}
        self.nreads = 0

    def signals(self):
        b = self.bus
        return [b.aw.valid, b.aw.addr, b.aw.prot, b.w.valid, b.w.data, b.w.strb, b.ar.valid, b.ar.addr, b.ar.prot,
                b.b.ready, b.r.ready]

    def muted(self, c, what):
        return self.mute_from is not None and c >= self.mute_from and (self.mute_kind == "all" or what in self.mute_kind)

    def step(self, v, c):
        b, rng = self.bus, self.rng
        coop = c >= self.coop_from
        w = {}
        prev_ready = {"aw": self.aw_ready, "w": self.w_ready, "ar": self.ar_ready}
        if self.aw_ready and v[b.aw.valid]:
            e = (c, v[b.aw.addr], v[b.aw.prot])
            self.log["aw"].append(e)
            self.awq.append(e)
        if self.w_ready and v[b.w.valid]:
            e = (c, umask(b.w.data, v[b.w.data]), v[b.w.strb])
            self.log["w"].append(e)
            self.wq.append(e)
        if self.ar_ready and v[b.ar.valid]:
            e = (c, v[b.ar.addr], v[b.ar.prot])
            self.log["ar"].append(e)
            self.arq.append(e)
        if self.b.handshook(v):
            self.log["b"].append((c,) + tuple(self.b.offering))
            self.b.offering = None
        if self.r.handshook(v):
            self.log["r"].append((c,) + tuple(self.r.offering))
            self.r.offering = None
        # pair AW with W -> perform the write, queue B
        while self.awq and self.wq:
            (_, addr, prot), (_, data, strb) = self.awq.pop(0), self.wq.pop(0)
            err = int(rng.random() < self.err_p)
            if not err:
                wa = addr // self.nbytes
                old = self.mem.get(wa, 0)
                for i in range(self.nbytes):
                    if (strb >> i) & 1:
                        old = (old & ~(0xff << (8 * i))) | (data & (0xff << (8 * i)))
                self.mem[wa] = old
            self.bq.append((c + rng.randint(*self.lat), (RESP_SLVERR if err else RESP_OKAY,)))
        while self.arq:
            (_, addr, prot) = self.arq.pop(0)
            err = int(rng.random() < self.err_p)
            if self.tagger is not None:
                data = self.tagger(self, addr, self.nreads)
            else:
                data = self.mem.get(addr // self.nbytes, 0)
            self.nreads += 1
            self.rq.append((c + rng.randint(*self.lat), (RESP_SLVERR if err else RESP_OKAY, data)))
        if self.b.offering is None:
            if self.bq and (self.bq[0][0] <= c or coop) and not self.muted(c, "b"):
                self.b.offer(w, self.bq.pop(0)[1])
            else:
                self.b.idle(w)
        if self.r.offering is None:
            if self.rq and (self.rq[0][0] <= c or coop) and not self.muted(c, "r"):
                self.r.offer(w, self.rq.pop(0)[1])
            else:
                self.r.idle(w)
        # AW and W are accepted independently (each has its own queue): a slave that made one wait for
        # the other could deadlock against a legal master
        room_r = len(self.rq) < self.depth
        self.aw_ready = int(len(self.bq) + len(self.awq) < self.depth and (coop or self.aw_sched.next()) and not self.muted(c, "aw"))
        self.w_ready = int(len(self.wq) < self.depth and (coop or self.w_sched.next()) and not self.muted(c, "w"))
        self.ar_ready = int(room_r and (coop or self.ar_sched.next()) and not self.muted(c, "ar"))
        if self.accept_lat:
            for ch, attr in (("aw", "aw_ready"), ("w", "w_ready"), ("ar", "ar_ready")):
                ep = getattr(b, ch)
                if prev_ready[ch] and v[ep.valid]:
                    self.seen[ch] = 0                      # handshake in the cycle that ended
                elif v[ep.valid]:
                    self.seen[ch] += 1
                else:
                    self.seen[ch] = 0
                if ch in self.accept_lat:
                    ok_ = self.seen[ch] >= self.accept_lat[ch] and not self.muted(c, ch)
                    setattr(self, attr, int(ok_))
        w[b.aw.ready], w[b.w.ready], w[b.ar.ready] = self.aw_ready, self.w_ready, self.ar_ready
        return w


def port_monitors(bench, bus, name, dut_drives, domain="sys"):
    """EndpointMonitors on the five channels; stability is checked on the channels the DUT drives
    ('master' side of a DUT drives aw/w/ar, 'slave' side drives b/r)."""
    mons = {}
    for ch in ("aw", "w", "b", "ar", "r"):
        chk = (ch in ("aw", "w", "ar")) if dut_drives == "requests" else (ch in ("b", "r"))
        mons[ch] = bench.add(EndpointMonitor(getattr(bus, ch), "%s.%s" % (name, ch), check_stability=chk), domain)
    return mons
