"""Clock-domain-crossing fault model for the repository's simulator.

* RandomEdges: PRNG-driven edge scheduler (drop-in for Simulator.time): at every tick each domain rises
  with its own probability, several may rise at once (coinciding edges), with a fairness bound (every
  domain rises at least once every `max_gap` ticks) or a ratio bound R (at most R edges of one clock
  between two edges of the other).
* MetaInjector: every MultiReg is lowered to the same MultiRegImpl as usual but registered here; just
  before the simulator commits a tick in which the synchroniser's destination clock rises AND its input
  changes in that very tick (source and destination edges coincide), every changing bit of the first
  flop independently takes the old or the new value (standard metastability resolution model)."""
from migen.genlib.cdc import MultiReg, MultiRegImpl

from lib.bench.kernel import EdgeScheduler


class RandomEdges(EdgeScheduler):
    def __init__(self, domains, rng, probs=None, max_gap=12, ratio=None, aliases=None):
        self.rng = rng
        self.aliases = aliases or {}          # derived clock domains that tick together with a base domain
        self.probs = probs or {d: rng.choice([0.2, 0.5, 0.5, 0.8, 1.0]) for d in domains}
        self.max_gap, self.ratio = max_gap, ratio
        self.since = {d: 0 for d in domains}
        self.run = {d: 0 for d in domains}          # edges of d since the last edge of any other domain
        self.patterns = set()
        self.coincident = 0
        EdgeScheduler.__init__(self, domains, self._pick)
        self.current = set()

    def _pick(self, t):
        r = set()
        for d in self.domains:
            if self.rng.random() < self.probs[d] or self.since[d] >= self.max_gap:
                r.add(d)
        if self.ratio is not None and len(self.domains) == 2:
            a, b = self.domains
            for x, y in ((a, b), (b, a)):
                if x in r and y not in r and self.run[x] >= self.ratio:
                    r.add(y)                       # y must tick before x may tick again
        if not r:
            r.add(self.rng.choice(self.domains))
        for d in self.domains:
            if d in r:
                self.since[d] = 0
            else:
                self.since[d] += 1
        if len(r) == 1:
            (x,) = r
            for d in self.domains:
                self.run[d] = self.run[d] + 1 if d == x else 0
        else:
            for d in self.domains:
                self.run[d] = 0
            self.coincident += 1
        self.current = r
        return r

    def tick(self):
        dt, rising, falling = EdgeScheduler.tick(self)
        for base, others in self.aliases.items():
            if base in rising:
                rising |= set(others)
            if base in falling:
                falling |= set(others)
        self.current = set(rising)
        return dt, rising, falling


class MetaInjector:
    def __init__(self, rng, sched, enable=True):
        self.rng, self.sched, self.enable = rng, sched, enable
        self.regs = []
        self._sorted = False
        self.injections = 0
        self.bits_flipped = 0
        self.opportunities = 0
        inj = self

        class InstrumentedMultiReg:
            @staticmethod
            def lower(dr):
                impl = MultiRegImpl(dr.i, dr.o, dr.odomain, dr.n, dr.reset)
                inj.regs.append((impl.i, impl.regs[0], dr.odomain))
                return impl
        self.overrides = {MultiReg: InstrumentedMultiReg}

    def hook(self, sim):
        rising = self.sched.current
        if not rising or not self.enable:
            return
        ev = sim.evaluator
        if not self._sorted:
            # MultiRegs are lowered in the iteration order of a set of specials (address-dependent): order the injection points by
            # the creation number of their input signal so that a case consumes its PRNG in the same order in every process
            self.regs.sort(key=lambda r: (getattr(r[0], "duid", 0), r[2]))
            self._sorted = True
        for (i, reg0, odom) in self.regs:
            if odom not in rising:
                continue
            old = ev.eval(i)
            new = ev.eval(i, postcommit=True)
            if old == new:
                continue
            self.opportunities += 1
            w = len(reg0)
            diff = (old ^ new) & ((1 << w) - 1)
            pick = self.rng.getrandbits(w) & diff
            val = (old & ~diff & ((1 << w) - 1)) | (new & pick) | (old & diff & ~pick)
            if val != (old & ((1 << w) - 1)):
                self.injections += 1
                self.bits_flipped += bin(pick).count("1")
            ev.modifications[reg0] = val
