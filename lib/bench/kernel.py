"""Simulation bench kernel on top of the repository's own simulator (litex.gen.sim.core).

One generator per clock domain does, at every rising edge of that domain: one bulk read of all
signals the agents of the domain asked for (values committed *before* the edge, i.e. what a flop
clocked by this edge samples), then calls every agent's step(), then one bulk write of everything
the agents want to drive (committed together with the DUT's flops: testbench registers).

Agents (drivers and monitors alike) implement:
    signals() -> list of Signal to sample
    step(v, cycle) -> dict {Signal: int} to drive, or None       (v: dict Signal -> int)
    done() -> bool     (optional; bench ends when every agent that defines done() is done)
"""
from migen import Signal, Module, ClockDomain
from migen.fhdl.tools import list_targets

from litex.gen.sim.core import Simulator


class CapReached(Exception):
    pass


class EdgeScheduler:
    """Drop-in for Simulator.time: tick() -> (dt, rising, falling). `pick(t)` returns the set of
    domains that rise at tick t. Falling edges are emitted in the following half tick so that
    clk signals toggle as with TimeManager (no logic in LiteX uses negedges of these domains)."""
    def __init__(self, domains, pick):
        self.domains = list(domains)
        self.pick = pick
        self.t = 0
        self.high = set()
        self.log = []
        self.clocks = {d: None for d in self.domains}

    def tick(self):
        if self.high:
            f = self.high
            self.high = set()
            return 1, set(), f
        r = set(self.pick(self.t))
        self.t += 1
        self.high = set(r)
        self.log.append(tuple(sorted(r)))
        return 1, r, set()


class MonitoredSimulator(Simulator):
    """The repository's Simulator with a hook that runs just before flops/testbench writes of a
    tick are committed (used for metastability injection and state snapshots)."""
    def __init__(self, *a, **k):
        self.precommit_hooks = []
        Simulator.__init__(self, *a, **k)

    def _commit_and_comb_propagate(self):
        for hk in self.precommit_hooks:
            hk(self)
        Simulator._commit_and_comb_propagate(self)


def umask(sig, val):
    """Value of a (possibly signed) signal as an unsigned bit pattern."""
    return val & ((1 << len(sig)) - 1)


class Bench:
    def __init__(self, dut, clocks=None, cap=4000, overrides=None, scheduler=None, drain=0):
        self.dut = dut
        self.clocks = clocks or {"sys": 10}
        self.cap = cap
        self.agents = {d: [] for d in self.clocks}
        self.cycle = {d: 0 for d in self.clocks}
        self.overrides = overrides or {}
        self.scheduler = scheduler
        self.capped = False
        self.drain = drain
        self._drain_left = None
        self.sim = None
        self.state_sigs = None
        self.states_seen = set()
        self.track_states = False

    def add(self, agent, domain="sys"):
        self.agents[domain].append(agent)
        return agent

    # -- termination
    def _all_done(self):
        any_ = False
        for ags in self.agents.values():
            for a in ags:
                if getattr(a, "force", False):      # stall / runaway detected: end the run now
                    return True
        for ags in self.agents.values():
            for a in ags:
                d = getattr(a, "done", None)
                if d is not None:
                    any_ = True
                    if not d():
                        return False
        return any_

    def _gen(self, dom):
        agents = self.agents[dom]
        sigs = []
        seen = set()
        for a in agents:
            for s in a.signals():
                if id(s) not in seen:
                    seen.add(id(s))
                    sigs.append(s)
        primary = dom == self._primary
        while True:
            vals = yield sigs
            v = dict(zip(sigs, vals))
            c = self.cycle[dom]
            self.cycle[dom] = c + 1
            writes = {}
            for a in agents:
                w = a.step(v, c)
                if w:
                    writes.update(w)
            if primary:
                if self.track_states:
                    sv = self.sim.evaluator.signal_values
                    self.states_seen.add(hash(tuple(sv.get(s, s.reset.value) for s in self.state_sigs)))
                if c >= self.cap:
                    self.capped = True
                    self._stop = True
                elif self._drain_left is None:
                    if self._all_done():
                        self._drain_left = self.drain
                if self._drain_left is not None:
                    if self._drain_left <= 0:
                        self._stop = True
                    self._drain_left -= 1
            if self._stop:
                return
            if writes:
                yield [s.eq(x) for s, x in writes.items()]
            yield

    def run(self):
        self._stop = False
        # the primary domain (cap / termination) is the one with most agents
        self._primary = getattr(self, "_force_primary", None) or max(self.agents, key=lambda d: (len(self.agents[d]), d == "sys"))
        gens = {d: [self._gen(d)] for d in self.agents if self.agents[d] or d == self._primary}
        self.sim = MonitoredSimulator(self.dut, gens, clocks=self.clocks,
                                      special_overrides=self.overrides)
        if self.scheduler is not None:
            self.sim.time = self.scheduler
        if self.track_states:
            self.state_sigs = sorted(list_targets(self.sim.fragment.sync), key=lambda s: s.duid)
        for hk in getattr(self, "precommit_hooks", []):
            self.sim.precommit_hooks.append(hk)
        self.sim.run()
        self.sim.close()
        return not self.capped

    def state_vector(self):
        sv = self.sim.evaluator.signal_values
        return tuple(sv.get(s, s.reset.value) for s in self.state_sigs)
