"""Stream bus-functional agents: producer obeying the stream contract (token held steady until
accepted, garbage on idle lanes), consumer with arbitrary ready, endpoint monitor (handshake log,
stability check), schedules."""
from lib.bench.kernel import umask


# ------------------------------------------------------------------------------------ schedules
class Sched:
    def next(self):
        raise NotImplementedError


class Always(Sched):
    def __init__(self, v=True):
        self.v = v

    def next(self):
        return self.v


class Bernoulli(Sched):
    def __init__(self, rng, p):
        self.rng, self.p = rng, p

    def next(self):
        return self.rng.random() < self.p


class Bursts(Sched):
    def __init__(self, rng, on=(1, 8), off=(1, 8)):
        self.rng, self.on, self.off = rng, on, off
        self.state = rng.random() < 0.5
        self.left = 0

    def next(self):
        if self.left <= 0:
            self.state = not self.state
            lo, hi = self.on if self.state else self.off
            self.left = self.rng.randint(lo, hi)
        self.left -= 1
        return self.state


class Periodic(Sched):
    """on for `on` cycles out of every `period`, starting at `phase` (targets word boundaries)."""
    def __init__(self, period, on, phase=0):
        self.period, self.on, self.t = max(1, period), on, phase

    def next(self):
        r = (self.t % self.period) < self.on
        self.t += 1
        return r


class Pattern(Sched):
    def __init__(self, bits, then=True):
        self.bits, self.i, self.then = list(bits), 0, then

    def next(self):
        if self.i < len(self.bits):
            b = self.bits[self.i]
            self.i += 1
            return bool(b)
        return self.then


class Then(Sched):
    """`first` for n calls, then `second` (hostile prefix, cooperative suffix)."""
    def __init__(self, first, n, second=None):
        self.first, self.n, self.second = first, n, second or Always(True)
        self.i = 0

    def next(self):
        self.i += 1
        if self.i <= self.n:
            return self.first.next()
        return self.second.next()


def make_sched(rng, kind=None, ratio=4):
    kinds = ["b10", "b50", "b90", "always", "bursts", "periodic", "longstall"]
    kind = kind or rng.choice(kinds)
    if kind == "b10":
        return Bernoulli(rng, 0.1), kind
    if kind == "b50":
        return Bernoulli(rng, 0.5), kind
    if kind == "b90":
        return Bernoulli(rng, 0.9), kind
    if kind == "always":
        return Always(True), kind
    if kind == "bursts":
        return Bursts(rng, (1, 2 * ratio + 1), (1, 2 * ratio + 1)), kind
    if kind == "periodic":
        period = rng.choice([ratio - 1, ratio, ratio + 1, 2 * ratio, 2 * ratio + 1, 2, 3])
        period = max(2, period)
        on = rng.randint(1, period - 1)
        return Periodic(period, on, rng.randint(0, period)), "periodic(%d,%d)" % (period, on)
    if kind == "longstall":
        return Bursts(rng, (1, 3), (ratio * 3, ratio * 6)), kind
    raise ValueError(kind)


# ------------------------------------------------------------------------------------ endpoints
def ep_signals(ep):
    pay = ep.payload.flatten()
    par = ep.param.flatten()
    return pay, par


class SourceDriver:
    """Producer: offers tokens[i] when the schedule says so, holds it until accepted."""
    def __init__(self, ep, tokens, sched, rng, garbage=True):
        self.ep, self.tokens, self.sched, self.rng, self.garbage = ep, tokens, sched, rng, garbage
        self.pay, self.par = ep_signals(ep)
        self.idx = 0
        self.offering = False
        self.accepted_cycles = []

    def signals(self):
        return [self.ep.ready]

    def step(self, v, c):
        go = self.sched.next()      # one schedule decision per cycle (the schedule is cycle-based)
        if self.offering and v[self.ep.ready]:
            self.idx += 1
            self.offering = False
            self.accepted_cycles.append(c)
        if self.offering:
            return None
        ep = self.ep
        if self.idx < len(self.tokens) and go:
            t = self.tokens[self.idx]
            w = {ep.valid: 1, ep.first: t["first"], ep.last: t["last"]}
            for s, x in zip(self.pay, t["pay"]):
                w[s] = x
            for s, x in zip(self.par, t["par"]):
                w[s] = x
            self.offering = True
            return w
        w = {ep.valid: 0}
        if self.garbage:
            r = self.rng
            w[ep.first] = r.getrandbits(1)
            w[ep.last] = r.getrandbits(1)
            for s in self.pay:
                w[s] = r.getrandbits(len(s))
            for s in self.par:
                w[s] = r.getrandbits(len(s))
        return w

    def done(self):
        return self.idx >= len(self.tokens)


class SinkDriver:
    """Consumer: ready follows the schedule, free to toggle at any time."""
    def __init__(self, ep, sched):
        self.ep, self.sched = ep, sched
        self.hold = False                 # a harness controller may stall the consumer (ready = 0) for a while

    def signals(self):
        return []

    def step(self, v, c):
        r = int(self.sched.next())
        return {self.ep.ready: 0 if self.hold else r}


class EndpointMonitor:
    """Logs every handshake (valid & ready at the edge) and, for endpoints driven by the DUT,
    checks the stability rule: valid & ~ready at t  =>  valid and the whole token unchanged at t+1."""
    def __init__(self, ep, name, check_stability=False, mask=None):
        self.ep, self.name = ep, name
        self.pay, self.par = ep_signals(ep)
        self.check_stability = check_stability
        self.log = []            # (cycle, first, last, pay tuple, par tuple)
        self.offered_at = []
        self.offer_start = None
        self.prev = None
        self.stab_viol = []
        self.stalled_cycles = 0
        self.idle_cycles = 0
        self.last_hs_cycle = -1
        self.mask = mask
        self._sigs = [ep.valid, ep.ready, ep.first, ep.last] + self.pay + self.par

    def signals(self):
        return self._sigs

    def sample(self, v):
        return (v[self.ep.first], v[self.ep.last],
                tuple(umask(s, v[s]) for s in self.pay),
                tuple(umask(s, v[s]) for s in self.par))

    def step(self, v, c):
        valid, ready = v[self.ep.valid], v[self.ep.ready]
        tok = self.sample(v) if valid else None
        if self.check_stability and self.prev is not None:
            if not valid:
                self.stab_viol.append({"cycle": c, "kind": "valid-retracted", "was": self.prev})
            elif tok != self.prev:
                a, b = self.prev, tok
                if self.mask is not None:
                    a, b = self.mask(a), self.mask(b)
                if a != b:
                    self.stab_viol.append({"cycle": c, "kind": "token-changed-while-stalled",
                                           "was": self.prev, "now": tok})
        if valid and (self.offer_start is None or (self.prev is not None and tok != self.prev)):
            self.offer_start = c                            # a new offer: valid rose, or the offered token was replaced
        if valid and ready:
            self.log.append((c,) + tok)
            self.offered_at.append(self.offer_start)       # cycle in which this token's valid rose (same index as log)
            self.offer_start = None
            self.last_hs_cycle = c
            self.prev = None
        elif valid:
            self.prev = tok
            self.stalled_cycles += 1
        else:
            self.prev = None
            self.offer_start = None
            self.idle_cycles += 1
        return None


def tok_of(entry):
    """log entry -> token dict"""
    return {"first": entry[1], "last": entry[2], "pay": tuple(entry[3]), "par": tuple(entry[4])}


class Scoreboard:
    """Ends the run when everything the model expects has been delivered, or (force) when nothing has
    moved for `stall_bound` cycles of the cooperative suffix, or when the DUT emits far more than
    the model expects (runaway)."""
    def __init__(self, drivers, in_mons, out_mons, expected_count, coop_from, stall_bound, runaway=64):
        self.drivers, self.in_mons, self.out_mons = drivers, in_mons, out_mons
        self.expected_count = expected_count
        self.coop_from, self.stall_bound = coop_from, stall_bound
        self.stalled = None
        self.runaway = runaway
        self.ran_away = False
        self.force = False
        self._done = False
        self._last_total = -1
        self._last_move = 0
        self._n_in = -1
        self._exp = 0

    def signals(self):
        return []

    def step(self, v, c):
        n_in = sum(len(m.log) for m in self.in_mons)
        n_out = sum(len(m.log) for m in self.out_mons)
        if n_in + n_out != self._last_total:
            self._last_total = n_in + n_out
            self._last_move = c
        if n_in != self._n_in:
            self._n_in = n_in
            self._exp = self.expected_count()
        drivers_done = all(d.done() for d in self.drivers)
        self._done = drivers_done and n_out >= self._exp
        if self._done or self.force:
            return None
        if n_out > self._exp + self.runaway:
            self.ran_away = True
            self.force = True
        elif c >= self.coop_from and c - max(self._last_move, self.coop_from) > self.stall_bound:
            self.stalled = {"cycle": c, "last_move": self._last_move}
            self.force = True
        return None

    def done(self):
        return self._done or self.force


class ActivityWatch:
    """Force-ends a run when no handshake has been logged by any of the given monitors for `quiet`
    cycles after `coop_from` (a hung bus would otherwise run to the cycle cap)."""
    def __init__(self, mons, coop_from, quiet=150):
        self.mons, self.coop_from, self.quiet = mons, coop_from, quiet
        self.force = False
        self.tot = -1
        self.last = 0
        self.stalled = None

    def signals(self):
        return []

    def step(self, v, c):
        t = sum(len(m.log) for m in self.mons)
        if t != self.tot:
            self.tot, self.last = t, c
        elif c >= self.coop_from and c - max(self.last, self.coop_from) > self.quiet:
            self.force = True
            self.stalled = {"cycle": c, "last_move": self.last}
        return None
