"""Wishbone classic bus-functional agents and monitors."""
from lib.bench.kernel import umask

CTI_NONE, CTI_CONST, CTI_INCR, CTI_END = 0, 1, 2, 7


class WBMaster:
    """Issues a script of operations. op = dict(adr, we, sel, dat_w, cti=0, bte=0, gap=cycles idle
    before the request, hold=keep cyc high during the gap (block cycle)).
    A pending stb is never aborted. Completed ops are logged with what the master observed."""
    def __init__(self, bus, ops, name="m", max_wait=None):
        self.bus, self.ops, self.name = bus, ops, name
        self.idx = 0
        self.state = "idle"
        self.gap = ops[0].get("gap", 0) if ops else 0
        self.log = []
        self.issue_cycle = None
        self.spurious = []          # ack/err seen while not requesting
        self.wait_state_acks = 0    # look-ahead acknowledges of a bursting slave falling into a master wait state (ignored by masters)
        self.max_wait = max_wait
        self.hung = None
        self.waits = []

    def signals(self):
        b = self.bus
        return [b.ack, b.err, b.dat_r, b.cyc, b.stb]

    def _drive(self, op):
        b = self.bus
        return {b.cyc: 1, b.stb: 1, b.adr: op["adr"], b.we: op["we"], b.sel: op["sel"], b.dat_w: op.get("dat_w", 0),
                b.cti: op.get("cti", 0), b.bte: op.get("bte", 0)}

    def step(self, v, c):
        b = self.bus
        if self.state == "req":
            if v[b.ack] or v[b.err]:
                op = self.ops[self.idx]
                self.log.append({"i": self.idx, "issue": self.issue_cycle, "done": c, "adr": op["adr"], "we": op["we"],
                                 "sel": op["sel"], "dat_w": op.get("dat_w", 0), "cti": op.get("cti", 0),
                                 "bte": op.get("bte", 0), "dat_r": umask(b.dat_r, v[b.dat_r]),
                                 "ack": v[b.ack], "err": v[b.err]})
                self.waits.append(c - self.issue_cycle)
                self.idx += 1
                self.state = "idle"
                self.gap = self.ops[self.idx].get("gap", 0) if self.idx < len(self.ops) else 0
            else:
                if self.max_wait is not None and c - self.issue_cycle > self.max_wait and self.hung is None:
                    self.hung = {"op": self.idx, "issue": self.issue_cycle, "cycle": c}
                return None
        else:
            if v[b.ack] or v[b.err]:
                # Registered-feedback bursts (Wishbone B4 chapter 4): a slave that was told "another beat follows" (cti = incrementing)
                # registers its next acknowledge before it can see that the master inserted a wait state (stb low, cyc held). Masters
                # qualify ack with their own stb (B4 observation 3.55), so this is an observation, not an acknowledge of a cycle.
                if (v[b.cyc] and not v[b.stb] and not v[b.err] and self.log and self.log[-1]["cti"] == CTI_INCR
                        and self.log[-1]["done"] == c - 1):
                    self.wait_state_acks += 1
                else:
                    self.spurious.append({"cycle": c, "ack": v[b.ack], "err": v[b.err]})
        # idle: next op?
        if self.idx >= len(self.ops):
            return {b.cyc: 0, b.stb: 0}
        op = self.ops[self.idx]
        if self.gap > 0:
            self.gap -= 1
            return {b.cyc: 1 if op.get("hold") and self.idx > 0 else 0, b.stb: 0}
        self.state = "req"
        self.issue_cycle = c + 1          # first cycle in which the request is visible
        return self._drive(op)

    def done(self):
        return self.idx >= len(self.ops) or self.hung is not None


class WBSlave:
    """Registered-ack slave: answers `lat(rng)` cycles after it first sees cyc & stb (>= 1 wait state).
    mode 'mem': byte memory (dict word -> value); mode 'tag': returns tag values chosen per access.
    mute_from/mute_for: stop answering (fault injection)."""
    def __init__(self, bus, rng, name="s", lat=(0, 3), err_p=0.0, mem=None, tagger=None,
                 mute_from=None, mute_for=None, readonly=False, err_with_ack=False):
        self.bus, self.rng, self.name = bus, rng, name
        self.lat, self.err_p = lat, err_p
        self.mem = mem if mem is not None else {}
        self.tagger = tagger
        self.count = None
        self.acking = False
        self.cur = None
        self.log = []
        self.seen_requests = 0
        self.mute_from, self.mute_for = mute_from, mute_for
        self.nbytes = len(bus.dat_w) // 8
        self.aborted = 0
        self.readonly = readonly
        self.err_with_ack = err_with_ack      # LiteX convention: err is a flag raised together with ack
        self.cyc_cycles = []

    def signals(self):
        b = self.bus
        return [b.cyc, b.stb, b.we, b.adr, b.sel, b.dat_w, b.cti, b.bte]

    def muted(self, c):
        if self.mute_from is None or c < self.mute_from:
            return False
        return self.mute_for is None or c < self.mute_from + self.mute_for

    def step(self, v, c):
        b = self.bus
        req = v[b.cyc] and v[b.stb]
        w = {}
        if self.acking:
            # our ack/err was visible during the cycle that just ended
            if req:
                adr, we, sel = v[b.adr], v[b.we], v[b.sel]
                dat_w = umask(b.dat_w, v[b.dat_w])
                e = dict(self.cur)
                e.update({"done": c, "adr": adr, "we": we, "sel": sel, "dat_w": dat_w, "cti": v[b.cti]})
                self.log.append(e)
                if we and not e["err"] and not self.readonly:
                    old = self.mem.get(adr, 0)
                    for i in range(self.nbytes):
                        if (sel >> i) & 1:
                            old = (old & ~(0xff << (8 * i))) | (dat_w & (0xff << (8 * i)))
                    self.mem[adr] = old
            else:
                self.aborted += 1
            self.acking = False
            self.count = None
            w = {b.ack: 0, b.err: 0}
            return w
        if not req:
            if self.count is not None:
                self.aborted += 1
            self.count = None
            return None
        if self.count is None:
            self.seen_requests += 1
            self.count = self.rng.randint(*self.lat)
        if self.muted(c):
            return None
        if self.count > 0:
            self.count -= 1
            return None
        # answer now: visible next cycle
        err = int(self.rng.random() < self.err_p)
        adr = v[b.adr]
        if self.tagger is not None:
            dat_r = self.tagger(self, adr)
        else:
            dat_r = self.mem.get(adr, 0)
        self.cur = {"dat_r": dat_r, "err": err}
        self.acking = True
        return {b.ack: 0 if (err and not self.err_with_ack) else 1, b.err: err, b.dat_r: dat_r}


class WBProtocolMonitor:
    """Checks on one port, every cycle: the master-side outputs of a DUT are held until ack|err
    (cyc/stb/adr/we/sel/dat_w stable), stb only inside cyc; counts ack pulses."""
    def __init__(self, bus, name, check_hold=True, reads_select_all=False):
        self.bus, self.name, self.check_hold = bus, name, check_hold
        self.reads_select_all = reads_select_all      # the DUT translates reads that have no byte enables (AXI / AXI-Lite / AHB word reads)
        self.read_cycles = 0
        self.prev = None
        self.viol = []
        self.acks = 0
        self.cycles = 0
        self.req_cycles = 0
        self.last_ack = None
        self.lookahead_acks = 0

    def signals(self):
        b = self.bus
        return [b.cyc, b.stb, b.we, b.adr, b.sel, b.dat_w, b.ack, b.err, b.cti, b.bte]

    def step(self, v, c):
        b = self.bus
        self.cycles += 1
        cyc, stb, ack, err = v[b.cyc], v[b.stb], v[b.ack], v[b.err]
        cur = (v[b.adr], v[b.we], v[b.sel], umask(b.dat_w, v[b.dat_w]) if v[b.we] else 0)
        if stb and not cyc:
            self.viol.append({"cycle": c, "kind": "stb-without-cyc"})
        if self.reads_select_all and cyc and stb and not v[b.we]:
            self.read_cycles += 1
            if v[b.sel] != (1 << len(b.sel)) - 1 and not any(x["kind"] == "read-cycle-does-not-select-all-bytes" for x in self.viol):
                self.viol.append({"cycle": c, "kind": "read-cycle-does-not-select-all-bytes", "sel": v[b.sel]})
        if (ack or err) and not (cyc and stb):
            # look-ahead acknowledge of a registered-feedback burst falling into a master wait state: see WBMaster
            if ack and not err and cyc and self.last_ack == (c - 1, CTI_INCR):
                self.lookahead_acks += 1
            else:
                self.viol.append({"cycle": c, "kind": "ack-without-request"})
        if self.check_hold and self.prev is not None:
            if not (cyc and stb):
                self.viol.append({"cycle": c, "kind": "request-withdrawn-before-ack", "was": self.prev})
            elif cur != self.prev:
                self.viol.append({"cycle": c, "kind": "request-changed-before-ack", "was": self.prev, "now": cur})
        if cyc and stb:
            self.req_cycles += 1
            if ack or err:
                self.acks += 1
                self.last_ack = (c, v[b.cti])
                self.prev = None
            else:
                self.prev = cur
        else:
            self.prev = None
        return None


def apply_sel(old, new, sel, nbytes):
    for i in range(nbytes):
        if (sel >> i) & 1:
            old = (old & ~(0xff << (8 * i))) | (new & (0xff << (8 * i)))
    return old


class WBScript:
    """Wishbone master driven by a Python generator: the generator yields ("write", word_adr, data[, sel]),
    ("read", word_adr), ("wait", n) or ("call", fn) and is sent the read data / None. Used where the next access
    depends on what was observed (accessor replay on a whole SoC)."""
    def __init__(self, bus, gen, watch=None, max_wait=400):
        self.bus, self.gen = bus, gen
        self.state = "next"
        self.wait = 0
        self.res = None
        self.finished = False
        self.watch = watch or []          # extra signals sampled every cycle (last sample in self.sample)
        self.sample = {}
        self.max_wait = max_wait
        self.waited = 0
        self.hung = None
        self.accesses = 0
        self.cur = None

    def signals(self):
        b = self.bus
        return [b.ack, b.err, b.dat_r] + self.watch

    def step(self, v, c):
        b = self.bus
        self.sample = v
        self.cycle = c
        if self.state == "req":
            if v[b.ack] or v[b.err]:
                self.res = {"dat_r": umask(b.dat_r, v[b.dat_r]), "err": v[b.err], "cycle": c}
                self.state = "next"
                self.accesses += 1
                self.waited = 0
            else:
                self.waited += 1
                if self.waited > self.max_wait:
                    self.hung = {"cycle": c, "access": self.cur}
                    self.res = {"dat_r": None, "err": 1, "hung": True, "cycle": c}
                    self.state = "next"
                else:
                    return None
        if self.state == "wait":
            self.wait -= 1
            if self.wait > 0:
                return {b.cyc: 0, b.stb: 0}
            self.state = "next"
            self.res = None
        while self.state == "next":
            try:
                op = self.gen.send(self.res)
            except StopIteration:
                self.finished = True
                return {b.cyc: 0, b.stb: 0}
            self.res = None
            if op[0] == "call":
                self.res = op[1](self)
                continue
            if op[0] == "wait":
                self.state, self.wait = "wait", op[1]
                return {b.cyc: 0, b.stb: 0}
            self.cur = op
            self.state = "req"
            if op[0] == "write":
                sel = op[3] if len(op) > 3 else (1 << len(b.sel)) - 1
                return {b.cyc: 1, b.stb: 1, b.we: 1, b.adr: op[1], b.dat_w: op[2], b.sel: sel}
            return {b.cyc: 1, b.stb: 1, b.we: 0, b.adr: op[1], b.sel: (1 << len(b.sel)) - 1}
        return None

    def done(self):
        return self.finished
