"""Per-shard result collector shared by all property modules."""
import json
import random
import hashlib
import traceback


def rng_for(*parts):
    return random.Random("/".join(str(p) for p in parts))


def h(obj):
    return hashlib.sha1(json.dumps(obj, sort_keys=True, default=str).encode()).hexdigest()[:16]


class Collector:
    def __init__(self, cls, max_samples=2, max_viol_per_key=3):
        self.cls = cls
        self.cases = 0
        self.events = {}
        self.hashes = set()
        self.samples = []
        self.cover = {}
        self.violations = []
        self.inconclusive = []
        self._vk = {}
        self.max_samples = max_samples
        self.max_viol_per_key = max_viol_per_key

    def ev(self, name, n=1):
        self.events[name] = self.events.get(name, 0) + n

    def cov(self, name, value):
        s = self.cover.setdefault(name, set())
        s.add(value if isinstance(value, (str, int)) else json.dumps(value, sort_keys=True, default=str))

    def count(self, name, n=1):
        self.cover[name] = self.cover.get(name, 0) + n

    def case_done(self, case, nontrivial=True, digest=None, sample=None):
        self.cases += 1
        if nontrivial:
            self.hashes.add(h(digest if digest is not None else case))
        if sample is not None and len(self.samples) < self.max_samples:
            self.samples.append(sample)

    def violation(self, key, case, what, witness=None):
        n = self._vk.get(key, 0)
        self._vk[key] = n + 1
        if n < self.max_viol_per_key:
            self.violations.append({"key": key, "cls": self.cls, "case": case, "what": what,
                                    "witness": witness})
        else:
            # keep the count but not the body
            self.violations.append({"key": key, "cls": self.cls, "case": case, "what": "(see first witnesses)"})

    def inconc(self, case, reason):
        self.inconclusive.append({"case": case, "reason": reason})

    def guard(self, case, fn, *a, **k):
        """Run one case; a harness exception is inconclusive, never a verdict."""
        try:
            # migen's tracer keeps every object it ever named in two module-level tables and scans them linearly for each new
            # Signal: thousands of elaborations in one process become quadratic (and names would depend on the cases that ran
            # before). Each case starts from empty tables.
            import migen.fhdl.tracer as _t
            _t.classname_to_objs.clear()
            _t.name_to_idx.clear()
        except Exception:
            pass
        try:
            return fn(*a, **k)
        except Exception:
            from lib import env
            env.restore_stderr()
            self.inconc(case, "harness exception: " + traceback.format_exc()[-2500:])
            return None

    def result(self):
        cover = {}
        for k, v in self.cover.items():
            cover[k] = sorted(v, key=str) if isinstance(v, set) else v
        return {"cases": self.cases, "events": self.events, "hashes": sorted(self.hashes),
                "samples": self.samples, "cover": cover, "violations": self.violations,
                "inconclusive": self.inconclusive}
