"""Process environment for every check: import LiteX from the tree under test, add local deps,
install the tracer shim, silence LiteX's logging."""
import os
import sys

VERIF_ROOT = os.path.dirname(os.path.dirname(os.path.abspath(__file__)))
LITEX_ROOT = os.environ.get("LITEX_ROOT", "/repo")
DEPS = os.path.join(VERIF_ROOT, ".deps")

_done = False


def setup(shim=True):
    global _done
    for p in (VERIF_ROOT, DEPS, LITEX_ROOT):
        if p in sys.path:
            sys.path.remove(p)
        sys.path.insert(0, p)
    if _done:
        return
    _done = True
    os.environ.setdefault("LITEX_VERIF", "1")
    import logging
    logging.disable(logging.CRITICAL)
    import litex
    root = os.path.realpath(os.path.dirname(os.path.dirname(litex.__file__)))
    if root != os.path.realpath(LITEX_ROOT):
        raise RuntimeError("litex imported from %s, expected %s" % (root, LITEX_ROOT))
    if shim:
        from lib import tracer312
        tracer312.install()


def restore_stderr():
    # SoCError.__init__ sets sys.stderr = None
    if sys.stderr is None:
        sys.stderr = sys.__stderr__
