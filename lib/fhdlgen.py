"""Grammar-based random FHDL fragment generator for C01.

A design is described by a JSON spec (so that it can be rebuilt identically twice: once for convert(), once for the
simulator) and instantiated by build(spec). Expression nodes are JSON lists:
  ["sig", i] ["const", value, nbits, signed] ["op", op, a(, b(, c))] ["slice", e, start, stop] ["cat", [e...]]
  ["rep", e, n] ["array", [e...], key]
Statements: ["assign", target, e] ["if", cond, then, [(cond, stmts)...elif], else] ["case", test, {value: stmts}, default]
Targets: ["sig", i] ["slice", ["sig", i], a, b] ["cat", [targets]] ["array", [targets], key]

Classes: width-closed = arithmetic (+ - * unary- <<) only where Verilog's context width and Migen's natural width
cannot differ observably (top of a right-hand side, under other arithmetic / bitwise / Mux); width-hostile = anywhere."""
from migen import *
from migen.fhdl.structure import _Operator, _Slice

ARITH = ["+", "-", "*", "neg", "<<"]
BITWISE = ["&", "|", "^", "~"]
CMP = ["<", "<=", "==", "!=", ">", ">="]


class Gen:
    def __init__(self, rng, cls="hostile", wide=False):
        """cls: 'closed-unsigned' (all unsigned, no negative constants / unary minus; arithmetic anywhere at the top of a
        right-hand side), 'closed-mixed' (signedness mixes; an arithmetic operator only as the root of a right-hand side
        with leaf operands, so that LiteX's $signed({1'd0, x}) wrapper never contains arithmetic), 'hostile' (anything)"""
        self.rng, self.cls, self.wide = rng, cls, wide
        self.hostile = cls == "hostile"
        self.sigs = []          # {"w":, "s":, "kind": in/comb/sync, "reset":, "dom":}
        self.hostile_targets = set()
        self._hostile_used = False

    def new_sig(self, kind, dom=None):
        r = self.rng
        w = r.choice([1, 1, 2, 3, 4, 5, 8, 8, 12]) if not self.wide else r.choice([1, 8, 33, 40, 64, 70])
        s = r.random() < 0.35 and w > 1 and self.cls != "closed-unsigned"
        reset = r.getrandbits(w)
        if s and reset >= (1 << (w - 1)):
            reset -= 1 << w
        self.sigs.append({"w": w, "s": s, "kind": kind, "reset": 0 if kind == "in" else reset, "dom": dom,
                          "reset_less": kind == "sync" and r.random() < 0.2})
        return len(self.sigs) - 1

    # ---------------------------------------------------------------- expressions
    def const(self):
        r = self.rng
        nb = r.choice([1, 2, 3, 4, 8])
        if r.random() < 0.3 and self.cls != "closed-unsigned":
            v = -r.randint(1, 1 << (nb - 1)) if nb > 1 else -1
            return ["const", v, None, None]
        v = r.getrandbits(nb)
        return ["const", v, None, None]

    def leaf(self, pool):
        if self.rng.random() < 0.25 or not pool:
            return self.const()
        return ["sig", self.rng.choice(pool)]

    def expr(self, pool, depth, arith_ok):
        """arith_ok: arithmetic operators allowed at this position (width-closed rule); hostile ignores it"""
        r = self.rng
        if depth <= 0 or r.random() < 0.25:
            return self.leaf(pool)
        allow_arith = arith_ok or self.hostile
        if self.cls == "closed-mixed" and not getattr(self, "_root", False):
            allow_arith = False
        self._root = False
        choices = ["bit", "bit", "cmp", "mux", "slice", "cat", "rep", "shr", "catslice"]
        if allow_arith:
            choices += ["arith", "arith", "arith", "shl", "not"]
        elif (arith_ok and self.cls != "closed-mixed") or self.hostile:
            # (closed-mixed: a ~ below a mixed-signedness operator ends up inside LiteX's $signed({1'd0, x}) wrapper, where
            #  Verilog inverts at the operand's width and Migen at unbounded width - the intermediate-overflow class)
            choices += ["not"]
        if len(pool) >= 2:
            choices.append("array")
        c = r.choice(choices)
        if c in ("arith", "shl") and not arith_ok:
            self._hostile_used = True
        if c in ("arith", "shl") and self.cls == "closed-mixed":
            # only leaf operands: no arithmetic can end up inside a $signed({1'd0, ...}) wrapper
            if c == "shl":
                return ["op", "<<<", self.leaf(pool), ["const", r.randint(0, 3), None, None]]
            op = r.choice(["+", "-", "*"])
            return ["op", op, self.leaf(pool), self.leaf(pool)]
        if c == "arith":
            op = r.choice(["+", "-", "*", "neg"] if self.cls != "closed-unsigned" else ["+", "-", "*"])
            if op == "neg":
                return ["op", "-", self.expr(pool, depth - 1, arith_ok)]
            return ["op", op, self.expr(pool, depth - 1, arith_ok), self.expr(pool, depth - 1, arith_ok)]
        if c == "shl":
            return ["op", "<<<", self.expr(pool, depth - 1, arith_ok), ["const", r.randint(0, 3), None, None]]
        if c == "bit":
            op = r.choice(["&", "|", "^"])
            return ["op", op, self.expr(pool, depth - 1, arith_ok), self.expr(pool, depth - 1, arith_ok)]
        if c == "not":
            return ["op", "~", self.expr(pool, depth - 1, arith_ok)]
        if c == "cmp":
            return ["op", r.choice(CMP), self.expr(pool, depth - 1, False), self.expr(pool, depth - 1, False)]
        if c == "mux":
            return ["op", "m", self.expr(pool, depth - 1, False), self.expr(pool, depth - 1, arith_ok), self.expr(pool, depth - 1, arith_ok)]
        if c == "shr":
            amt = ["const", r.randint(0, 4), None, None] if r.random() < 0.7 else self.small_sig(pool)
            return ["op", ">>>", self.expr(pool, depth - 1, False), amt]
        if c == "slice":
            e = self.expr(pool, depth - 1, False)
            if e[0] == "array":
                return e      # slicing an Array of unequal widths beyond a narrow element makes convert() assert: outside "designs LiteX can elaborate"
            return ["slice", e, None, None]          # bounds chosen at build time from the actual length
        if c == "cat":
            return ["cat", [self.expr(pool, depth - 1, False) for _ in range(r.randint(1, 3))]]
        if c == "catslice":
            # a slice of a concatenation (bounds around the element boundaries are chosen at build time)
            return ["slice", ["cat", [self.leaf(pool) if r.random() < 0.6 else self.expr(pool, depth - 1, False) for _ in range(r.randint(2, 3))]],
                    None, None]
        if c == "rep":
            return ["rep", self.expr(pool, depth - 1, False), r.randint(1, 3)]
        if c == "array":
            n = r.randint(2, 4)
            key = self.small_sig(pool)
            if key[0] == "const":
                key = ["const", key[1] % n, None, None]
            if self.cls == "closed-mixed" and r.random() < 0.75:
                # mostly same-signedness elements: a mixed Array whose widest element is unsigned is the known
                # migen value_bits_sign finding, which would end the comparison of this design at its first use
                upool = [i for i in pool if not self.sigs[i]["s"]]
                els = [(["sig", r.choice(upool)] if upool and r.random() < 0.75 else ["const", r.getrandbits(r.choice([1, 3, 8])), None, None])
                       for _ in range(n)]
                return ["array", els, key]
            return ["array", [self.leaf(pool) for _ in range(n)], key]
        raise ValueError(c)

    def small_sig(self, pool):
        small = [i for i in pool if self.sigs[i]["w"] <= 3 and not self.sigs[i]["s"]]
        if small:
            return ["sig", self.rng.choice(small)]
        return ["const", self.rng.randint(0, 3), None, None]

    # ---------------------------------------------------------------- statements
    def target(self, ti):
        r = self.rng
        w = self.sigs[ti]["w"]
        if w > 1 and r.random() < 0.25:
            a = r.randrange(w)
            b = r.randint(a + 1, w)
            if b - a > 1 and r.random() < 0.4:
                # a slice of a slice (byte lane of a half word ...)
                c = r.randrange(b - a)
                d = r.randint(c + 1, b - a)
                return ["slice", ["slice", ["sig", ti], a, b], c, d]
            return ["slice", ["sig", ti], a, b]
        return ["sig", ti]

    def lanes(self, ti, pool):
        """several assignments of one block to different sub-slices of the same inner slice of the target (byte enables of a word):
        all of them take effect at the same edge"""
        r = self.rng
        w = self.sigs[ti]["w"]
        a = r.randrange(w - 1)
        b = r.randint(a + 2, w)
        n = b - a
        cut = r.randint(1, n - 1)
        out = []
        for (c, d) in ((0, cut), (cut, n)):
            self._root = True
            e = self.expr(pool, 1, True)
            self._root = False
            st = ["assign", ["slice", ["slice", ["sig", ti], a, b], c, d], e]
            out.append(st if r.random() < 0.5 else ["if", self.expr(pool, 1, False), [st], [], []])
        return out

    def stmts(self, ti, pool, depth):
        r = self.rng
        if depth > 0 and self.sigs[ti]["w"] >= 3 and r.random() < 0.12:
            return self.lanes(ti, pool)
        c = r.choice(["assign", "assign", "if", "case"]) if depth > 0 else "assign"
        if c == "assign":
            self._hostile_used = False
            self._root = True
            e = self.expr(pool, r.randint(1, 3), True)
            self._root = False
            if self._hostile_used:
                self.hostile_targets.add(ti)
            return [["assign", self.target(ti), e]]
        if c == "if":
            self._hostile_used = False
            cond = self.expr(pool, 2, False)
            elifs = [[self.expr(pool, 1, False), self.stmts(ti, pool, depth - 1)] for _ in range(r.choice([0, 0, 1]))]
            if self._hostile_used:
                self.hostile_targets.add(ti)
            then = self.stmts(ti, pool, depth - 1) if r.random() < 0.9 else []
            return [["if", cond, then, elifs, self.stmts(ti, pool, depth - 1) if r.random() < 0.6 else []]]
        test_pool = [i for i in pool if self.sigs[i]["w"] <= 4]
        if not test_pool:
            return self.stmts(ti, pool, 0)
        t = r.choice(test_pool)
        w, s = self.sigs[t]["w"], self.sigs[t]["s"]
        vals = {}
        for _ in range(r.randint(1, 3)):
            v = r.getrandbits(w)
            if s and v >= (1 << (w - 1)):
                v -= 1 << w
            # (an arm or branch with no statement is legal FHDL: 'do nothing for this value', not 'fall to the default')
            vals[str(v)] = self.stmts(ti, pool, depth - 1) if r.random() < 0.85 else []
        return [["case", ["sig", t], vals, self.stmts(ti, pool, depth - 1) if r.random() < 0.6 else None]]

    # ---------------------------------------------------------------- design
    def design(self):
        r = self.rng
        nin, ncomb, nsync = r.randint(2, 5), r.randint(1, 4), r.randint(1, 4)
        two_domains = r.random() < 0.25
        ins = [self.new_sig("in") for _ in range(nin)]
        syncs = [self.new_sig("sync", dom=("b" if two_domains and r.random() < 0.4 else "sys")) for _ in range(nsync)]
        spec = {"comb": [], "sync": [], "mems": [], "insts": []}
        combs = []
        # instances of the harness cell VBLK (see cell_model): inputs are expressions over inputs and registers, outputs are
        # signals of their own that the rest of the design reads
        inst_outs = []
        for _ in range(getattr(self, "n_insts", 0)):
            pool0 = ins + syncs
            y, z = self.new_sig("inst"), self.new_sig("inst")
            self.sigs[y].update({"w": 9, "s": False, "reset": 0})
            self.sigs[z].update({"w": 7, "s": self.cls != "closed-unsigned", "reset": 0})
            self._root = True
            ea = self.expr(pool0, 2, True)
            self._root = True
            eb = self.expr(pool0, 2, True)
            self._root = True
            es = self.expr(pool0, 2, True)
            pw = r.choice([3, 4, 8])
            spec["insts"].append({"P": r.getrandbits(pw), "PW": pw, "PS": False, "MODE": r.choice(["add", "xor"]), "K": r.getrandbits(6),
                                  "F": r.choice([0.0, 1.0, 3.0, 2.5, 12.75]), "ins": {"a": ea, "b": eb, "s": es}, "outs": {"y": y, "z": z}})
            inst_outs += [y, z]
        for _ in range(ncomb):
            ci = self.new_sig("comb")
            pool = ins + syncs + combs + inst_outs
            blocks = []
            for _ in range(r.randint(1, 2)):
                blocks += self.stmts(ci, pool, 2)
            spec["comb"].append([ci, blocks])
            combs.append(ci)
        pool = ins + syncs + combs + inst_outs
        for si in syncs:
            blocks = []
            for _ in range(r.randint(1, 2)):
                blocks += self.stmts(si, pool, 2)
            spec["sync"].append([si, self.sigs[si]["dom"], blocks])
        # memories
        for mi in range(r.choice([0, 0, 1, 1, 2])):
            width = r.choice([4, 8, 8, 12, 16])
            depth = r.choice([2, 4, 8, 16])
            init = r.choice([None, "full", "short"])
            ports = []
            # (ports of one memory in different domains, and NO_CHANGE ports with lane enables, are known findings that end the
            #  comparison of the design early: drawn, but not often)
            mdom = "b" if two_domains and r.random() < 0.35 else "sys"
            for pi in range(r.randint(1, 2)):
                wr = r.random() < 0.7
                gran = r.choice([0, 0, 4, width]) if wr and width % 4 == 0 else 0
                if gran and width % gran:
                    gran = 0
                mode = r.choice(["wf", "rf", "nc"]) if wr else r.choice(["wf", "rf"])
                if mode == "nc" and gran not in (0, width) and r.random() < 0.7:
                    gran = 0
                pdom = mdom
                if two_domains and r.random() < 0.15:
                    pdom = "sys" if mdom == "b" else "b"
                ports.append({"we": wr, "gran": gran, "mode": mode,
                              "async": r.random() < 0.2, "re": r.random() < 0.3, "dom": pdom,
                              "adr": self.expr(pool, 1, False), "dat_w": self.expr(pool, 1, True), "wen": self.expr(pool, 1, False),
                              "ren": self.expr(pool, 1, False)})
            spec["mems"].append({"width": width, "depth": depth, "init": init, "ports": ports,
                                 "init_vals": [r.getrandbits(width) for _ in range(depth)]})
        spec["sigs"] = self.sigs
        spec["two_domains"] = two_domains
        spec["hostile_targets"] = sorted(self.hostile_targets)
        spec["regular_comb"] = r.random() < 0.8
        return spec


# -------------------------------------------------------------------- instantiate
CELL = "VBLK"
CELL_IN = {"a": (8, False), "b": (5, False), "s": (6, True)}
CELL_OUT = {"y": 9, "z": 7}


def cell_model(params, ins):
    """The harness cell VBLK(P, MODE, K, F)(a[8], b[5], s[6] signed -> y[9], z[7]), executed by vsim for the emitted text; the same
    function written in FHDL is what the simulated twin of the design contains in place of the Instance."""
    def num(txt, ast):
        if ast is not None and ast[0] == "const":
            return ast[2]
        return int(float(txt))
    P = num(params["P"][0], params["P"][2])
    K = num(params["K"][0], params["K"][2])
    F = int(float(params["F"][0]))
    mode = params["MODE"][0]
    if not (mode.startswith('"') and mode.endswith('"')):
        mode = '"?"'                       # not a string literal: the cell does something else (seen as a disagreement)
    mode = mode[1:-1]
    a, b, s_ = ins["a"], ins["b"], ins["s"]
    if mode == "add":
        y = a + b * P + K
    elif mode == "xor":
        y = a ^ (b << 2) ^ P ^ K
    else:
        y = 0x155 ^ a                      # a mode the cell was never given by the design: visible as a disagreement
    return {"y": y & 0x1ff, "z": (s_ + F) & 0x7f}


def build(spec, inline_instances=False):
    """-> (top Module, signals list (index -> Signal), memories list, port dat_r signals).
    inline_instances: the instances of the harness cell are replaced by the cell's function written in FHDL (extra port signals are
    created last, so that all other signals keep their creation order)."""
    sigs = []
    for i, d in enumerate(spec["sigs"]):
        sigs.append(Signal((d["w"], d["s"]), name="%s%d" % ({"in": "i", "comb": "c", "sync": "r", "inst": "x"}[d["kind"]], i), reset=d["reset"],
                           reset_less=d.get("reset_less", False)))
    top = Module()
    top.clock_domains.cd_sys = ClockDomain("sys")
    if spec["two_domains"]:
        top.clock_domains.cd_b = ClockDomain("b")

    def E(e):
        k = e[0]
        if k == "sig":
            return sigs[e[1]]
        if k == "const":
            return Constant(e[1]) if e[2] is None else Constant(e[1], (e[2], e[3]))
        if k == "op":
            args = [E(x) for x in e[2:]]
            op = e[1]
            if op == "m":
                return Mux(*args)
            if len(args) == 1:
                return _Operator(op, args)
            if op == "<<<":
                return args[0] << args[1]
            if op == ">>>":
                return args[0] >> args[1]
            return _Operator(op, args)
        if k == "slice":
            v = E(e[1])
            n = len(v)
            if e[2] is None:
                # deterministic bounds from the length
                a = (n * 3 // 7) % n
                b = min(n, a + max(1, n // 2))
                if n == 1:
                    a, b = 0, 1
                # every third slice is the full width (exercises the full-width slice lowering)
                if (n + len(str(e[1]))) % 3 == 0:
                    a, b = 0, n
                elif e[1][0] == "cat" and len(e[1][1]) >= 2:
                    # slices of a concatenation around its element boundaries (the slice lowering narrows them to one element when
                    # they fit): ending one or two bits into the next element, starting on a boundary, ending on one
                    cum = [0]
                    for x in e[1][1]:
                        cum.append(cum[-1] + len(E(x)))
                    sel = (n + 7 * len(str(e[1]))) % 6
                    bnd = cum[1 + (sel + len(str(e))) % (len(cum) - 2)]
                    if 0 < bnd < n:
                        if sel == 0:
                            a, b = max(0, bnd - 1), bnd + 1
                        elif sel == 1:
                            a, b = max(0, bnd - 2), bnd + 1
                        elif sel == 2:
                            a, b = max(0, bnd - 1), min(n, bnd + 2)
                        elif sel == 3:
                            a, b = bnd, min(n, bnd + max(1, (n - bnd) // 2))
                        elif sel == 4:
                            a, b = max(0, bnd - max(1, bnd // 2)), bnd
            else:
                a, b = e[2], e[3]
            assert 0 <= a < b <= n, (e, n, a, b)
            return v[a:b]
        if k == "cat":
            return Cat(*[E(x) for x in e[1]])
        if k == "rep":
            return Replicate(E(e[1]), e[2])
        if k == "array":
            return Array([E(x) for x in e[1]])[E(e[2])]
        raise ValueError(e)

    def T(t):
        if t[0] == "sig":
            return sigs[t[1]]
        if t[0] == "slice":
            return T(t[1])[t[2]:t[3]]
        raise ValueError(t)

    def S(st):
        k = st[0]
        if k == "assign":
            return T(st[1]).eq(E(st[2]))
        if k == "if":
            node = If(E(st[1]), *[S(x) for x in st[2]])
            for c, body in st[3]:
                node = node.Elif(E(c), *[S(x) for x in body])
            if st[4]:
                node = node.Else(*[S(x) for x in st[4]])
            return node
        if k == "case":
            cases = {int(v): [S(x) for x in body] for v, body in st[2].items()}
            if st[3] is not None:
                cases["default"] = [S(x) for x in st[3]]
            return Case(E(st[1]), cases)
        raise ValueError(st)
    for ci, blocks in spec["comb"]:
        top.comb += [S(b) for b in blocks]
    for si, dom, blocks in spec["sync"]:
        getattr(top.sync, dom).__iadd__([S(b) for b in blocks])
    mems = []
    port_sigs = []
    for mi, ms in enumerate(spec["mems"]):
        init = None
        if ms["init"] == "full":
            init = list(ms["init_vals"])
        elif ms["init"] == "short":
            init = list(ms["init_vals"][:max(1, ms["depth"] // 2)])
        mem = Memory(ms["width"], ms["depth"], init=init, name="m%d" % mi)
        top.specials += mem
        mems.append(mem)
        for pi, p in enumerate(ms["ports"]):
            mode = {"wf": WRITE_FIRST, "rf": READ_FIRST, "nc": NO_CHANGE}[p["mode"]]
            port = mem.get_port(write_capable=p["we"], async_read=p["async"], has_re=p["re"] and not p["async"],
                                we_granularity=p["gran"], mode=mode, clock_domain=p["dom"])
            top.specials += port
            top.comb += port.adr.eq(E(p["adr"]))
            if p["we"]:
                top.comb += [port.dat_w.eq(E(p["dat_w"])), port.we.eq(E(p["wen"]))]
            if port.re is not None:
                top.comb += port.re.eq(E(p["ren"]))
            port_sigs.append(port.dat_r)
    for ii, ins in enumerate(spec.get("insts", [])):
        y, z = sigs[ins["outs"]["y"]], sigs[ins["outs"]["z"]]
        if not inline_instances:
            top.specials += Instance(CELL,
                p_P=Constant(ins["P"], (ins["PW"], ins["PS"])), p_MODE=ins["MODE"], p_K=Instance.PreformattedParam("6'd%d" % ins["K"]),
                p_F=float(ins["F"]),
                i_a=E(ins["ins"]["a"]), i_b=E(ins["ins"]["b"]), i_s=E(ins["ins"]["s"]), o_y=y, o_z=z)
        else:
            pa, pb, ps = Signal(8, name="vblk%d_a" % ii), Signal(5, name="vblk%d_b" % ii), Signal((6, True), name="vblk%d_s" % ii)
            top.comb += [pa.eq(E(ins["ins"]["a"])), pb.eq(E(ins["ins"]["b"])), ps.eq(E(ins["ins"]["s"]))]
            if ins["MODE"] == "add":
                top.comb += y.eq(pa + pb * ins["P"] + ins["K"])
            else:
                top.comb += y.eq(pa ^ (pb << 2) ^ ins["P"] ^ ins["K"])
            top.comb += z.eq(ps + int(ins["F"]))
    return top, sigs, mems, port_sigs
