"""Line-hit probe on the repository's sources (sys.monitoring, each line reported once then DISABLEd: ~free).
Enabled by VERIF_COVER=<directory>: every worker dumps {file: [lines]} there; tools/anchor_cover.py merges the dumps and
lists, per anchor file of a property, the functions/classes whose bodies the workloads never reached.  Coverage never decides
anything: it shows what the monitors could not have observed."""
import os, sys, json, atexit

_hits = {}


def start(root):
    mon = sys.monitoring
    tool = 4
    try:
        mon.use_tool_id(tool, "verif-linecov")
    except ValueError:
        return
    root = os.path.realpath(root) + os.sep

    def on_line(code, line):
        fn = code.co_filename
        if fn.startswith(root):
            _hits.setdefault(fn[len(root):], set()).add(line)
        return mon.DISABLE

    mon.register_callback(tool, mon.events.LINE, on_line)
    mon.set_events(tool, mon.events.LINE)


def dump_at_exit(outdir, tag):
    def _dump():
        os.makedirs(outdir, exist_ok=True)
        p = os.path.join(outdir, "%s.%d.json" % (tag, os.getpid()))
        with open(p, "w") as f:
            json.dump({k: sorted(v) for k, v in _hits.items()}, f)
    atexit.register(_dump)
