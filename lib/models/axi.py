"""AMBA AXI burst address equations (AXI4 spec A3.4.1), written independently of LiteX."""
FIXED, INCR, WRAP = 0, 1, 2


def beat_addresses(addr, length, size, burst):
    """Byte address of every transfer of a burst (len+1 beats)."""
    nbytes = 1 << size
    n = length + 1
    aligned = (addr // nbytes) * nbytes
    out = []
    if burst == FIXED:
        return [addr] * n
    if burst == INCR:
        for k in range(n):
            out.append(addr if k == 0 else aligned + k * nbytes)
        return out
    if burst == WRAP:
        total = nbytes * n
        lower = (addr // total) * total
        upper = lower + total
        a = addr
        for k in range(n):
            out.append(a)
            a = (a // nbytes) * nbytes + nbytes
            if a >= upper:
                a = lower
        return out
    raise ValueError("reserved burst type")


def legal(addr, length, size, burst, bus_bytes):
    n = length + 1
    if (1 << size) > bus_bytes:
        return False
    if burst == WRAP:
        if n not in (2, 4, 8, 16) or addr % (1 << size):
            return False
    if burst == FIXED and n > 16:
        return False
    if burst == INCR and n > 256:
        return False
    if burst == 3:
        return False
    if burst == INCR:
        # must not cross a 4KB boundary
        last = (addr // (1 << size)) * (1 << size) + length * (1 << size) + (1 << size) - 1
        if addr // 4096 != last // 4096:
            return False
    return True


def byte_lanes(beat_addr, size, bus_bytes, first):
    """(lower, upper) byte lanes used by a transfer at byte address beat_addr."""
    nbytes = 1 << size
    if first or beat_addr % nbytes:
        # first transfer, or every transfer of a FIXED burst with an unaligned start: same lanes each beat
        lower = beat_addr % bus_bytes
        upper = (beat_addr // nbytes) * nbytes + nbytes - 1 - (beat_addr // bus_bytes) * bus_bytes
    else:
        lower = beat_addr % bus_bytes
        upper = lower + nbytes - 1
    return lower, upper
