"""Independent PLL arithmetic for C20 (no LiteX import): device formulae, declared-range membership and a
brute-force existence search that does NOT reuse the helpers' nested scans.

A PLL is described by plain data (`desc`, extracted from the helper's class attributes by props/c20mon.py):

  generic divider PLL (Xilinx PLL/MMCM/DCM, Lattice NX, iCE40, Intel ALTPLL, Gowin GW5A):
      f_pfd = clkin / N        f_vco = clkin * M / N        f_out[i] = f_vco / D[i]
      desc = {"clkin", "outs": [(f, phase, margin)], "n": set-spec, "m": set-spec, "d": [set-spec per output],
              "pfd": (lo, hi) | None, "vco": (lo, hi) (margins already applied)}
      set-spec = list of ("range", lo, hi, step)  (values lo + k*step < hi)   or   ("list", [v, ...])

  Lattice ECP5 (feedback through an output divider):
      f_vco = clkin / clki_div * clkfb_div * D[fb]          f_out[i] = f_vco / D[i]

Soundness uses a float tolerance of 1e-9 (relative); the existence search only reports solutions that are
strictly inside the margin and the VCO/PFD windows by the same tolerance, so a float rounding difference
between this model and a helper can never produce a verdict.
"""
import math

TOL = 1e-9


# ------------------------------------------------------------------------------------------------
# value sets
# ------------------------------------------------------------------------------------------------

def in_spec(v, spec):
    for s in spec:
        if s[0] == "list":
            if any(abs(v - x) <= TOL*max(1, abs(x)) for x in s[1]):
                return True
        else:
            _, lo, hi, step = s
            if lo - TOL <= v < hi - TOL*step:
                k = (v - lo)/step
                if abs(k - round(k)) <= 1e-7:
                    return True
    return False


def spec_values(spec):
    out = []
    for s in spec:
        if s[0] == "list":
            out += list(s[1])
        else:
            _, lo, hi, step = s
            k = 0
            while lo + k*step < hi - TOL*step:
                v = lo + k*step
                out.append(int(v) if float(v).is_integer() else v)
                k += 1
    return sorted(set(out))


def spec_near(x, spec):
    """Members of the set that are closest to x (candidates for 'does a divider near x exist')."""
    out = []
    for s in spec:
        if s[0] == "list":
            out += list(s[1])
        else:
            _, lo, hi, step = s
            k0 = math.floor((x - lo)/step)
            for k in (k0 - 1, k0, k0 + 1, k0 + 2):
                v = lo + k*step
                if k >= 0 and v < hi - TOL*step:
                    out.append(int(v) if float(v).is_integer() else v)
    return out


def within_margin(f_out, f, m):
    """Soundness side: met within the stated margin (|f_out - f| <= f*m) up to float noise."""
    return abs(f_out - f) <= f*m + TOL*f


def strictly_within_margin(f_out, f, m):
    """Existence side: robustly inside the margin."""
    return abs(f_out - f) <= f*m - 10*TOL*f


def in_window(v, rng):
    return rng is None or (rng[0]*(1 - TOL) <= v <= rng[1]*(1 + TOL))


def strictly_in_window(v, rng):
    return rng is None or (rng[0]*(1 + 10*TOL) <= v <= rng[1]*(1 - 10*TOL))


# ------------------------------------------------------------------------------------------------
# generic divider PLL
# ------------------------------------------------------------------------------------------------

def generic_freqs(desc, N, M, D):
    vco = desc["clkin"]*M/N
    return desc["clkin"]/N, vco, [vco/d for d in D]


def generic_check(desc, N, M, D):
    """Problems of a returned configuration: list of (mechanism, text, info)."""
    pr = []
    if not in_spec(N, desc["n"]):
        pr.append(("input-divider-out-of-range", "input divider %r not in declared range" % (N,), {"N": N}))
    if not in_spec(M, desc["m"]):
        pr.append(("multiplier-out-of-range", "feedback multiplier %r not in declared range" % (M,), {"M": M}))
    pfd, vco, outs = generic_freqs(desc, N, M, D)
    if not in_window(pfd, desc.get("pfd")):
        pr.append(("pfd-out-of-range", "phase detector frequency %.6g Hz outside declared %r" % (pfd, desc.get("pfd")), {"pfd": pfd}))
    if not in_window(vco, desc["vco"]):
        pr.append(("vco-out-of-range", "VCO frequency %.6g Hz outside declared %r" % (vco, desc["vco"]), {"vco": vco}))
    for i, ((f, p, m), d, fo) in enumerate(zip(desc["outs"], D, outs)):
        if not in_spec(d, desc["d"][i]):
            pr.append(("output-divider-out-of-range", "divider %r of output %d not in declared range" % (d, i), {"output": i, "d": d}))
        if not within_margin(fo, f, m):
            pr.append(("output-outside-margin", "output %d: requested %.9g Hz +-%g, configuration gives %.9g Hz (error %.3g, allowed %.3g)"
                       % (i, f, m, fo, abs(fo - f)/f, m), {"output": i, "requested": f, "margin": m, "recomputed": fo}))
    return pr


def generic_solve(desc, max_pairs=3_000_000):
    """Does ANY (N, M, D) inside the declared sets meet the request?  Direct solve of each output divider
    (nearest members of its set to vco/f) instead of the helpers' scans. Returns a solution dict or None."""
    ns = spec_values(desc["n"])
    ms = spec_values(desc["m"])
    clkin = desc["clkin"]
    pairs = 0
    for N in ns:
        pfd = clkin/N
        if not strictly_in_window(pfd, desc.get("pfd")):
            continue
        # only multipliers that land in the VCO window
        lo, hi = desc["vco"]
        for M in ms:
            vco = clkin*M/N
            if vco < lo or vco > hi:
                continue
            if not strictly_in_window(vco, desc["vco"]):
                continue
            pairs += 1
            if pairs > max_pairs:
                return {"gave_up": True}
            D = []
            for i, (f, p, m) in enumerate(desc["outs"]):
                best = None
                for d in spec_near(vco/f, desc["d"][i]):
                    if d > 0 and strictly_within_margin(vco/d, f, m):
                        best = d
                        break
                if best is None:
                    break
                D.append(best)
            if len(D) == len(desc["outs"]):
                return {"N": N, "M": M, "D": D, "vco": vco, "pfd": pfd, "outs": [vco/d for d in D]}
    return None


# ------------------------------------------------------------------------------------------------
# ECP5
# ------------------------------------------------------------------------------------------------

def ecp5_freqs(desc, clki_div, clkfb_div, D, fb):
    pfd = desc["clkin"]/clki_div
    vco = pfd*clkfb_div*D[fb]
    return pfd, vco, [vco/d for d in D]


def ecp5_check(desc, clki_div, clkfb_div, D, fb, claimed_vco=None):
    """D: dividers of ALL enabled outputs (requested ones first, then a feedback-only one if any); fb: index of the feedback output."""
    pr = []
    if not in_spec(clki_div, desc["clki_div"]):
        pr.append(("input-divider-out-of-range", "CLKI_DIV %r not in declared range" % (clki_div,), {}))
    if not in_spec(clkfb_div, desc["clkfb_div"]):
        pr.append(("multiplier-out-of-range", "CLKFB_DIV %r not in declared range" % (clkfb_div,), {}))
    if fb is None or not (0 <= fb < len(D)):
        pr.append(("no-feedback-output", "feedback output %r is not an enabled output" % (fb,), {}))
        return pr
    bad = [(i, d) for i, d in enumerate(D) if not in_spec(d, desc["clko_div"])]
    if any(d <= 0 for _, d in bad):
        i, d = [x for x in bad if x[1] <= 0][0]
        pr.append(("output-divider-out-of-range", "divider %r of output %d (feedback output is %d) not in declared range" % (d, i, fb),
                   {"output": i, "d": d, "feedback": fb}))
        return pr
    pfd, vco, outs = ecp5_freqs(desc, clki_div, clkfb_div, D, fb)
    if claimed_vco is not None and abs(claimed_vco - vco) > 1e-6*vco:
        pr.append(("vco-inconsistent-with-feedback-divider", "configuration claims VCO %.9g Hz, CLKI_DIV/CLKFB_DIV/feedback output divider give %.9g Hz"
                   % (claimed_vco, vco), {"claimed": claimed_vco, "recomputed": vco, "feedback_divider": D[fb]}))
    if not in_window(pfd, desc.get("pfd")):
        pr.append(("pfd-out-of-range", "phase detector frequency %.6g Hz outside declared %r" % (pfd, desc.get("pfd")), {"pfd": pfd}))
    if not in_window(vco, desc["vco"]):
        pr.append(("vco-out-of-range", "VCO frequency %.6g Hz outside declared %r" % (vco, desc["vco"]), {"vco": vco}))
    for i, d in enumerate(D):
        if not in_spec(d, desc["clko_div"]):
            pr.append(("output-divider-out-of-range", "divider %r of output %d not in declared range" % (d, i), {"output": i, "d": d}))
    for i, (f, p, m) in enumerate(desc["outs"]):
        if not within_margin(outs[i], f, m):
            pr.append(("output-outside-margin", "output %d: requested %.9g Hz +-%g, configuration gives %.9g Hz (error %.3g)"
                       % (i, f, m, outs[i], abs(outs[i] - f)/f), {"output": i, "requested": f, "margin": m, "recomputed": outs[i]}))
    return pr


def ecp5_solve(desc):
    """Existence over the declared ranges: CLKI_DIV x (CLKFB_DIV * feedback divider) with the outputs solved directly.
    The feedback divider is either the divider of a requested output (any divider of it inside its margin)
    or, when an output is spare, a free divider."""
    clkin = desc["clkin"]
    divs = spec_values(desc["clko_div"])
    fbs = spec_values(desc["clkfb_div"])
    dmin, dmax = divs[0], divs[-1]
    spare = len(desc["outs"]) < desc["nclkouts_max"]
    lo, hi = desc["vco"]
    for clki_div in spec_values(desc["clki_div"]):
        pfd = clkin/clki_div
        if not strictly_in_window(pfd, desc.get("pfd")):
            continue
        pmin = max(1, math.ceil(lo/pfd))
        pmax = math.floor(hi/pfd)
        for P in range(pmin, pmax + 1):             # P = clkfb_div * feedback divider
            vco = pfd*P
            if not strictly_in_window(vco, desc["vco"]):
                continue
            # all dividers of every requested output that stay inside its margin
            cand = []
            for (f, p, m) in desc["outs"]:
                c0 = vco/f
                cs = [d for d in range(max(dmin, math.floor(c0*(1 - m)) - 1), min(dmax, math.ceil(c0*(1 + m)) + 1) + 1)
                      if strictly_within_margin(vco/d, f, m)]
                if not cs:
                    cand = None
                    break
                cand.append(cs)
            if cand is None:
                continue
            if spare:
                for dfb in divs:
                    if P % dfb == 0 and (P//dfb) in fbs:
                        return {"clki_div": clki_div, "clkfb_div": P//dfb, "D": [c[0] for c in cand] + [dfb], "fb": len(cand), "vco": vco}
            else:
                for i, cs in enumerate(cand):
                    if desc.get("dpa_blocked", [False]*len(cand))[i]:
                        continue
                    for dfb in cs:
                        if P % dfb == 0 and (P//dfb) in fbs:
                            D = [c[0] for c in cand]
                            D[i] = dfb
                            return {"clki_div": clki_div, "clkfb_div": P//dfb, "D": D, "fb": i, "vco": vco}
    return None
