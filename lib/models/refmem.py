"""Reference byte memory for histories whose reads and writes may overlap in time (independent AXI
read/write channels). A read of a byte must return the value of the latest write that certainly
completed before the read was issued, or the value of any write whose [issue, done] interval overlaps
the read's (their order is not determined by the protocol). Writes of one master are ordered by issue."""


class WindowRefMem:
    def __init__(self, init_bytes):
        self.init = dict(init_bytes)
        self.writes = {}          # byte addr -> list of (issue, done, value) in issue order
        self.checked = 0
        self.ambiguous = 0

    def write(self, issue, done, byte_vals, maybe=False):
        """maybe=True: the write was answered with an error; each of its bytes may or may not have been written"""
        for a, v in byte_vals.items():
            self.writes.setdefault(a, []).append((issue, done, v, maybe))

    def read_ok(self, issue, done, a, got):
        """returns (ok, allowed values)"""
        ws = self.writes.get(a, [])
        before = [w for w in ws if w[1] < issue]
        allowed = set()
        if a not in self.init:
            return True, None          # outside the known memory: not checked
        i = len(before) - 1
        while True:
            if i < 0:
                allowed.add(self.init[a])
                break
            allowed.add(before[i][2])
            if not before[i][3]:
                break
            i -= 1
        over = [w for w in ws if w[0] <= done and w[1] >= issue]
        for w in over:
            allowed.add(w[2])
        if over and all(w[3] for w in over) and not before:
            allowed.add(self.init[a])
        self.checked += 1
        if len(allowed) > 1:
            self.ambiguous += 1
        return got in allowed, allowed
