"""Reserved words of Verilog / SystemVerilog, written down independently of the tree under test.

Source: the keyword annexes of the standards, organised by the revision that introduced each word
(IEEE 1364-1995, 1364-2001, 1364-2005 Annex B; IEEE 1800-2005, 1800-2009, 1800-2012 Annex B;
IEEE 1800-2017 Table B.1 adds no word to 1800-2012 and is the union of everything below).
The grouping by revision (instead of one alphabetical table) is deliberate: it makes a copy of
somebody else's table, including its typos, impossible to go unnoticed, and the expected counts
per revision (102 / 123 / 124 / 221 / 244 / 248) are asserted at import time.

This list is part of the trusted base of check C02 (legality of emitted identifiers).
"""

V1995 = """
always and assign begin buf bufif0 bufif1 case casex casez cmos deassign default defparam disable
edge else end endcase endfunction endmodule endprimitive endspecify endtable endtask event for
force forever fork function highz0 highz1 if ifnone initial inout input integer join large
macromodule medium module nand negedge nmos nor not notif0 notif1 or output parameter pmos posedge
primitive pull0 pull1 pulldown pullup rcmos real realtime reg release repeat rnmos rpmos rtran
rtranif0 rtranif1 scalared small specify specparam strong0 strong1 supply0 supply1 table task time
tran tranif0 tranif1 tri tri0 tri1 triand trior trireg vectored wait wand weak0 weak1 while wire
wor xnor xor
""".split()

V2001 = """
automatic cell config design endconfig endgenerate generate genvar incdir include instance liblist
library localparam noshowcancelled pulsestyle_ondetect pulsestyle_onevent showcancelled signed
unsigned use
""".split()

V2005 = ["uwire"]

SV2005 = """
alias always_comb always_ff always_latch assert assume before bind bins binsof bit break byte
chandle class clocking const constraint context continue cover covergroup coverpoint cross dist do
endclass endclocking endgroup endinterface endpackage endprogram endproperty endsequence enum
expect export extends extern final first_match foreach forkjoin iff ignore_bins illegal_bins import
inside int interface intersect join_any join_none local logic longint matches modport new null
package packed priority program property protected pure rand randc randcase randsequence ref return
sequence shortint shortreal solve static string struct super tagged this throughout timeprecision
timeunit type typedef union unique var virtual void wait_order wildcard with within
""".split()

SV2009 = """
accept_on checker endchecker eventually global implies let nexttime reject_on restrict s_always
s_eventually s_nexttime s_until s_until_with strong sync_accept_on sync_reject_on unique0 until
until_with untyped weak
""".split()

SV2012 = ["implements", "interconnect", "nettype", "soft"]

IEEE_1364_2005 = frozenset(V1995 + V2001 + V2005)
IEEE_1800_2017 = frozenset(V1995 + V2001 + V2005 + SV2005 + SV2009 + SV2012)
KEYWORDS = IEEE_1364_2005 | IEEE_1800_2017
KEYWORD_LIST = sorted(KEYWORDS)

# self-check of the transcription: no duplicates between revisions, expected sizes
_all = V1995 + V2001 + V2005 + SV2005 + SV2009 + SV2012
assert len(_all) == len(set(_all)), sorted(w for w in set(_all) if _all.count(w) > 1)
assert len(V1995) == 102, len(V1995)
assert len(V1995 + V2001) == 123
assert len(IEEE_1364_2005) == 124
assert len(IEEE_1364_2005) + len(SV2005) == 221, len(SV2005)
assert len(IEEE_1364_2005) + len(SV2005) + len(SV2009) == 244, len(SV2009)
assert len(IEEE_1800_2017) == 248
import re

assert all(re.fullmatch(r"[a-z][a-z0-9_]*", w) for w in _all)

# simple (non-escaped) identifier of IEEE 1364-2005 3.7 / IEEE 1800-2017 5.6
IDENT_RE = re.compile(r"[A-Za-z_][A-Za-z0-9_$]*\Z")


def is_legal_identifier(name):
    return isinstance(name, str) and IDENT_RE.match(name) is not None and len(name) <= 1024


def is_reserved(name):
    return name in KEYWORDS
