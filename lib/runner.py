"""Shard runner: plans a tier, runs shards in fresh subprocesses (16 at once, each with a
wall-clock timeout that can only yield 'inconclusive'), aggregates monitor counters, classifies
violations against known_findings.json, writes evidence/<id>.json and replay files, sets the
exit code (0 held, 1 unlisted violation, 2 inconclusive)."""
import os
import sys
import json
import time
import shutil
import hashlib
import argparse
import importlib
import subprocess
import concurrent.futures

VERIF_ROOT = os.path.dirname(os.path.dirname(os.path.abspath(__file__)))
PY = "/venv/bin/python"


def jdump(obj, path):
    tmp = path + ".tmp"
    with open(tmp, "w") as f:
        json.dump(obj, f, indent=1, sort_keys=True, default=str)
        f.write("\n")
    os.replace(tmp, path)


def load_findings():
    path = os.path.join(VERIF_ROOT, "known_findings.json")
    if not os.path.exists(path):
        return []
    with open(path) as f:
        return json.load(f)["findings"]


def _child_env():
    env = dict(os.environ)
    env["PYTHONHASHSEED"] = "0"
    env["PYTHONDONTWRITEBYTECODE"] = "1"
    env["PYTHONPATH"] = VERIF_ROOT
    env.setdefault("LITEX_VERIF", "1")
    return env


def run_shard_subprocess(prop, shard, rundir, default_timeout):
    sid = shard["id"]
    spec = os.path.join(rundir, "shard_%s.json" % sid)
    out = os.path.join(rundir, "out_%s.json" % sid)
    with open(spec, "w") as f:
        json.dump(shard, f)
    timeout = shard.get("timeout", default_timeout)
    t0 = time.time()
    try:
        p = subprocess.run([PY, "-B", "-m", "lib.worker", prop, spec, out], cwd=VERIF_ROOT,
                           env=_child_env(), timeout=timeout, stdout=subprocess.PIPE,
                           stderr=subprocess.STDOUT, text=True, errors="replace")
        rc, log = p.returncode, p.stdout
    except subprocess.TimeoutExpired as e:
        rc, log = "timeout", (e.stdout or b"")
        if isinstance(log, bytes):
            log = log.decode(errors="replace")
    wall = time.time() - t0
    res = None
    if os.path.exists(out):
        try:
            with open(out) as f:
                res = json.load(f)
        except Exception:
            res = None
    if res is None:
        res = {"cases": 0, "violations": [], "events": {}, "hashes": [], "samples": [], "cover": {},
               "inconclusive": [{"case": sid, "reason": "worker rc=%s: %s" % (rc, log[-1500:])}]}
    elif rc != 0:
        res.setdefault("inconclusive", []).append(
            {"case": sid, "reason": "worker rc=%s after partial results: %s" % (rc, log[-800:])})
    res["wall"] = wall
    res["shard"] = sid
    return res


def merge_cover(dst, src):
    for k, v in src.items():
        if isinstance(v, (int, float)):
            dst[k] = dst.get(k, 0) + v
        elif isinstance(v, list):
            s = dst.setdefault(k, set())
            for x in v:
                s.add(json.dumps(x, sort_keys=True) if isinstance(x, (list, dict)) else x)
        elif isinstance(v, dict):
            d = dst.setdefault(k, {})
            merge_cover(d, v)


def finalize_cover(c, keep=40):
    out = {}
    for k, v in c.items():
        if isinstance(v, set):
            lst = sorted(v, key=str)
            out["n_" + k] = len(lst)
            if len(lst) <= keep:
                out[k] = lst
            else:
                out[k + "_first%d" % keep] = lst[:keep]
        elif isinstance(v, dict):
            out[k] = finalize_cover(v, keep)
        else:
            out[k] = v
    return out


def classify(prop, mod, viol, findings):
    """Return the open finding entry this violation belongs to, or None."""
    key = viol.get("key")
    for f in findings:
        if f.get("property") != prop or f.get("status") != "open":
            continue
        if f.get("key") == key or (f.get("key_prefix") and str(key).startswith(f["key_prefix"])):
            return f
    return None


def main(argv=None):
    ap = argparse.ArgumentParser()
    ap.add_argument("prop")
    ap.add_argument("--tier", default=os.environ.get("VERIF_TIER", "quick"))
    ap.add_argument("--seed", type=int, default=int(os.environ.get("VERIF_SEED", "0") or 0))
    ap.add_argument("--jobs", type=int, default=int(os.environ.get("VERIF_JOBS", "0") or 0))
    ap.add_argument("--replay", default=None)
    ap.add_argument("--only", default=None, help="run only shards whose id contains this text")
    ap.add_argument("--no-evidence", action="store_true")
    args = ap.parse_args(argv)
    prop = args.prop.upper()
    sys.path.insert(0, VERIF_ROOT)
    os.environ.setdefault("PYTHONHASHSEED", "0")
    from lib import env
    env.setup()
    mod = importlib.import_module("props." + prop.lower())

    if args.replay:
        with open(args.replay) as f:
            w = json.load(f)
        res = mod.run_shard({"id": "replay", "cls": w["cls"], "cases": [w["case"]], "replay": True})
        v = res.get("violations", [])
        print(json.dumps({"violations": v, "events": res.get("events")}, indent=1, default=str)[:6000])
        if v:
            print("VIOLATION property=%s replay=%s" % (prop, args.replay))
            return 1
        print("replay: no violation on the current tree")
        return 0

    t0 = time.time()
    jobs = args.jobs or min(16, os.cpu_count() or 4)
    shards = mod.plan(args.tier, args.seed)
    if args.only:
        shards = [s for s in shards if args.only in s["id"]]
    rundir = os.path.join(VERIF_ROOT, ".run", "%s_%d_%d" % (prop, os.getpid(), int(t0)))
    os.makedirs(rundir, exist_ok=True)
    default_timeout = getattr(mod, "SHARD_TIMEOUT", {}).get(args.tier, 900)
    results = []
    try:
        with concurrent.futures.ThreadPoolExecutor(max_workers=jobs) as ex:
            futs = [ex.submit(run_shard_subprocess, prop, s, rundir, default_timeout) for s in shards]
            for fu in concurrent.futures.as_completed(futs):
                results.append(fu.result())
    finally:
        shutil.rmtree(rundir, ignore_errors=True)
        try:
            os.rmdir(os.path.join(VERIF_ROOT, ".run"))
        except OSError:
            pass
    results.sort(key=lambda r: r["shard"])

    # ---- aggregate
    cases = 0
    events = {}
    hashes = set()
    cover = {}
    samples = []
    violations = []
    inconclusive = []
    for r in results:
        cases += r.get("cases", 0)
        for k, v in r.get("events", {}).items():
            events[k] = events.get(k, 0) + v
        hashes.update(r.get("hashes", []))
        merge_cover(cover, r.get("cover", {}))
        for s in r.get("samples", []):
            if len(samples) < getattr(mod, "N_SAMPLES", 5):
                samples.append(s)
        violations += r.get("violations", [])
        inconclusive += r.get("inconclusive", [])

    for k, v in cover.items():
        if isinstance(v, set):
            events["n_" + k] = len(v)
    floors = getattr(mod, "FLOORS", {}).get(args.tier, getattr(mod, "FLOORS", {}).get("quick", {}))
    if args.only:
        floors = {}
    for k, mn in floors.items():
        if events.get(k, 0) < mn:
            inconclusive.append({"case": "floor", "reason": "monitor counter %s=%d below floor %d"
                                 % (k, events.get(k, 0), mn)})

    findings = load_findings()
    known = {}
    unlisted = {}
    for v in violations:
        f = classify(prop, mod, v, findings)
        if f is not None:
            known.setdefault(f.get("key") or f.get("key_prefix"), []).append(v)
        else:
            unlisted.setdefault(v.get("key", "unclassified"), []).append(v)

    rc = 0
    repdir = os.path.join(VERIF_ROOT, "replays", prop)
    if not args.only and os.path.isdir(repdir):
        shutil.rmtree(repdir, ignore_errors=True)      # witnesses of earlier runs are stale
    for key, vs in sorted(known.items()):
        f = [x for x in findings if (x.get("key") or x.get("key_prefix")) == key and x["property"] == prop][0]
        print("KNOWN-FINDING: property=%s %s: %s (%d witnesses this run)" % (prop, key, f["what"], len(vs)))
    for key, vs in sorted(unlisted.items()):
        os.makedirs(repdir, exist_ok=True)
        v = vs[0]
        h = hashlib.sha1(json.dumps(v.get("case"), sort_keys=True, default=str).encode()).hexdigest()[:10]
        path = os.path.join(repdir, "%s_%s.json" % (key.replace("/", "_").replace(" ", "_")[:60], h))
        jdump(v, path)
        print("VIOLATION property=%s replay=%s" % (prop, path))
        print("  mechanism=%s witnesses=%d what=%s" % (key, len(vs), str(v.get("what"))[:600]))
        rc = 1
    if inconclusive and rc == 0:
        rc = 2
    for inc in inconclusive[:10]:
        print("INCONCLUSIVE property=%s reason=%s" % (prop, str(inc)[:1500]))

    wall = time.time() - t0
    level = getattr(mod, "LEVEL", "exploration")
    ev = {
        "property_id": prop, "tier": args.tier, "seed": args.seed, "level": level,
        "coverage": {
            "evaluations": cases,
            "distinct_nontrivial": len(hashes),
            "rule": getattr(mod, "RULE", ""),
            "samples": samples,
            "monitor_events": events,
            "observed": finalize_cover(cover),
            "shards": len(shards),
            "inconclusive": len(inconclusive),
            "known_findings_seen": {k: len(v) for k, v in known.items()},
            "unlisted_violation_keys": {k: len(v) for k, v in unlisted.items()},
            "verdict": {0: "held on what was observed", 1: "violated", 2: "inconclusive"}[rc],
            "floors": floors,
        },
        "assumptions": getattr(mod, "ASSUMPTIONS", []),
        "wall_s": round(wall, 2),
        "violations": sum(len(v) for v in unlisted.values()),
    }
    if level == "translation_validation":
        # programs translated and executed on both sides; disagreements found between the two executions, each one examined
        # (classified against known_findings.json or reported)
        ev["coverage"]["programs"] = events.get("programs", 0)
        ev["coverage"]["disagreements_checked"] = sum(len(v) for v in known.values()) + sum(len(v) for v in unlisted.values())
    if getattr(mod, "EXHAUSTIVE", {}).get(args.tier):
        ev["coverage"]["exhaustive_part"] = mod.EXHAUSTIVE[args.tier]
    if not args.no_evidence and not args.only:
        os.makedirs(os.path.join(VERIF_ROOT, "evidence"), exist_ok=True)
        jdump(ev, os.path.join(VERIF_ROOT, "evidence", prop + ".json"))
    print("%s tier=%s seed=%d: cases=%d distinct=%d violations(unlisted)=%d known=%d inconclusive=%d wall=%.1fs"
          % (prop, args.tier, args.seed, cases, len(hashes), ev["violations"],
             sum(len(v) for v in known.values()), len(inconclusive), wall))
    ekeys = sorted(events)
    print("  events: " + ", ".join("%s=%d" % (k, events[k]) for k in ekeys[:30]))
    return rc


if __name__ == "__main__":
    sys.exit(main())
