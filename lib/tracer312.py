"""Name-recovery shim for migen 0.9.2 on CPython >= 3.11.

migen.fhdl.tracer.get_var_name decodes pre-3.11 call opcodes (CALL_FUNCTION...) and
returns None for every frame on 3.12, so CSR()/EventSource*() without name= raise
"Cannot extract CSR name from code" and signals only get class-name back-traces.
This replacement walks dis.get_instructions from frame.f_lasti over CALL* to the next
STORE_*, i.e. the same rule as the original for the new bytecode. It restores *names* only.
"""
import dis

_SKIP = {"LOAD_GLOBAL", "LOAD_ATTR", "LOAD_FAST", "LOAD_FAST_CHECK", "LOAD_DEREF",
         "COPY", "BUILD_LIST", "CACHE", "PRECALL", "LOAD_FAST_AND_CLEAR"}
_cache = {}
_code_cache = {}


def _instrs(code):
    r = _code_cache.get(code)
    if r is None:
        lst = [i for i in dis.get_instructions(code) if i.opname != "CACHE"]
        r = ({i.offset: n for n, i in enumerate(lst)}, lst)
        _code_cache[code] = r
    return r


def get_var_name(frame):
    code = frame.f_code
    key = (code, frame.f_lasti)
    try:
        return _cache[key]
    except KeyError:
        pass
    name = None
    idx, lst = _instrs(code)
    n = idx.get(frame.f_lasti)
    if n is not None and lst[n].opname.startswith("CALL"):
        n += 1
        while n < len(lst):
            op = lst[n].opname
            if op in ("STORE_NAME", "STORE_ATTR", "STORE_FAST", "STORE_DEREF", "STORE_GLOBAL"):
                name = lst[n].argval
                break
            elif op in _SKIP:
                n += 1
            else:
                break
    _cache[key] = name
    return name


_orig = None


def install():
    global _orig
    import migen.fhdl.tracer as t
    if _orig is None:
        _orig = t.get_var_name
    t.get_var_name = get_var_name


def uninstall():
    import migen.fhdl.tracer as t
    if _orig is not None:
        t.get_var_name = _orig
