"""Structural classifiers over the parsed Verilog (used only to NAME a disagreement, never to decide one):
 * width_sensitive_arith(sim, names): some driver (right-hand side, guarding condition, index) of one of the named signals
   contains an arithmetic operator (+ - * unary- << <<<) in a position where IEEE 1364 evaluates it at its self-determined
   or comparison width - operand of a concatenation / replication / $signed (LiteX's own $signed({1'd0, x}) wrapper included),
   of a comparison, of a right shift, a condition, a case expression, an index or a shift amount. There Migen's natural
   (unbounded) width and Verilog's fixed width can differ: the 'intermediate overflow' class named by the property.
 * multi_clock_memory(sim): a memory has ports clocked by different clocks (LiteX then forces read-first ports)."""

ARITH = {"+", "-", "*", "<<", "<<<"}


def has_arith(e):
    k = e[0]
    if k == "bin":
        return e[1] in ARITH or has_arith(e[2]) or has_arith(e[3])
    if k == "un":
        return e[1] == "-" or has_arith(e[2])
    if k == "tern":
        return has_arith(e[1]) or has_arith(e[2]) or has_arith(e[3])
    if k in ("cat",):
        return any(has_arith(x) for x in e[1])
    if k in ("rep", "sys"):
        return has_arith(e[2])
    if k in ("index", "mempart"):
        return has_arith(e[2])
    return False


def sensitive(e):
    """True if e contains arithmetic in a width-sensitive position"""
    k = e[0]
    if k == "bin":
        op = e[1]
        if op in ("<", "<=", ">", ">=", "==", "!=", "&&", "||"):
            return has_arith(e[2]) or has_arith(e[3])
        if op in (">>", ">>>"):
            return has_arith(e[2]) or has_arith(e[3])
        if op in ("<<", "<<<"):
            return has_arith(e[3]) or sensitive(e[2])
        return sensitive(e[2]) or sensitive(e[3])
    if k == "un":
        if e[1] in ("!", "&", "|", "^"):
            return has_arith(e[2])
        return sensitive(e[2])
    if k == "tern":
        return has_arith(e[1]) or sensitive(e[2]) or sensitive(e[3])
    if k == "cat":
        return any(has_arith(x) for x in e[1])
    if k in ("rep", "sys"):
        return has_arith(e[2])
    if k in ("index", "mempart"):
        return has_arith(e[2])
    return False


def lhs_names(l):
    if l[0] == "cat":
        r = set()
        for x in l[1]:
            r |= lhs_names(x)
        return r
    return {l[1]}


def _walk(stmts, guards, out):
    for st in stmts:
        k = st[0]
        if k in ("nba", "ba"):
            for n in lhs_names(st[1]):
                out.setdefault(n, []).append((st[2], list(guards), st[1]))
        elif k == "if":
            _walk(st[2], guards + [st[1]], out)
            _walk(st[3], guards + [st[1]], out)
        elif k == "case":
            for item, body in st[2]:
                _walk(body, guards + [st[1]], out)


def drivers(sim):
    out = {}
    for lhs, rhs in sim.m["assigns"]:
        for n in lhs_names(lhs):
            out.setdefault(n, []).append((rhs, [], lhs))
    for block in sim.m["combs"]:
        _walk(block, [], out)
    for clk, block in sim.m["syncs"]:
        _walk(block, [], out)
    return out


def width_sensitive_arith(sim, names):
    d = drivers(sim)
    for n in names:
        for rhs, guards, lhs in d.get(n, []):
            if sensitive(rhs) or any(has_arith(g) for g in guards):
                return True
            if lhs[0] in ("index", "mempart") and has_arith(lhs[2]):
                return True
    return False


def multi_clock_memory(sim):
    """memory name -> set of clocks of the posedge blocks that touch it"""
    clocks = {}

    def touch(stmts, clk):
        for st in stmts:
            if st[0] in ("nba", "ba"):
                for e in (st[1], st[2]):
                    _mem_refs(e, clk)
            elif st[0] == "if":
                touch(st[2], clk)
                touch(st[3], clk)
            elif st[0] == "case":
                for _, b in st[2]:
                    touch(b, clk)

    def _mem_refs(e, clk):
        if isinstance(e, tuple):
            if e[0] in ("index", "mempart") and e[1] in sim.mems:
                clocks.setdefault(e[1], set()).add(clk)
            for x in e[1:]:
                if isinstance(x, tuple):
                    _mem_refs(x, clk)
                elif isinstance(x, list):
                    for y in x:
                        _mem_refs(y, clk)
    for clk, block in sim.m["syncs"]:
        touch(block, clk)
    return any(len(c) > 1 for c in clocks.values())
