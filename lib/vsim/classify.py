"""Structural classifiers over the parsed Verilog (used only to NAME a disagreement, never to decide one):
 * width_sensitive_arith(sim, names): some driver (right-hand side, guarding condition, index) of one of the named signals
   contains an arithmetic operator (+ - * unary- << <<<) in a position where IEEE 1364 evaluates it at its self-determined
   or comparison width - operand of a concatenation / replication / $signed (LiteX's own $signed({1'd0, x}) wrapper included),
   of a comparison, of a right shift, a condition, a case expression, an index or a shift amount. There Migen's natural
   (unbounded) width and Verilog's fixed width can differ: the 'intermediate overflow' class named by the property.
 * multi_clock_memory(sim): a memory has ports clocked by different clocks (LiteX then forces read-first ports)."""

ARITH = {"+", "-", "*", "<<", "<<<"}


def has_arith(e):
    k = e[0]
    if k == "bin":
        return e[1] in ARITH or has_arith(e[2]) or has_arith(e[3])
    if k == "un":
        # ~ is width-dependent as well: Verilog extends the operand to the context before inverting
        return e[1] in ("-", "~") or has_arith(e[2])
    if k == "tern":
        return has_arith(e[1]) or has_arith(e[2]) or has_arith(e[3])
    if k in ("cat",):
        return any(has_arith(x) for x in e[1])
    if k in ("rep", "sys"):
        return has_arith(e[2])
    if k in ("index", "mempart"):
        return has_arith(e[2])
    return False


def sensitive(e):
    """True if e contains arithmetic in a width-sensitive position"""
    k = e[0]
    if k == "bin":
        op = e[1]
        if op in ("<", "<=", ">", ">=", "==", "!=", "&&", "||"):
            return has_arith(e[2]) or has_arith(e[3])
        if op in (">>", ">>>"):
            return has_arith(e[2]) or has_arith(e[3])
        if op in ("<<", "<<<"):
            return has_arith(e[3]) or sensitive(e[2])
        return sensitive(e[2]) or sensitive(e[3])
    if k == "un":
        if e[1] in ("!", "&", "|", "^"):
            return has_arith(e[2])
        return sensitive(e[2])
    if k == "tern":
        return has_arith(e[1]) or sensitive(e[2]) or sensitive(e[3])
    if k == "cat":
        return any(has_arith(x) for x in e[1])
    if k in ("rep", "sys"):
        return has_arith(e[2])
    if k in ("index", "mempart"):
        return has_arith(e[2])
    return False


def lhs_names(l):
    if l[0] == "cat":
        r = set()
        for x in l[1]:
            r |= lhs_names(x)
        return r
    return {l[1]}


def _walk(stmts, guards, out):
    for st in stmts:
        k = st[0]
        if k in ("nba", "ba"):
            for n in lhs_names(st[1]):
                out.setdefault(n, []).append((st[2], list(guards), st[1]))
        elif k == "if":
            _walk(st[2], guards + [st[1]], out)
            _walk(st[3], guards + [st[1]], out)
        elif k == "case":
            for item, body in st[2]:
                _walk(body, guards + [st[1]], out)


def drivers(sim):
    out = {}
    for lhs, rhs in sim.m["assigns"]:
        for n in lhs_names(lhs):
            out.setdefault(n, []).append((rhs, [], lhs))
    for block in sim.m["combs"]:
        _walk(block, [], out)
    for clk, block in sim.m["syncs"]:
        _walk(block, [], out)
    # an executed instance drives its output connections from all of its input connections
    for inst in sim.m.get("instances", []):
        cell = getattr(sim, "cells", {}).get(inst.get("cell")) if inst.get("structured") else None
        if cell is None:
            continue
        conn = dict(inst["ports"])
        ins = [conn[p] for p in cell[0] if conn.get(p) is not None]
        for p in cell[1]:
            if conn.get(p) is not None:
                for n in lhs_names(conn[p]):
                    for e in ins:
                        out.setdefault(n, []).append((e, [], conn[p]))
    return out


def ids_in(e, out):
    if isinstance(e, tuple):
        if e[0] == "id":
            out.add(e[1])
            return
        if e[0] in ("index", "part", "mempart"):
            out.add(e[1])
        for x in e[1:]:
            if isinstance(x, (tuple, list)):
                ids_in(x, out)
    elif isinstance(e, list):
        for x in e:
            ids_in(x, out)


def cone(sim, names, compared):
    """The driver statements that can have produced a FIRST disagreement on `names`: their own drivers, and transitively the
    drivers of every identifier those read that the comparison does not observe (lowering-made signals: array_muxed,
    slice_proxy, memory address / data registers) or that disagrees in the same tick. Identifiers that are compared and agree
    are not followed: their value was checked.  -> (list of (rhs, guards, lhs), set of memories read or written)"""
    d = drivers(sim)
    names = set(names)
    seen, todo, out, mems = set(), list(names), [], set()
    while todo:
        n = todo.pop()
        if n in seen:
            continue
        seen.add(n)
        if n in sim.mems:
            mems.add(n)
        for drv in d.get(n, []):
            out.append(drv)
            ids = set()
            ids_in(drv[0], ids)
            ids_in(drv[1], ids)
            if drv[2][0] in ("index", "mempart"):
                ids_in(drv[2][2], ids)
            for i in ids:
                if i in sim.mems:
                    mems.add(i)
                if i not in seen and (i not in compared or i in names):
                    todo.append(i)
    return out, mems


def width_sensitive_arith(cone_drivers):
    for rhs, guards, lhs in cone_drivers:
        if sensitive(rhs) or any(has_arith(g) for g in guards):
            return True
        if lhs[0] in ("index", "mempart") and has_arith(lhs[2]):
            return True
    return False


def lossy_array_proxy(sim, cone_drivers):
    """Migen gives an Array selection (max of the element widths, signed if any element is): an unsigned element as wide as that
    does not fit the signed proxy the lowering creates (the FHDL simulator returns the element itself, unwrapped)."""
    for rhs, guards, lhs in cone_drivers:
        if lhs[0] != "id" or not lhs[1].startswith(("array_muxed", "basiclowerer_array_muxed", "t_array_muxed")):
            continue
        d = sim.decl.get(lhs[1])
        if not d or not d["signed"]:
            continue
        w, s = sim.size_sign(rhs)
        if not s and w >= d["width"]:
            return True
    return False


def no_change_partial_we(sim, cone_drivers):
    """NO_CHANGE memory port with write-enable granularity: LiteX emits `if (!we)` (no read when ANY lane is written), Migen's
    MemoryToArray - what the FHDL simulator executes - reads unless ALL lanes are written (`~we` as a condition)."""
    for rhs, guards, lhs in cone_drivers:
        if rhs[0] == "index" and rhs[1] in sim.mems:
            for g in guards:
                if g[0] == "un" and g[1] == "!" and sim.size_sign(g[2])[0] > 1:
                    return True
    return False


def multi_clock_memory(sim, mems=None):
    """True if one of `mems` (default: any memory) is touched by posedge blocks of different clocks"""
    clocks = {}

    def touch(stmts, clk):
        for st in stmts:
            if st[0] in ("nba", "ba"):
                for e in (st[1], st[2]):
                    _mem_refs(e, clk)
            elif st[0] == "if":
                touch(st[2], clk)
                touch(st[3], clk)
            elif st[0] == "case":
                for _, b in st[2]:
                    touch(b, clk)

    def _mem_refs(e, clk):
        if isinstance(e, tuple):
            if e[0] in ("index", "mempart") and e[1] in sim.mems:
                clocks.setdefault(e[1], set()).add(clk)
            for x in e[1:]:
                if isinstance(x, tuple):
                    _mem_refs(x, clk)
                elif isinstance(x, list):
                    for y in x:
                        _mem_refs(y, clk)
    for clk, block in sim.m["syncs"]:
        touch(block, clk)
    return any(len(c) > 1 for m_, c in clocks.items() if mems is None or m_ in mems)
