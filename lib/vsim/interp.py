"""Two-state, cycle-based interpreter of the parsed Verilog subset with IEEE 1364-2005 expression sizing and
sign rules (clauses 5.4 'Expression bit lengths' and 5.5 'Signed expressions'):

 * self-determined size and type bottom-up; a context-determined operand is extended to the size of the
   expression it belongs to, sign-extended only if that expression's type is signed (5.5.2);
 * the type of an expression depends only on its operands: unsigned as soon as one (non self-determined)
   operand is unsigned; bit/part-selects, concatenations, replications and comparison results are unsigned;
 * an assignment evaluates its right-hand side at max(L(lhs), L(rhs));
 * comparison operands are sized to the larger of the two, signed only if both are signed;
 * the shift amount is self-determined; >>> is arithmetic only when the result type is signed;
 * case: the case expression and all items are sized to the largest, signed only if all are signed.

Deliberate deviations (assumptions of C01): combinational blocks are evaluated at time 0 (synthesis / always_comb
behaviour); uninitialised memory words read as 0; out-of-range memory reads return 0 and writes are ignored."""
from lib.vsim.parser import parse


def mask(w):
    return (1 << w) - 1


class VerilogSim:
    def __init__(self, text, data_files=None, cells=None):
        # cells: {cell name: (input port widths {name: (width, signed)}, output port widths {name: width},
        #                     fn(params {name: (text, kind, ast)}, inputs {name: int}) -> {output name: int})}
        # An instance of a registered cell is executed as combinational logic; its input connections are evaluated as continuous
        # assignments to the declared port (IEEE 1364 12.3.9: context = max(port, expression), truncated to the port).
        self.cells = cells or {}
        self.instances_executed = 0
        self.m = parse(text)
        self.decl = self.m["decls"]
        self.mems = {}
        self.val = {}
        for name, d in self.decl.items():
            self.val[name] = 0
        for name, d in self.decl.items():
            if d["init"] is not None:
                self.val[name] = self.eval_to(d["init"], d["width"]) & mask(d["width"])
        for name, md in self.m["mems"].items():
            self.mems[name] = [0] * md["depth"]
        for st in self.m["initials"]:
            if st[0] == "sys" and st[1] == "$readmemh":
                fname = st[2][0].strip('"')
                mem = st[2][1]
                content = (data_files or {}).get(fname)
                if content is None:
                    raise ValueError("vsim: data file %s not provided" % fname)
                words = [int(x, 16) for x in content.split()]
                for i, w in enumerate(words[:len(self.mems[mem])]):
                    self.mems[mem][i] = w & mask(self.m["mems"][mem]["width"])
        self.settle()

    # ------------------------------------------------------------------ sizes and types
    def size_sign(self, e):
        k = e[0]
        if k == "const":
            return e[1], e[3]
        if k == "id":
            d = self.decl[e[1]]
            return d["width"], d["signed"]
        if k == "index":
            if e[1] in self.mems:
                return self.m["mems"][e[1]]["width"], False
            return 1, False
        if k == "part":
            return e[2] - e[3] + 1, False
        if k == "mempart":
            return e[3] - e[4] + 1, False
        if k == "cat":
            return sum(self.size_sign(x)[0] for x in e[1]), False
        if k == "rep":
            return e[1] * self.size_sign(e[2])[0], False
        if k == "sys":
            return self.size_sign(e[2])[0], e[1] == "$signed"
        if k == "un":
            if e[1] in ("!", "&", "|", "^"):
                return 1, False
            return self.size_sign(e[2])
        if k == "bin":
            op = e[1]
            if op in ("<", "<=", ">", ">=", "==", "!=", "&&", "||"):
                return 1, False
            wa, sa = self.size_sign(e[2])
            if op in ("<<", ">>", "<<<", ">>>"):
                return wa, sa
            wb, sb = self.size_sign(e[3])
            return max(wa, wb), sa and sb
        if k == "tern":
            wa, sa = self.size_sign(e[2])
            wb, sb = self.size_sign(e[3])
            return max(wa, wb), sa and sb
        raise NotImplementedError(e)

    # ------------------------------------------------------------------ evaluation
    def eval_to(self, e, lhs_width):
        """value of a right-hand side assigned to a target of lhs_width bits (bit pattern)"""
        w, s = self.size_sign(e)
        W = max(w, lhs_width)
        return self.ev(e, W, s) & mask(lhs_width)

    def self_det(self, e):
        w, s = self.size_sign(e)
        return self.ev(e, w, s) & mask(w), w, s

    def ev(self, e, W, S):
        """evaluate e in a context of W bits and type S (True = signed); returns a W-bit pattern"""
        k = e[0]
        if k in ("const", "id", "index", "part", "mempart", "cat", "rep", "sys"):
            # simple / self-determined operands: evaluate at own size, then extend to the context
            v, w, s = self.operand(e)
            return self.extend(v, w, W, S and s if k in ("const", "id", "sys") else False, S, k, s)
        if k == "un":
            op = e[1]
            if op == "!":
                v, w, s = self.self_det(e[2])
                return int(v == 0)
            if op in ("&", "|", "^"):
                v, w, s = self.self_det(e[2])
                if op == "&":
                    return int(v == mask(w))
                if op == "|":
                    return int(v != 0)
                return bin(v).count("1") & 1
            a = self.ev(e[2], W, S)
            if op == "~":
                return ~a & mask(W)
            if op == "-":
                return -a & mask(W)
            return a
        if k == "bin":
            op = e[1]
            if op in ("<", "<=", ">", ">=", "==", "!="):
                wa, sa = self.size_sign(e[2])
                wb, sb = self.size_sign(e[3])
                w = max(wa, wb)
                s = sa and sb
                a = self.ev(e[2], w, s)
                b = self.ev(e[3], w, s)
                if s:
                    a, b = self.to_signed(a, w), self.to_signed(b, w)
                return int({"<": a < b, "<=": a <= b, ">": a > b, ">=": a >= b, "==": a == b, "!=": a != b}[op])
            if op in ("&&", "||"):
                a = self.self_det(e[2])[0] != 0
                b = self.self_det(e[3])[0] != 0
                return int((a and b) if op == "&&" else (a or b))
            if op in ("<<", ">>", "<<<", ">>>"):
                a = self.ev(e[2], W, S)
                n = self.self_det(e[3])[0]
                if op in ("<<", "<<<"):
                    return (a << n) & mask(W) if n < 4096 else 0
                if op == ">>" or not S:
                    return a >> n
                return (self.to_signed(a, W) >> n) & mask(W)
            a = self.ev(e[2], W, S)
            b = self.ev(e[3], W, S)
            if op == "+":
                return (a + b) & mask(W)
            if op == "-":
                return (a - b) & mask(W)
            if op == "*":
                if S:
                    return (self.to_signed(a, W) * self.to_signed(b, W)) & mask(W)
                return (a * b) & mask(W)
            if op == "&":
                return a & b
            if op == "|":
                return a | b
            if op == "^":
                return a ^ b
            raise NotImplementedError(op)
        if k == "tern":
            c = self.self_det(e[1])[0] != 0
            return self.ev(e[2] if c else e[3], W, S)
        raise NotImplementedError(e)

    def extend(self, v, w, W, _unused, S, kind, s):
        """convert a simple operand of w bits and own type s to the propagated size W and type S (5.5.2)"""
        if W <= w:
            return v & mask(W)
        if S and s and (v >> (w - 1)) & 1:
            return (v | (mask(W) & ~mask(w))) & mask(W)
        return v

    @staticmethod
    def to_signed(v, w):
        return v - (1 << w) if (v >> (w - 1)) & 1 else v

    def operand(self, e):
        """(value, width, signed) of a simple or self-determined operand"""
        k = e[0]
        if k == "const":
            return e[2], e[1], e[3]
        if k == "id":
            d = self.decl[e[1]]
            return self.val[e[1]], d["width"], d["signed"]
        if k == "index":
            idx = self.self_det(e[2])[0]
            if e[1] in self.mems:
                mem = self.mems[e[1]]
                return (mem[idx] if idx < len(mem) else 0), self.m["mems"][e[1]]["width"], False
            return (self.val[e[1]] >> idx) & 1, 1, False
        if k == "part":
            return (self.val[e[1]] >> e[3]) & mask(e[2] - e[3] + 1), e[2] - e[3] + 1, False
        if k == "mempart":
            idx = self.self_det(e[2])[0]
            mem = self.mems[e[1]]
            word = mem[idx] if idx < len(mem) else 0
            return (word >> e[4]) & mask(e[3] - e[4] + 1), e[3] - e[4] + 1, False
        if k == "cat":
            v, tot = 0, 0
            for x in reversed(e[1]):               # last element is least significant
                xv, xw, _ = self.self_det(x)
                v |= xv << tot
                tot += xw
            return v, tot, False
        if k == "rep":
            xv, xw, _ = self.self_det(e[2])
            v = 0
            for i in range(e[1]):
                v |= xv << (i * xw)
            return v, xw * e[1], False
        if k == "sys":
            xv, xw, _ = self.self_det(e[2])
            return xv, xw, e[1] == "$signed"
        raise NotImplementedError(e)

    # ------------------------------------------------------------------ statements
    def lhs_width(self, l):
        if l[0] == "cat":
            return sum(self.lhs_width(x) for x in l[1])
        return self.size_sign(l)[0]

    def exec_block(self, stmts, nbas, blocking_to=None):
        for st in stmts:
            k = st[0]
            if k in ("nba", "ba"):
                w = self.lhs_width(st[1])
                v = self.eval_to(st[2], w)
                if k == "ba":
                    self.store(st[1], v)
                else:
                    nbas.append((self.resolve_lhs(st[1]), v))
            elif k == "if":
                c = self.self_det(st[1])[0] != 0
                self.exec_block(st[2] if c else st[3], nbas)
            elif k == "case":
                sizes = [self.size_sign(st[1])] + [self.size_sign(i) for i, _ in st[2] if i is not None]
                W = max(s[0] for s in sizes)
                S = all(s[1] for s in sizes)
                sel = self.ev(st[1], W, S)
                done = False
                for item, body in st[2]:
                    if item is not None and self.ev(item, W, S) == sel:
                        self.exec_block(body, nbas)
                        done = True
                        break
                if not done:
                    for item, body in st[2]:
                        if item is None:
                            self.exec_block(body, nbas)
            elif k == "sys":
                pass
            else:
                raise NotImplementedError(st)

    def resolve_lhs(self, l):
        """evaluate index expressions of an lvalue now (as Verilog does for non-blocking assignments)"""
        k = l[0]
        if k == "id":
            return ("id", l[1])
        if k == "index":
            return ("index", l[1], self.self_det(l[2])[0])
        if k == "part":
            return l
        if k == "mempart":
            return ("mempart", l[1], self.self_det(l[2])[0], l[3], l[4])
        if k == "cat":
            return ("cat", [self.resolve_lhs(x) for x in l[1]])
        raise NotImplementedError(l)

    def store(self, l, v):
        l = self.resolve_lhs(l) if l[0] in ("index", "mempart") and not isinstance(l[2], int) else l
        k = l[0]
        if k == "id":
            self.val[l[1]] = v & mask(self.decl[l[1]]["width"])
        elif k == "index":
            if l[1] in self.mems:
                if l[2] < len(self.mems[l[1]]):
                    self.mems[l[1]][l[2]] = v & mask(self.m["mems"][l[1]]["width"])
            elif l[2] < self.decl[l[1]]["width"]:
                self.val[l[1]] = (self.val[l[1]] & ~(1 << l[2])) | ((v & 1) << l[2])
        elif k == "part":
            w = l[2] - l[3] + 1
            self.val[l[1]] = (self.val[l[1]] & ~(mask(w) << l[3])) | ((v & mask(w)) << l[3])
        elif k == "mempart":
            w = l[3] - l[4] + 1
            if l[2] < len(self.mems[l[1]]):
                self.mems[l[1]][l[2]] = (self.mems[l[1]][l[2]] & ~(mask(w) << l[4])) | ((v & mask(w)) << l[4])
        elif k == "cat":
            tot = 0
            for x in reversed(l[1]):
                w = self.lhs_width_resolved(x)
                self.store(x, (v >> tot) & mask(w))
                tot += w
        else:
            raise NotImplementedError(l)

    def lhs_width_resolved(self, l):
        k = l[0]
        if k == "id":
            return self.decl[l[1]]["width"]
        if k == "index":
            return self.m["mems"][l[1]]["width"] if l[1] in self.mems else 1
        if k == "part":
            return l[2] - l[3] + 1
        if k == "mempart":
            return l[3] - l[4] + 1
        if k == "cat":
            return sum(self.lhs_width_resolved(x) for x in l[1])
        raise NotImplementedError(l)

    # ------------------------------------------------------------------ scheduling
    def settle(self, limit=200):
        for _ in range(limit):
            before = (dict(self.val), {k: list(v) for k, v in self.mems.items()}) if False else None
            changed = False
            for lhs, rhs in self.m["assigns"]:
                w = self.lhs_width(lhs)
                v = self.eval_to(rhs, w)
                old = self.read_lhs(lhs)
                if old != v:
                    self.store(lhs, v)
                    changed = True
            for inst in self.m["instances"]:
                cell = self.cells.get(inst["cell"]) if inst.get("structured") else None
                if cell is None:
                    continue
                in_w, out_w, fn = cell
                conn = dict(inst["ports"])
                ins = {}
                for pn, (w, sg) in in_w.items():
                    if pn not in conn or conn[pn] is None:
                        raise RuntimeError("vsim: instance %s: input port %s is not connected" % (inst["name"], pn))
                    v = self.eval_to(conn[pn], w) & mask(w)
                    ins[pn] = v - (1 << w) if sg and v >> (w - 1) else v
                outs = fn({n: (txt, kind, ast) for n, txt, kind, ast in inst["params"]}, ins)
                for pn, w in out_w.items():
                    if pn not in conn or conn[pn] is None:
                        raise RuntimeError("vsim: instance %s: output port %s is not connected" % (inst["name"], pn))
                    lhs = conn[pn]
                    v = outs[pn] & mask(w) & mask(self.lhs_width(lhs))
                    if self.read_lhs(lhs) != v:
                        self.store(lhs, v)
                        changed = True
                self.instances_executed += 1
            for block in self.m["combs"]:
                nbas = []
                self.exec_block(block, nbas)
                # all non-blocking updates of this activation are applied together, in order
                snapshot = dict(self.val)
                for l, v in nbas:
                    self.store(l, v)
                if snapshot != self.val:
                    changed = True
            if not changed:
                return
        raise RuntimeError("vsim: combinational logic did not settle (loop?)")

    def read_lhs(self, l):
        return self.self_det(l)[0] if l[0] != "cat" else self.operand(("cat", l[1]))[0]

    def tick(self, rising, inputs=None):
        """one simulator tick: posedge blocks of the rising clocks run on the current values, testbench inputs are
        applied together with the non-blocking updates (testbench registers), then combinational logic settles"""
        nbas = []
        for clk, block in self.m["syncs"]:
            if clk in rising:
                self.exec_block(block, nbas)
        for l, v in nbas:
            self.store(l, v)
        for name, v in (inputs or {}).items():
            self.val[name] = v & mask(self.decl[name]["width"])
        self.settle()
