"""Parser for the Verilog-2005 subset that LiteX's backend emits (litex/gen/fhdl/verilog.py, memory.py).

AST (tuples):
 expressions: ("const", width, value, signed) ("id", name) ("index", name, expr)  [bit select or memory word]
              ("part", name, msb, lsb) ("mempart", name, index_expr, msb, lsb) ("cat", [e...]) ("rep", n, e)
              ("sys", "$signed"|"$unsigned", e) ("un", op, e) ("bin", op, a, b) ("tern", c, a, b)
 statements : ("nba"|"ba", lhs, rhs) ("if", cond, then_list, else_list) ("case", expr, [(item_expr|None, stmts)])
              ("sys", name, args)
 module     : dict(name, ports, decls, mems, assigns, combs, syncs, initials, instances)
"""
import re

TOKEN_RE = re.compile(r"""
    (?P<ws>\s+|//[^\n]*|\(\*(?!\)).*?\*\))
  | (?P<num>\d+'[sS]?[dDhHbB][0-9a-fA-F_xXzZ]+)
  | (?P<int>\d+)
  | (?P<str>"[^"]*")
  | (?P<id>[A-Za-z_$][A-Za-z0-9_$]*)
  | (?P<op><<<|>>>|<=|>=|==|!=|<<|>>|&&|\|\||[-+*/%&|^~!<>?:=(){}\[\],;@.\#`])
""", re.X | re.S)


def tokenize(text):
    toks = []
    pos = 0
    n = len(text)
    while pos < n:
        m = TOKEN_RE.match(text, pos)
        if not m:
            raise SyntaxError("vsim: cannot tokenize at %r" % text[pos:pos + 40])
        pos = m.end()
        k = m.lastgroup
        if k == "ws":
            continue
        toks.append((k, m.group(k)))
    toks.append(("eof", ""))
    return toks


class Parser:
    def __init__(self, text):
        self.toks = tokenize(text)
        self.i = 0

    # -- helpers
    def peek(self, k=0):
        return self.toks[self.i + k]

    def next(self):
        t = self.toks[self.i]
        self.i += 1
        return t

    def accept(self, val):
        if self.toks[self.i][1] == val and self.toks[self.i][0] != "str":
            self.i += 1
            return True
        return False

    def expect(self, val):
        t = self.next()
        if t[1] != val:
            raise SyntaxError("vsim: expected %r, got %r (token %d, context %r)" % (
                val, t[1], self.i, " ".join(x[1] for x in self.toks[max(0, self.i - 8):self.i + 4])))
        return t

    def ident(self):
        t = self.next()
        if t[0] != "id":
            raise SyntaxError("vsim: identifier expected, got %r" % (t,))
        return t[1]

    def const_int(self):
        """constant integer expression used in ranges"""
        neg = self.accept("-")
        t = self.next()
        if t[0] != "int":
            raise SyntaxError("vsim: integer expected, got %r" % (t,))
        return -int(t[1]) if neg else int(t[1])

    # -- module
    def parse_module(self):
        m = {"ports": [], "decls": {}, "mems": {}, "assigns": [], "combs": [], "syncs": [], "initials": [], "instances": [],
             "order": []}
        while self.peek()[1] in ("`",):            # `timescale 1ns / 1ps
            self.next()
            self.ident()
            # consume until next line-ish token: timescale args are int id / int id
            for _ in range(5):
                self.next()
        self.expect("module")
        m["name"] = self.ident()
        self.expect("(")
        while not self.accept(")"):
            d = self.next()[1]
            assert d in ("input", "output", "inout"), d
            kind = self.next()[1]
            assert kind in ("wire", "reg"), kind
            signed, width = self.range_opt()
            name = self.ident()
            m["ports"].append((d, name))
            self.declare(m, name, width, signed, kind, None)
            self.accept(",")
        self.expect(";")
        while True:
            t = self.peek()
            if t[1] == "endmodule":
                self.next()
                break
            if t[1] in ("wire", "reg"):
                self.parse_decl(m)
            elif t[1] == "assign":
                self.next()
                lhs = self.parse_lvalue()
                self.expect("=")
                rhs = self.parse_expr()
                self.expect(";")
                m["assigns"].append((lhs, rhs))
            elif t[1] == "always":
                self.parse_always(m)
            elif t[1] == "initial":
                self.next()
                m["initials"] += self.parse_stmt_block()
            elif t[0] == "id":
                self.parse_instance(m)
            else:
                raise SyntaxError("vsim: unexpected token %r in module body" % (t,))
        return m

    def declare(self, m, name, width, signed, kind, init):
        if name in m["decls"] or name in m["mems"]:
            raise SyntaxError("vsim: identifier %r declared twice" % name)
        m["decls"][name] = {"width": width, "signed": signed, "kind": kind, "init": init}

    def range_opt(self):
        signed = self.accept("signed")
        width = 1
        if self.accept("["):
            msb = self.const_int()
            self.expect(":")
            lsb = self.const_int()
            self.expect("]")
            assert lsb == 0, "vsim: only [n:0] ranges are emitted"
            width = msb + 1
        return signed, width

    def parse_decl(self, m):
        kind = self.next()[1]
        signed, width = self.range_opt()
        name = self.ident()
        if self.accept("["):                      # memory: reg [w:0] name[0:depth-1];
            lo = self.const_int()
            self.expect(":")
            hi = self.const_int()
            self.expect("]")
            self.expect(";")
            if name in m["decls"] or name in m["mems"]:
                raise SyntaxError("vsim: identifier %r declared twice" % name)
            m["mems"][name] = {"width": width, "depth": hi - lo + 1}
            return
        init = None
        if self.accept("="):
            init = self.parse_expr()
        self.expect(";")
        self.declare(m, name, width, signed, kind, init)

    def parse_always(self, m):
        self.expect("always")
        self.expect("@")
        self.expect("(")
        if self.accept("*"):
            self.expect(")")
            m["combs"].append(self.parse_stmt_block())
        else:
            self.expect("posedge")
            clk = self.ident()
            self.expect(")")
            m["syncs"].append((clk, self.parse_stmt_block()))

    def parse_instance(self, m):
        # cellname [#( .P (value), ... )] instname ( .port (expr), ... );
        # Recorded both as raw tokens (opaque) and structured: parameters keep their literal text (and the parsed expression when it
        # is one), port connections are parsed expressions.
        start = self.i
        cell = self.ident()
        rec = {"cell": cell, "name": None, "params": [], "ports": [], "structured": True}
        try:
            if self.accept("#"):
                self.expect("(")
                while not self.accept(")"):
                    self.accept(",")
                    self.expect(".")
                    pname = self.ident()
                    self.expect("(")
                    j, depth, toks = self.i, 0, []
                    while not (self.toks[j][1] == ")" and depth == 0 and self.toks[j][0] != "str"):
                        if self.toks[j][0] == "eof":
                            raise SyntaxError("vsim: unterminated parameter")
                        if self.toks[j][0] != "str":
                            depth += {"(": 1, ")": -1}.get(self.toks[j][1], 0)
                        toks.append(self.toks[j])
                        j += 1
                    ast = None
                    if toks and toks[0][0] != "str":
                        sub = Parser.__new__(Parser)
                        sub.toks, sub.i = toks + [("eof", "")], 0
                        try:
                            ast = sub.parse_expr()
                            if sub.peek()[0] != "eof":
                                ast = None
                        except Exception:
                            ast = None
                    rec["params"].append((pname, "".join(t[1] for t in toks), toks[0][0] if toks else None, ast))
                    self.i = j + 1
            rec["name"] = self.ident()
            self.expect("(")
            while not self.accept(")"):
                self.accept(",")
                self.expect(".")
                port = self.ident()
                self.expect("(")
                e = None if self.peek()[1] == ")" else self.parse_expr()
                self.expect(")")
                rec["ports"].append((port, e))
            self.expect(";")
        except (SyntaxError, AssertionError, IndexError):
            # not the shape LiteX prints: keep it opaque
            self.i = start
            self.ident()
            rec = {"cell": cell, "structured": False}
            depth = 0
            while True:
                t = self.next()
                if t[1] == "(":
                    depth += 1
                elif t[1] == ")":
                    depth -= 1
                elif t[1] == ";" and depth == 0:
                    break
                elif t[0] == "eof":
                    raise SyntaxError("vsim: unterminated instance")
        m["instances"].append(rec)

    # -- statements
    def parse_stmt_block(self):
        """one statement or begin ... end; returns list"""
        if self.accept("begin"):
            stmts = []
            while not self.accept("end"):
                stmts += self.parse_stmt_block()
            return stmts
        return [self.parse_stmt()]

    def parse_stmt(self):
        t = self.peek()
        if t[1] == "if":
            self.next()
            self.expect("(")
            cond = self.parse_expr()
            self.expect(")")
            then = self.parse_stmt_block()
            els = []
            if self.accept("else"):
                els = self.parse_stmt_block()
            return ("if", cond, then, els)
        if t[1] == "case":
            self.next()
            self.expect("(")
            e = self.parse_expr()
            self.expect(")")
            items = []
            while not self.accept("endcase"):
                if self.accept("default"):
                    self.accept(":")
                    items.append((None, self.parse_stmt_block()))
                else:
                    ie = self.parse_expr()
                    self.expect(":")
                    items.append((ie, self.parse_stmt_block()))
            return ("case", e, items)
        if t[0] == "id" and t[1].startswith("$"):
            name = self.next()[1]
            args = []
            if self.accept("("):
                while not self.accept(")"):
                    a = self.next()
                    args.append(a[1])
                    self.accept(",")
            self.expect(";")
            return ("sys", name, args)
        lhs = self.parse_lvalue()
        op = self.next()[1]
        assert op in ("<=", "="), "vsim: assignment expected, got %r" % op
        rhs = self.parse_expr()
        self.expect(";")
        return ("nba" if op == "<=" else "ba", lhs, rhs)

    def parse_lvalue(self):
        if self.accept("{"):
            parts = [self.parse_lvalue()]
            while self.accept(","):
                parts.append(self.parse_lvalue())
            self.expect("}")
            return ("cat", parts)
        return self.parse_postfix(("id", self.ident()))

    # -- expressions (LiteX parenthesises every operator, but normal precedence is implemented anyway)
    PREC = [["||"], ["&&"], ["|"], ["^"], ["&"], ["==", "!="], ["<", "<=", ">", ">="], ["<<", ">>", "<<<", ">>>"], ["+", "-"],
            ["*", "/", "%"]]

    def parse_expr(self):
        c = self.parse_bin(0)
        if self.accept("?"):
            a = self.parse_expr()
            self.expect(":")
            b = self.parse_expr()
            return ("tern", c, a, b)
        return c

    def parse_bin(self, level):
        if level >= len(self.PREC):
            return self.parse_unary()
        a = self.parse_bin(level + 1)
        while self.peek()[0] == "op" and self.peek()[1] in self.PREC[level]:
            op = self.next()[1]
            b = self.parse_bin(level + 1)
            a = ("bin", op, a, b)
        return a

    def parse_unary(self):
        t = self.peek()
        if t[0] == "op" and t[1] in ("~", "-", "!", "+", "&", "|", "^"):
            self.next()
            return ("un", t[1], self.parse_unary())
        return self.parse_primary()

    def parse_primary(self):
        t = self.next()
        if t[0] == "num":
            m = re.match(r"(\d+)'([sS]?)([dDhHbB])([0-9a-fA-F_]+)", t[1])
            if not m:
                raise SyntaxError("vsim: unsupported number %r" % t[1])
            base = {"d": 10, "h": 16, "b": 2}[m.group(3).lower()]
            w = int(m.group(1))
            return ("const", w, int(m.group(4).replace("_", ""), base) & ((1 << w) - 1), bool(m.group(2)))
        if t[0] == "int":
            return ("const", 32, int(t[1]), True)          # unsized decimal: signed, at least 32 bits
        if t[1] == "(":
            e = self.parse_expr()
            self.expect(")")
            return e
        if t[1] == "{":
            first = self.parse_expr()
            if self.accept("{"):                       # replication {n{e}}
                inner = self.parse_expr()
                self.expect("}")
                self.expect("}")
                assert first[0] == "const"
                return ("rep", first[2], inner)
            parts = [first]
            while self.accept(","):
                parts.append(self.parse_expr())
            self.expect("}")
            return ("cat", parts)
        if t[0] == "id":
            if t[1] in ("$signed", "$unsigned"):
                self.expect("(")
                e = self.parse_expr()
                self.expect(")")
                return ("sys", t[1], e)
            return self.parse_postfix(("id", t[1]))
        raise SyntaxError("vsim: unexpected token %r in expression" % (t,))

    def parse_postfix(self, node):
        name = node[1]
        if not self.accept("["):
            return node
        first = self.parse_expr()
        if self.accept(":"):
            lsb = self.parse_expr()
            self.expect("]")
            assert first[0] == "const" and lsb[0] == "const"
            return ("part", name, first[2], lsb[2])
        self.expect("]")
        node = ("index", name, first)
        if self.accept("["):                           # memory word part select: mem[adr][h:l]
            msb = self.parse_expr()
            self.expect(":")
            lsb = self.parse_expr()
            self.expect("]")
            return ("mempart", name, first, msb[2], lsb[2])
        return node


def parse(text):
    # strip everything before "module" except `timescale (banner comments are handled by the tokenizer)
    return Parser(text).parse_module()
