"""Self-test of the Verilog-subset interpreter: expression vectors whose expected values follow from IEEE 1364-2005
clauses 5.1.x, 5.4 (bit lengths) and 5.5 (signed expressions), hand-computed. Run: python -m lib.vsim.selftest"""
import sys
from lib.vsim.interp import VerilogSim

DECLS = """
reg         [3:0] u4 = 4'd13;
reg  signed [3:0] s4 = -4'd3;
reg         [3:0] v4 = 4'd8;
reg         [7:0] u8 = 8'd200;
reg  signed [7:0] s8 = -8'd128;
reg        [15:0] a16 = 16'd32768;
reg        [15:0] b16 = 16'd32768;
reg               b1 = 1'd1;
reg  signed [3:0] m1 = -4'd1;
reg  signed [3:0] p1 = 4'd1;
"""
# (target width, target signed, expression, expected bit pattern, clause / reason)
VECTORS = [
    (8, 0, "(u4 + v4)", 21, "5.4.1 context width = max(lhs, rhs): carry kept in 8 bits"),
    (4, 0, "(u4 + v4)", 5, "truncated to 4 bits"),
    (16, 0, "((a16 + b16) >> 1'd1)", 0, "5.4.2 example: carry of a+b lost at 16 bits"),
    (17, 0, "((a16 + b16) >> 1'd1)", 32768, "same expression, 17-bit context keeps the carry"),
    (8, 0, "(s4 + u4)", 26, "5.5.1 one unsigned operand -> unsigned: s4 zero-extended (13 + 13)"),
    (8, 0, "(s4 + $signed({1'd0, u4}))", 10, "all signed: s4 sign-extended (-3 + 13)"),
    (8, 1, "(s4 + s4)", 250, "signed + signed, sign-extended to 8 bits: -6"),
    (8, 0, "-4'd1", 255, "5.1.3: -4'd1 is the two's complement of 1 in the context width"),
    (8, 0, "(s4 + -4'd1)", 12, "the unsigned literal makes the expression unsigned: 13 + 255 = 268 mod 256"),
    (8, 0, "(s4 + -4'sd1)", 252, "signed literal keeps the expression signed: -3 + -1 = -4"),
    (1, 0, "(s4 < 4'd1)", 0, "5.5.1 mixed comparison is unsigned: 13 < 1 false"),
    (1, 0, "(s4 < 4'sd1)", 1, "both signed: -3 < 1"),
    (1, 0, "(s4 < -1'd1)", 1, "unsigned: 13 < 15"),
    (1, 0, "(p1 < -1'd1)", 1, "unsigned: 1 < 15 (Migen says 1 < -1 is false)"),
    (1, 0, "(p1 < -1'sd1)", 0, "signed: 1 < -1 false"),
    (8, 0, "(s8 >>> 1'd1)", 192, "arithmetic shift in signed expression: -128 >>> 1 = -64"),
    (8, 0, "(u8 >>> 1'd1)", 100, ">>> on unsigned is logical"),
    (8, 0, "($signed(u8) >>> 1'd1)", 228, "$signed makes it arithmetic: 200 = -56 -> -28"),
    (8, 0, "((s8 + u8) >>> 1'd1)", 36, "unsigned context: (128 + 200) mod 256 = 72 >> 1"),
    (8, 0, "(s8 >> 1'd1)", 64, ">> is always logical"),
    (8, 0, "{u4 + v4}", 5, "5.4.1: concatenation operands are self-determined (4-bit sum)"),
    (8, 0, "{2{u4}}", 221, "replication"),
    (8, 0, "{s4, u4}", 221, "concatenation is unsigned, s4 = 4'b1101"),
    (8, 1, "{s4}", 13, "concatenation result is unsigned: zero-extended"),
    (8, 1, "s4[3:0]", 13, "part-select is unsigned even of a signed reg"),
    (8, 1, "s4", 253, "plain signed operand is sign-extended"),
    (8, 0, "s4", 253, "5.5.1: type of the expression does not depend on the left-hand side"),
    (8, 0, "(b1 ? s4 : u4)", 13, "ternary with one unsigned branch is unsigned: zero-extended"),
    (8, 0, "(b1 ? s4 : m1)", 253, "ternary with both branches signed"),
    (8, 0, "(~u4)", 242, "~ in 8-bit context: operand extended first"),
    (4, 0, "(~u4)", 2, "~ in 4-bit context"),
    (8, 0, "(-s4)", 3, "negation of signed"),
    (8, 0, "(-$signed({1'd0, u4}))", 243, "negation of widened unsigned (as LiteX prints it): -13"),
    (8, 0, "(u4 * v4)", 104, "multiplication in 8-bit context"),
    (4, 0, "(u4 * v4)", 8, "multiplication truncated"),
    (8, 0, "(s4 * s4)", 9, "signed multiplication -3 * -3"),
    (8, 0, "(s4 * u4)", 169, "unsigned multiplication 13 * 13"),
    (8, 0, "(u4 << 2'd2)", 52, "left operand of shift is context-determined: 13 << 2 in 8 bits"),
    (4, 0, "(u4 << 2'd2)", 4, "in 4 bits"),
    (8, 0, "(u4 <<< v4)", 0, "shift amount self-determined (8): everything shifted out of 8 bits"),
    (1, 0, "(u4 == 4'd13)", 1, "equality"),
    (1, 0, "((u4 + v4) == 5'd21)", 1, "comparison operands sized to the larger: 5 bits keeps the carry"),
    (1, 0, "((u4 + v4) == 4'd5)", 1, "4-bit comparison loses the carry"),
    (1, 0, "(m1 == 4'd15)", 1, "mixed equality unsigned"),
    (1, 0, "(m1 == 8'd255)", 0, "mixed -> unsigned, m1 zero-extended to 8 bits: 15 != 255"),
    (1, 0, "(m1 == 8'sd255)", 1, "both signed: -1 == -1 (8'sd255 is -1)"),
    (1, 0, "(!u4)", 0, "logical not"),
    (8, 0, "(u4 & s4)", 13, "bitwise and"),
    (8, 0, "(s4 | 8'd0)", 13, "unsigned context zero-extends s4"),
    (8, 0, "(s4 | 8'sd0)", 253, "signed context sign-extends s4"),
    (8, 0, "(u8 - 8'd201)", 255, "wrap-around subtraction"),
    (9, 0, "(u8 - 8'd201)", 511, "9-bit context"),
    (8, 0, "s4[2]", 1, "bit select"),
    (8, 0, "u8[7:4]", 12, "part select"),
]


def run():
    fails = []
    for i, (w, s, expr, want, why) in enumerate(VECTORS):
        text = "module t (\n\tinput wire clk\n);\n%s\nwire %s [%d:0] y;\nassign y = %s;\nendmodule\n" % (
            DECLS, "signed" if s else "", w - 1, expr)
        try:
            sim = VerilogSim(text)
            got = sim.val["y"]
        except Exception as e:          # noqa
            got = "exception %r" % e
        if got != want:
            fails.append((i, expr, w, want, got, why))
    # statements: case sizing, non-blocking ordering, memory part-write, if/else
    text = """module t (
	input wire clk,
	input wire [1:0] sel,
	input wire [7:0] d
);
reg [7:0] r = 8'd5;
reg [7:0] q = 8'd0;
reg [7:0] mem[0:3];
reg [1:0] mem_adr0;
wire [7:0] rd;
reg [3:0] c = 4'd0;
always @(*) begin
	c <= 4'd0;
	case (sel)
		1'd0: begin
			c <= 4'd1;
		end
		2'd2: begin
			c <= 4'd2;
		end
		default: begin
			c <= 4'd9;
		end
	endcase
end
always @(posedge clk) begin
	r <= d;
	q <= r;
	if (sel[0])
		mem[sel][7:4] <= d[7:4];
	mem_adr0 <= sel;
end
assign rd = mem[mem_adr0];
endmodule
"""
    sim = VerilogSim(text)
    checks = []
    checks.append(("case default width", sim.val["c"], 1))
    sim.tick({"clk"}, {"sel": 2, "d": 0xAB})
    checks.append(("nba swap r", sim.val["r"], 0))          # inputs were 0 at the edge
    checks.append(("nba swap q", sim.val["q"], 5))
    checks.append(("case 2'd2", sim.val["c"], 2))
    sim.tick({"clk"}, {"sel": 3, "d": 0xCD})
    checks.append(("r gets d", sim.val["r"], 0xAB))
    checks.append(("q gets old r", sim.val["q"], 0))
    checks.append(("case default", sim.val["c"], 9))
    sim.tick({"clk"}, {"sel": 3, "d": 0xEF})
    checks.append(("mem part write", sim.mems["mem"][3], 0xC0))
    checks.append(("write-first read via adr reg", sim.val["rd"], 0xC0))
    for name, got, want in checks:
        if got != want:
            fails.append((name, "", 0, want, got, "statement semantics"))
    return fails, len(VECTORS) + len(checks)


if __name__ == "__main__":
    fails, n = run()
    for f in fails:
        print("VSIM SELFTEST FAIL", f)
    print("vsim selftest: %d vectors, %d failures" % (n, len(fails)))
    sys.exit(1 if fails else 0)
