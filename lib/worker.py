"""Runs one shard of one property in a fresh process and writes its result JSON."""
import os
import sys
import json
import importlib
import traceback
import faulthandler


def main():
    prop, spec, out = sys.argv[1:4]
    faulthandler.enable()
    from lib import env
    env.setup()
    if os.environ.get("VERIF_COVER"):
        from lib import linecov
        linecov.start(os.environ.get("LITEX_ROOT", "/repo"))
        linecov.dump_at_exit(os.environ["VERIF_COVER"], prop)
    with open(spec) as f:
        shard = json.load(f)
    mod = importlib.import_module("props." + prop.lower())
    try:
        res = mod.run_shard(shard)
    except Exception:
        env.restore_stderr()
        res = {"cases": 0, "violations": [], "events": {}, "hashes": [], "samples": [], "cover": {},
               "inconclusive": [{"case": shard.get("id"), "reason": "harness exception: " + traceback.format_exc()[-3000:]}]}
    env.restore_stderr()
    with open(out, "w") as f:
        json.dump(res, f, default=str)


if __name__ == "__main__":
    main()
