"""C01 - the emitted Verilog behaves like the simulated FHDL design. Every design is built twice from the same
description: once converted with litex.gen.fhdl.verilog.convert() and executed by the Verilog-subset interpreter
(lib/vsim, IEEE 1364-2005 sizing/sign rules), once executed by the repository's simulator; both get the same
input vector every tick and every named signal and memory word is compared every tick."""
import itertools

from migen import *
from migen.fhdl.structure import _Fragment
from migen.fhdl.tools import list_signals, list_targets, list_special_ios
from migen.fhdl.specials import Memory

from litex.gen.fhdl.verilog import convert

from lib.collect import Collector, rng_for, h
from lib.bench.kernel import Bench, umask, EdgeScheduler
from lib.vsim.interp import VerilogSim
from lib.vsim import selftest as vselftest
from lib import fhdlgen
from props import c01corpus

LEVEL = "translation_validation"
RULE = ("programs = (a) corpus: real LiteX blocks at several parameterisations (stream elements, packet blocks, Wishbone/AXI-Lite/AXI "
        "cores, CSR banks, event managers, timers, UART/SPI, 8b/10b, ECC, CDC blocks with two clocks), (b) grammar-generated FHDL "
        "fragments (operators, signedness mixes, widths 1..12 and 33..70, slices incl. full-width, Cat/Replicate, Mux, Array, "
        "If/Elif/Else, Case +-default, slice targets, 1-2 clock domains, reset_less, memories with every port mode/granularity/init/"
        "async/re; regular_comb on/off), (c) generated fragments containing 1-3 Instances of a harness cell (Constant, string, "
        "preformatted and float parameters; expressions on the input ports; outputs read by the rest of the design): the emitted text "
        "is executed with the cell's function behind the instance, the simulated twin contains the same function in FHDL. Each is converted and both executions are compared signal by signal, word by word, every "
        "tick under random input vectors (biased to 0, all-ones, sign boundaries, held values; reset pulses); comb-only narrow "
        "fragments exhaustively. Generator classes: width-closed (any mismatch is a violation) and width-hostile (arithmetic under "
        "width-sensitive operators: mismatches are classified). distinct = distinct program digests; non-trivial = >= 3 signals "
        "changed value during the run")
ASSUMPTIONS = ["Verilog is executed by lib/vsim (own interpreter of the emitted subset; self-test of 63 vectors derived from IEEE 1364-2005 "
               "5.1/5.4/5.5 runs first and makes the check inconclusive if it fails)",
               "combinational blocks are evaluated at time 0 (synthesis behaviour)", "uninitialised memory words read as 0; stimuli never "
               "address beyond a memory's depth", "Instances of vendor primitives are not executed (only instances of the harness cell are)", "two-state values"]
FLOORS = {"quick": {"programs": 500, "ticks_compared": 35000, "signal_values_compared": 900000, "corpus_programs": 60,
                    "generated_programs": 400, "memory_words_compared": 100000, "instances_executed": 150},
          "thorough": {"programs": 25000, "ticks_compared": 1200000, "signal_values_compared": 25000000, "corpus_programs": 600,
                       "generated_programs": 24000, "memory_words_compared": 5000000, "instances_executed": 8000}}
SHARD_TIMEOUT = {"quick": 900, "thorough": 3300}
N_SAMPLES = 3


def plan(tier, seed):
    cases = []
    corpus = c01corpus.names()
    reps = 1 if tier == "quick" else 8
    for r in range(reps):
        for i, name in enumerate(corpus):
            cases.append({"kind": "corpus", "name": name, "seed": "%d/C01/corpus/%s/%d" % (seed, name, r), "ticks": 150 if tier == "quick" else 300})
    n = 520 if tier == "quick" else 30000
    for k in range(n):
        cls = ["closed-unsigned", "closed-mixed", "closed-unsigned", "hostile"][k % 4]
        cases.append({"kind": "gen", "cls": cls, "wide": k % 11 == 0, "seed": "%d/C01/gen/%s/%d" % (seed, cls, k), "ticks": 60})
    # designs with Instances of a harness cell (parameters of every kind, expressions on the input ports): the emitted text is
    # executed with the cell's function behind the instance, the simulated twin has the same function in FHDL in its place
    for k in range(120 if tier == "quick" else 6000):
        cls = ["closed-unsigned", "closed-mixed"][k % 2]
        cases.append({"kind": "gen", "cls": cls, "wide": False, "insts": 1 + k % 3, "seed": "%d/C01/inst/%s/%d" % (seed, cls, k), "ticks": 40})
    ns = 64 if tier == "quick" else 192
    return [{"id": "tv%03d" % i, "cls": "tv", "cases": cases[i::ns]} for i in range(ns)]


# ------------------------------------------------------------------------------------ comparison harness
def input_vectors(rng, inputs, nticks, rst=None):
    """per-tick dict index->value, biased to corner values and held values"""
    vecs = []
    cur = {i: 0 for i in range(len(inputs))}
    for t in range(nticks):
        for i, s in enumerate(inputs):
            w = len(s)
            r = rng.random()
            if s is rst:
                cur[i] = int(rng.random() < 0.03 or t == 5)
                continue
            if r < 0.35:
                continue                                  # hold
            elif r < 0.45:
                cur[i] = 0
            elif r < 0.55:
                cur[i] = (1 << w) - 1
            elif r < 0.62 and w > 1:
                cur[i] = rng.choice([1 << (w - 1), (1 << (w - 1)) - 1, 1])
            else:
                cur[i] = rng.getrandbits(w)
        vecs.append(dict(cur))
    return vecs


def compare_design(build, rng, nticks, two_clock_sched=None, regular_comb=True, exhaustive_bits=None, build_sim=None, cells=None):
    """build() -> (top, extra) deterministic. Returns result dict.
    build_sim: builder of the simulated twin when it differs from the converted design (instances replaced by FHDL logic); its signals
    are the converted design's, in the same creation order, followed by extra ones."""
    # ---- instance A: convert
    topA, extraA = build()
    fA = topA.get_fragment()
    sigsA = sorted(list_signals(fA) | list_special_ios(fA, True, True, True), key=lambda s: s.duid)
    memsA = sorted([s for s in fA.specials if isinstance(s, Memory)], key=lambda s: s.duid)
    targetsA = list_targets(fA) | list_special_ios(fA, False, True, True)
    clkA = {cd.name: cd.clk for cd in fA.clock_domains}
    rstA = {cd.name: cd.rst for cd in fA.clock_domains if cd.rst is not None}
    clk_set = set(clkA.values())
    inputsA = [s for s in sigsA if s not in targetsA and s not in clk_set]
    ios = set(inputsA) | clk_set | set(rstA.values())
    out = convert(fA, ios=ios, regular_comb=regular_comb)
    text = out.main_source
    nameA = {i: out.ns.get_name(s) for i, s in enumerate(sigsA)}
    mem_names = [out.ns.get_name(m_) for m_ in memsA]
    vs = VerilogSim(text, dict(out.data_files), cells=cells)
    # undriven inputs start at the value the FHDL simulator gives them (their reset value) until the bench drives them
    for s_ in inputsA:
        vs.val[out.ns.get_name(s_)] = s_.reset.value & ((1 << len(s_)) - 1)
    vs.settle()
    ninst = len([i_ for i_ in vs.m["instances"] if not (i_.get("structured") and i_["cell"] in (cells or {}))])
    nexec = len(vs.m["instances"]) - ninst
    # ---- instance B: simulate
    topB, extraB = (build_sim or build)()
    fB = topB.get_fragment()
    sigsB = sorted(list_signals(fB) | list_special_ios(fB, True, True, True), key=lambda s: s.duid)
    memsB = sorted([s for s in fB.specials if isinstance(s, Memory)], key=lambda s: s.duid)
    if build_sim is not None:
        if [(len(x), x.signed) for x in sigsB[:len(sigsA)]] != [(len(x), x.signed) for x in sigsA]:
            raise RuntimeError("the simulated twin's signals are not the converted design's plus trailing ones")
        sigsB = sigsB[:len(sigsA)]
    if len(sigsA) != len(sigsB) or len(memsA) != len(memsB):
        raise RuntimeError("two builds of the same design differ (%d/%d signals)" % (len(sigsA), len(sigsB)))
    clkB = {cd.name: cd.clk for cd in fB.clock_domains}
    idxA = {s: i for i, s in enumerate(sigsA)}
    in_idx = [idxA[s] for s in inputsA]
    inputsB = [sigsB[i] for i in in_idx]
    rst_idx = set(idxA[s] for s in rstA.values() if s in idxA)
    cmp_idx = [i for i, s in enumerate(sigsA) if s not in clk_set and nameA[i] in vs.val]
    domains = sorted(clkA)
    if exhaustive_bits is not None:
        total = sum(len(s) for s in inputsA)
        vecs = []
        for x in range(1 << total):
            d, sh = {}, 0
            for k, s in enumerate(inputsA):
                d[k] = (x >> sh) & ((1 << len(s)) - 1)
                sh += len(s)
            vecs.append(d)
        nticks = len(vecs)
    else:
        rsts = [s for s in inputsA if idxA[s] in rst_idx]
        vecs = input_vectors(rng, inputsA, nticks, rst=rsts[0] if rsts else None)
        for v in vecs:
            for k, s in enumerate(inputsA):
                if idxA[s] in rst_idx and s is not (rsts[0] if rsts else None):
                    v[k] = 0
                if "replace" in nameA[idxA[s]]:
                    v[k] = 0          # SyncFIFO.replace without a previous write addresses word -1 (outside the memory)
    # clock schedule: tick t -> set of rising design domains
    if len(domains) > 1:
        sched = [set(d for d in domains if rng.random() < 0.6) or {rng.choice(domains)} for _ in range(nticks + 2)]
    else:
        sched = [set(domains) for _ in range(nticks + 2)]
    mism = []
    stats = {"ticks": 0, "vals": 0, "memw": 0, "changed": set()}

    class TB:
        def __init__(self):
            self.t = 0
            self.prev = None

        def signals(self):
            return [sigsB[i] for i in cmp_idx]

        def done(self):
            return self.t >= nticks or bool(mism)

        def step(self, v, c):
            # v: values during tick c (committed by the previous tick) -> compare with vsim's current state
            t = self.t
            for i in cmp_idx:
                sB = sigsB[i]
                a = umask(sB, v[sB])
                b = vs.val[nameA[i]]
                stats["vals"] += 1
                if a != b:
                    mism.append({"tick": t, "signal": nameA[i], "fhdl_sim": a, "verilog": b, "width": len(sB), "signed": sB.signed,
                                 "index": i})
            if self.prev is not None:
                for i in cmp_idx:
                    if v[sigsB[i]] != self.prev[sigsB[i]]:
                        stats["changed"].add(i)
            self.prev = v
            # memories
            if not mism and memsB:
                ev = bench.sim.evaluator
                for mB, mname in zip(memsB, mem_names):
                    arr = ev.replaced_memories.get(mB)
                    if arr is None:
                        continue
                    for k, s in enumerate(arr):
                        stats["memw"] += 1
                        a = umask(s, ev.signal_values.get(s, s.reset.value))
                        if a != vs.mems[mname][k]:
                            mism.append({"tick": t, "signal": "%s[%d]" % (mname, k), "fhdl_sim": a, "verilog": vs.mems[mname][k], "memory": True})
                            break
            stats["ticks"] += 1
            if mism or t >= nticks:
                self.t = nticks
                return None
            # drive both engines with the same vector; the design clocks that rise in this tick
            vec = vecs[t]
            rising = sched[t]
            vs.tick({nameA[idxA[clkA[d]]] if clkA[d] in idxA else out.ns.get_name(clkA[d]) for d in rising},
                    {nameA[in_idx[k]]: val for k, val in vec.items()})
            self.t += 1
            return {inputsB[k]: val for k, val in vec.items()}
    tb = TB()
    clocks = {d: 10 for d in domains}
    clocks["tbclk"] = 10

    def pick(t):
        return set(sched[t] if t < len(sched) else domains) | {"tbclk"}
    bench = Bench(fB, clocks=clocks, cap=nticks + 10, scheduler=EdgeScheduler(sorted(clocks), pick))
    bench.add(tb, "tbclk")
    bench._force_primary = "tbclk"
    bench.run()
    from lib.vsim import classify
    cls_ = None
    if mism:
        names = [m_["signal"].split("[")[0] for m_ in mism]
        # the statements that can have produced the FIRST disagreement (everything compared agreed until this tick)
        cone, cmems = classify.cone(vs, names, set(nameA[i] for i in cmp_idx))
        # memories whose ports (asynchronous read ports included) belong to different clock domains: LiteX forces all their
        # ports to read-first
        multi = set()
        for mB, mname in zip(memsB, mem_names):
            if len(set(getattr(p.clock, "cd", None) or id(p.clock) for p in mB.ports)) > 1:
                multi.add(mname)
        if multi & cmems:
            cls_ = "multi-clock-memory-emitted-read-first"
        elif classify.no_change_partial_we(vs, cone):
            cls_ = "no-change-port-with-partial-write-enable(migen-MemoryToArray)"
        elif classify.lossy_array_proxy(vs, cone):
            cls_ = "array-of-mixed-signedness(migen-value_bits_sign)"
        elif classify.width_sensitive_arith(cone):
            cls_ = "intermediate-overflow(arith-under-width-sensitive-operator)"
    return {"classified": cls_, "nmism": len(mism), "mism": mism[:3], "ticks": stats["ticks"], "vals": stats["vals"], "memw": stats["memw"], "changed": len(stats["changed"]),
            "nsig": len(cmp_idx), "nmem": len(memsA), "instances": ninst, "instances_executed": nexec, "lines": text.count("\n"), "text_tail": None,
            "domains": domains}


# ------------------------------------------------------------------------------------ cases
def run_case(case):
    rng = rng_for(case["seed"])
    if case["kind"] == "corpus":
        b = c01corpus.get(case["name"])
        r = compare_design(b, rng, case["ticks"])
        r["program"] = case["name"]
        r["hostile_targets"] = []
        return r
    g = fhdlgen.Gen(rng, cls=case["cls"], wide=case.get("wide", False))
    g.n_insts = case.get("insts", 0)
    spec = case.get("spec") or g.design()

    def b():
        top, sigs, mems, ports = fhdlgen.build(spec)
        return top, None

    def b_sim():
        top, sigs, mems, ports = fhdlgen.build(spec, inline_instances=True)
        return top, None
    has_inst = bool(spec.get("insts"))
    nin_bits = sum(d["w"] for d in spec["sigs"] if d["kind"] == "in")
    comb_only = not spec["sync"] and not spec["mems"]
    # the stimulus generator is independent of the design generator: a replay (spec given) sees the same vectors
    r = compare_design(b, rng_for(case["seed"], "stimulus"), case["ticks"], regular_comb=spec["regular_comb"],
                       exhaustive_bits=nin_bits if (comb_only and nin_bits <= 10) else None,
                       build_sim=b_sim if has_inst else None,
                       cells={fhdlgen.CELL: (fhdlgen.CELL_IN, fhdlgen.CELL_OUT, fhdlgen.cell_model)} if has_inst else None)
    r["program"] = h(spec)
    r["spec"] = spec
    r["hostile_targets"] = ["%s%d" % ({"in": "i", "comb": "c", "sync": "r"}[spec["sigs"][i]["kind"]], i) for i in spec["hostile_targets"]]
    return r


def run_shard(shard):
    # deeply nested expressions (ECC XOR trees) need a deep recursive-descent parse: run in a thread with a large stack
    import sys
    import threading
    out = {}
    sys.setrecursionlimit(200000)
    threading.stack_size(512 * 1024 * 1024)
    t = threading.Thread(target=lambda: out.setdefault("r", _run_shard(shard)))
    t.start()
    t.join()
    return out["r"]


def _run_shard(shard):
    col = Collector(shard["cls"])
    fails, nvec = vselftest.run()
    if fails:
        col.inconc({"selftest": True}, "vsim self-test failed: %s" % (fails[:2],))
        return col.result()
    col.ev("vsim_selftest_vectors", nvec)
    for case in shard["cases"]:
        r = col.guard(case, run_case, case)
        if r is None:
            continue
        col.ev("programs")
        col.ev("corpus_programs" if case["kind"] == "corpus" else "generated_programs")
        col.ev("ticks_compared", r["ticks"])
        col.ev("signal_values_compared", r["vals"])
        col.ev("memory_words_compared", r["memw"])
        col.ev("verilog_lines_executed", r["lines"])
        col.ev("instances_not_executed", r["instances"])
        col.ev("instances_executed", r.get("instances_executed", 0))
        if len(r["domains"]) > 1:
            col.ev("multi_clock_programs")
        col.count("disagreements", len(r["mism"]) and 1)
        if r["mism"]:
            m0 = r["mism"][0]
            what = r["classified"] or ("memory-word" if m0.get("memory") else "signal")
            if case["kind"] == "corpus":
                key = "corpus/%s" % what if r["classified"] else "corpus/%s/%s" % (case["name"].split(":")[0], what)
            else:
                key = "generated-%s/%s" % (case["cls"] + ("+instances" if case.get("insts") and not r["classified"] else ""), what)
            wit = {"mismatches": r["mism"], "signals_disagreeing_in_that_tick": r["nmism"]}
            if case["kind"] == "gen":
                wit["spec"] = r["spec"]
            col.violation(key, dict(case, spec=r.get("spec")) if case["kind"] == "gen" else case,
                          "%s: first disagreement %s" % (case.get("name", case.get("cls")), m0), wit)
        col.case_done(case, r["changed"] >= 3, digest=r["program"],
                      sample={"program": case.get("name", "generated fragment " + str(r["program"])), "signals_compared": r["nsig"],
                              "memories": r["nmem"], "ticks": r["ticks"], "verilog_lines": r["lines"], "clock_domains": r["domains"]})
    res = col.result()
    # translation_validation keys
    return res
