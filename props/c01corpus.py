"""Corpus of real LiteX blocks for C01: every entry builds a top Module (fresh instance each call, deterministic)
with its clock domains declared, so that it can be converted and simulated."""
from migen import *

from litex.soc.interconnect import stream, packet, wishbone, axi, csr_bus
from litex.soc.interconnect.csr import CSRStorage, CSRStatus, CSR, CSRField, AutoCSR
from litex.soc.interconnect.csr_eventmanager import EventManager, EventSourcePulse, EventSourceProcess, EventSourceLevel
from litex.soc.cores import code_8b10b, ecc
from litex.soc.cores.timer import Timer
from litex.soc.cores.uart import RS232PHYTX, RS232PHYRX
from litex.soc.cores.spi.spi_master import SPIMaster
from litex.gen.genlib.misc import WaitTimer
from litex.gen.genlib.cdc import BusSynchronizer

from props import streamlib as sl

_REG = {}


def _top(dut, domains=("sys",)):
    top = Module()
    for d in domains:
        setattr(top.clock_domains, "cd_" + d, ClockDomain(d))
    top.submodules.dut = dut
    return top


def reg(name):
    def deco(fn):
        _REG[name] = fn
        return fn
    return deco


def _stream(el, cfg):
    def b():
        setup = sl.BUILDERS[el](cfg)
        return _top(setup.dut), None
    return b


for _i, (_el, _cfg) in enumerate(sl.catalogue("quick")):
    if _i % 3 == 0 or _el in ("stride", "pack", "unpack", "gearbox", "cast"):
        _REG["stream:%s:%d" % (_el, _i)] = _stream(_el, _cfg)


def _hdr(length, dw, swap=True):
    fields = {"a": packet.HeaderField(0, 0, 8), "b": packet.HeaderField(1, 0, 16)}
    if length >= 5:
        fields["c"] = packet.HeaderField(3, 2, 5)
    return packet.Header(fields, length, swap_field_bytes=swap)


for _dw, _len in [(8, 3), (32, 4), (32, 6), (64, 11), (16, 5)]:
    def _mk(dw=_dw, ln=_len):
        def b():
            hd = _hdr(ln, dw)
            user = stream.EndpointDescription([("data", dw)], hd.get_layout())
            raw = stream.EndpointDescription([("data", dw)], [])
            top = Module()
            top.clock_domains.cd_sys = ClockDomain("sys")
            top.submodules.p = p = packet.Packetizer(user, raw, hd)
            top.submodules.d = d = packet.Depacketizer(raw, user, hd)
            top.comb += p.source.connect(d.sink)
            return top, None
        return b
    _REG["packet:loopback:%d:%d" % (_dw, _len)] = _mk()


@reg("packet:fifo")
def _pfifo():
    return _top(packet.PacketFIFO(stream.EndpointDescription([("data", 16)], [("p", 5)]), 4, 2)), None


@reg("packet:arbiter")
def _parb():
    d = lambda: stream.EndpointDescription([("data", 8)], [])
    ms = [stream.Endpoint(d()) for _ in range(3)]
    s = stream.Endpoint(d())
    return _top(packet.Arbiter(list(ms), s)), None


def _wb(kind):
    def b():
        top = Module()
        top.clock_domains.cd_sys = ClockDomain("sys")
        if kind == "sram":
            top.submodules.dut = wishbone.SRAM(64, init=[i * 0x01010101 for i in range(16)], bus=wishbone.Interface(data_width=32, adr_width=8))
        elif kind == "sram_burst":
            top.submodules.dut = wishbone.SRAM(64, bus=wishbone.Interface(data_width=32, adr_width=8, bursting=True))
        elif kind == "down":
            m, s = wishbone.Interface(data_width=64, adr_width=8), wishbone.Interface(data_width=16, adr_width=10)
            top.submodules.dut = wishbone.DownConverter(m, s)
        elif kind == "up":
            m, s = wishbone.Interface(data_width=8, adr_width=10), wishbone.Interface(data_width=32, adr_width=8)
            top.submodules.dut = wishbone.UpConverter(m, s)
        elif kind == "cache":
            m, s = wishbone.Interface(data_width=32, adr_width=10), wishbone.Interface(data_width=64, adr_width=9)
            top.submodules.dut = wishbone.Cache(8, m, s)
        elif kind == "cache2":
            m, s = wishbone.Interface(data_width=64, adr_width=9), wishbone.Interface(data_width=32, adr_width=10)
            top.submodules.dut = wishbone.Cache(16, m, s, reverse=False)
        elif kind == "shared":
            ms = [wishbone.Interface(data_width=32, adr_width=10) for _ in range(2)]
            ss = [wishbone.Interface(data_width=32, adr_width=10) for _ in range(2)]
            top.submodules.dut = wishbone.InterconnectShared(ms, [((lambda a: a[8:] == 0), ss[0]), ((lambda a: a[8:] == 1), ss[1])],
                                                             register=True, timeout_cycles=8)
        elif kind == "crossbar":
            ms = [wishbone.Interface(data_width=32, adr_width=10) for _ in range(2)]
            ss = [wishbone.Interface(data_width=32, adr_width=10) for _ in range(2)]
            top.submodules.dut = wishbone.Crossbar(ms, [((lambda a: a[8:] == 0), ss[0]), ((lambda a: a[8:] == 1), ss[1])])
        elif kind == "wb2csr":
            top.submodules.dut = wishbone.Wishbone2CSR(wishbone.Interface(data_width=32, adr_width=10), csr_bus.Interface(32, 14))
        return top, None
    return b


for _k in ("sram", "sram_burst", "down", "up", "cache", "cache2", "shared", "crossbar", "wb2csr"):
    _REG["wishbone:" + _k] = _wb(_k)


def _axi(kind):
    def b():
        top = Module()
        top.clock_domains.cd_sys = ClockDomain("sys")
        L = lambda dw=32: axi.AXILiteInterface(data_width=dw, address_width=12)
        F = lambda dw=32: axi.AXIInterface(data_width=dw, address_width=12)
        if kind == "sram":
            top.submodules.dut = axi.AXILiteSRAM(64, init=[i for i in range(16)], bus=L())
        elif kind == "down":
            top.submodules.dut = axi.AXILiteDownConverter(L(64), L(16))
        elif kind == "up":
            top.submodules.dut = axi.AXILiteUpConverter(L(8), L(32))
        elif kind == "shared":
            ms, ss = [L(), L()], [L(), L()]
            top.submodules.dut = axi.AXILiteInterconnectShared(ms, [((lambda a: a[8:] == 0), ss[0]), ((lambda a: a[8:] == 1), ss[1])], timeout_cycles=8)
        elif kind == "crossbar":
            ms, ss = [L(), L()], [L(), L()]
            top.submodules.dut = axi.AXILiteCrossbar(ms, [((lambda a: a[8:] == 0), ss[0]), ((lambda a: a[8:] == 1), ss[1])])
        elif kind == "l2wb":
            top.submodules.dut = axi.AXILite2Wishbone(L(), wishbone.Interface(data_width=32, adr_width=10), base_address=0x100)
        elif kind == "wb2l":
            top.submodules.dut = axi.Wishbone2AXILite(wishbone.Interface(data_width=32, adr_width=10), L())
        elif kind == "b2b":
            from litex.soc.interconnect.axi.axi_full import ax_description
            from litex.soc.interconnect.axi.axi_stream import AXIStreamInterface
            a_ = AXIStreamInterface(layout=ax_description(12), id_width=2)
            b_ = AXIStreamInterface(layout=ax_description(12), id_width=2)
            top.submodules.dut = axi.AXIBurst2Beat(a_, b_)
        elif kind == "axi2l":
            top.submodules.dut = axi.AXI2AXILite(F(), L())
        elif kind == "fdown":
            top.submodules.dut = axi.AXIDownConverter(F(64), F(32))
        elif kind == "fup":
            top.submodules.dut = axi.AXIUpConverter(F(32), F(64))
        elif kind == "fshared":
            ms, ss = [F(), F()], [F(), F()]
            top.submodules.dut = axi.AXIInterconnectShared(ms, [((lambda a: a[8:] == 0), ss[0]), ((lambda a: a[8:] == 1), ss[1])], timeout_cycles=8)
        return top, None
    return b


for _k in ("sram", "down", "up", "shared", "crossbar", "l2wb", "wb2l", "b2b", "axi2l", "fdown", "fup", "fshared"):
    _REG["axi:" + _k] = _axi(_k)


def _csr(dw, ordering):
    def b():
        class Per(Module, AutoCSR):
            def __init__(self):
                self._a = CSRStorage(3 * dw + 5, reset=0x1234567, atomic_write=True, name="a")
                self._b = CSRStorage(fields=[CSRField("x", size=3, offset=1, reset=5), CSRField("p", size=1, offset=6, pulse=True)], name="b")
                self._c = CSRStatus(dw + 3, name="c")
                self._d = CSRStorage(7, write_from_dev=True, name="d")
                self._e = CSR(5, name="e")
                self.mem = Memory(32, 8, init=[i * 3 for i in range(8)], name="mem")
                self.specials += self.mem
        top = Module()
        top.clock_domains.cd_sys = ClockDomain("sys")
        top.submodules.per = Per()
        pages = {}

        def amap(name, memory):
            return pages.setdefault((name, memory is not None), len(pages))
        top.submodules.banks = banks = csr_bus.CSRBankArray(top, amap, data_width=dw, address_width=14, paging=0x800, ordering=ordering)
        m = csr_bus.Interface(data_width=dw, address_width=14)
        top.submodules.ic = csr_bus.Interconnect(m, banks.get_buses())
        return top, None
    return b


for _dw, _o in [(8, "big"), (32, "big"), (8, "little"), (32, "little")]:
    _REG["csr:bank:%d:%s" % (_dw, _o)] = _csr(_dw, _o)


@reg("csr:eventmanager")
def _evm():
    class Per(Module, AutoCSR):
        def __init__(self):
            self.ev = EventManager()
            self.ev.a = EventSourcePulse(name="a")
            self.ev.b = EventSourceProcess(name="b", edge="rising")
            self.ev.c = EventSourceProcess(name="c", edge="falling")
            self.ev.d = EventSourceLevel(name="d")
            self.ev.finalize()
    top = Module()
    top.clock_domains.cd_sys = ClockDomain("sys")
    top.submodules.per = per = Per()
    top.submodules.bank = csr_bus.CSRBank(per.get_csrs(), 0, bus=csr_bus.Interface(8, 14))
    return top, None


@reg("core:timer")
def _timer():
    top = Module()
    top.clock_domains.cd_sys = ClockDomain("sys")
    top.submodules.t = t = Timer()
    top.submodules.bank = csr_bus.CSRBank(t.get_csrs(), 0, bus=csr_bus.Interface(32, 14))
    return top, None


@reg("core:uart_phy")
def _uart():
    class Pads:
        def __init__(self):
            self.tx, self.rx = Signal(name="pad_tx"), Signal(name="pad_rx")
    top = Module()
    top.clock_domains.cd_sys = ClockDomain("sys")
    pads = Pads()
    tuning = Signal(32, reset=int((1 / 8) * 2**32), name="tuning")
    top.submodules.tx = RS232PHYTX(pads, tuning)
    top.submodules.rx = RS232PHYRX(pads, tuning)
    return top, None


@reg("core:spi_master")
def _spi():
    class Pads:
        def __init__(self):
            self.clk, self.cs_n, self.mosi, self.miso = Signal(name="p_clk"), Signal(name="p_cs_n"), Signal(name="p_mosi"), Signal(name="p_miso")
    top = Module()
    top.clock_domains.cd_sys = ClockDomain("sys")
    top.submodules.spi = SPIMaster(Pads(), data_width=8, sys_clk_freq=8e6, spi_clk_freq=1e6, with_csr=False)
    return top, None


@reg("core:8b10b")
def _8b10b():
    top = Module()
    top.clock_domains.cd_sys = ClockDomain("sys")
    top.submodules.enc = enc = code_8b10b.Encoder(2, True)
    top.submodules.dec0 = d0 = code_8b10b.Decoder(True)
    top.submodules.dec1 = d1 = code_8b10b.Decoder(True)
    top.comb += [d0.input.eq(enc.output[0]), d1.input.eq(enc.output[1])]
    return top, None


@reg("core:8b10b_stream")
def _8b10bs():
    top = Module()
    top.clock_domains.cd_sys = ClockDomain("sys")
    top.submodules.enc = enc = code_8b10b.StreamEncoder(2)
    top.submodules.dec = dec = code_8b10b.StreamDecoder(2)
    top.comb += enc.source.connect(dec.sink)
    return top, None


for _k in (4, 15, 32, 64):
    def _mk(k=_k):
        def b():
            top = Module()
            top.clock_domains.cd_sys = ClockDomain("sys")
            top.submodules.enc = enc = ecc.ECCEncoder(k)
            top.submodules.dec = dec = ecc.ECCDecoder(k)
            flip = Signal(len(enc.o), name="flip")
            top.comb += dec.i.eq(enc.o ^ flip)
            return top, None
        return b
    _REG["core:ecc:%d" % _k] = _mk()


@reg("misc:waittimer")
def _wt():
    return _top(WaitTimer(11)), None


def _cdc(kind):
    def b():
        top = Module()
        top.clock_domains.cd_a = ClockDomain("a")
        top.clock_domains.cd_b = ClockDomain("b")
        if kind == "asyncfifo":
            top.submodules.dut = ClockDomainsRenamer({"write": "a", "read": "b"})(stream.AsyncFIFO([("data", 8)], 4))
        elif kind == "cdc":
            top.submodules.dut = stream.ClockDomainCrossing(sl.desc("ab"), "a", "b", depth=8, buffered=True)
        elif kind == "bussync":
            top.submodules.dut = BusSynchronizer(5, "a", "b", timeout=16)
        elif kind == "axilcdc":
            m = axi.AXILiteInterface(data_width=32, address_width=12)
            s = axi.AXILiteInterface(data_width=32, address_width=12)
            top.submodules.dut = axi.AXILiteClockDomainCrossing(m, s, "a", "b")
        return top, None
    return b


for _k in ("asyncfifo", "cdc", "bussync", "axilcdc"):
    _REG["cdc:" + _k] = _cdc(_k)


def names():
    return sorted(_REG)


def get(name):
    return _REG[name]
