"""C02 - Verilog identifiers are unique, legal and reproducible.

Runtime monitoring of the real namer: generated hostile designs (real Python source, exec'd) are
named by litex.gen.fhdl.namer and converted by litex.gen.fhdl.verilog.convert while icontract
postconditions on SignalNamespace.get_name / build_signal_namespace and checker code over the
emitted text observe the results (props/c02lib.py). Reproducibility is decided by converting the
same design script in fresh processes with different PYTHONHASHSEED values.

Workload classes (a known finding can only show in the class whose generator can trigger it):
  plain     benign names only (equal names, equal overrides, repeated hierarchies) -> must be clean
  digits    + digit-suffixed siblings (x0 x1 x10 sub0 ...)                          -> must be clean
  suffix    + literal names that look like generated ones (x_1, x_1_1, mem_adr0, mem_1 ...)
  reserved  + every word of the independent IEEE 1364-2005 / 1800-2017 keyword list (no x_1 names)
  underscore + names with leading underscores (_x __x _0 _3v3 _1wire): the tracer strips one underscore
  mixed     everything together
  determinism   fresh-process conversions of designs of all classes above, PYTHONHASHSEED varied
  determinism_special_outs   many instances whose output-only signals share one name_override, created between
            other signals (duids a power of two apart): which of them gets which suffix must not depend on the run
  boundary  what the API accepts beyond the property's quantifier (recorded, never a verdict)
"""
import os
import re
import json
import traceback
import subprocess

from lib.collect import Collector, rng_for
from lib.models.verilog_keywords import KEYWORDS, is_legal_identifier
from props import c02lib as L

LEVEL = "exploration"
RULE = ("one case = one design generated from a seeded rng as Python source and exec'd (Module classes nested 1-5 deep, repeated "
        "class names, attribute / local / name= / anonymous / list / Record / related= signals, name_override and Memory / "
        "Instance / Record / class / submodule names drawn from a per-design working set of 8-20 names of the class's pool with "
        "most overrides from one small family, memories with 1-3 ports, instances with in/out/inout pins, tuple attributes, "
        "1-2 clock domains, IO signals named from back-traces) x tracer shim on/off. Namespace level: the real "
        "build_signal_namespace on the design's signal set, names requested in 6 orders on fresh namespaces with the real "
        "memory/instance emitters interleaved, every name requested twice. Conversion level: the real convert() (synth or sim comb "
        "style), declarations parsed from the text and matched 1:1 with the objects of the namespace. Determinism: the same "
        "script converts 4 designs in 3 fresh processes (PYTHONHASHSEED 0/1/random), texts compared after blanking the two "
        "timestamp lines; special-outs designs run 6 times (hash seed 0 three times). Non-trivial = >= 5 named objects and at least "
        "two objects sharing a base name (determinism: texts compared); distinct = distinct case digests")
ASSUMPTIONS = ["migen tracer shim (names only); every class runs with the shim on and off",
               "legality is judged against lib/models/verilog_keywords.py (independent transcription of IEEE 1364-2005 and "
               "IEEE 1800-2017 Annex B) and the simple-identifier syntax [A-Za-z_][A-Za-z0-9_$]*",
               "names that migen's Signal() constructor rejects (leading digit, blanks, non-ASCII) are outside the property's "
               "quantifier; Memory(name=)/Instance(name=)/post-construction name_override accept them unchecked and they are "
               "emitted verbatim: recorded under observed.api_boundary, not judged",
               "reproducibility = same script, fresh interpreter, different PYTHONHASHSEED (object addresses vary with it too)"]
FLOORS = {"quick": {"names_checked": 2000000, "namespaces_built": 20000, "contract_evaluations": 4000000, "conversions": 600,
                    "texts_compared": 250, "fresh_process_runs": 150, "request_orders": 20000, "declarations_matched": 15000,
                    "n_override_kinds": 8, "n_hierarchy_depths": 5, "n_shim": 2, "n_reserved_words_used": 248,
                    "helper_signals_named": 3000, "memories_named": 2000, "instances_named": 2000, "equal_base_name_groups": 3000},
          "thorough": {"names_checked": 25000000, "namespaces_built": 250000, "contract_evaluations": 50000000, "conversions": 6000,
                       "texts_compared": 1800, "fresh_process_runs": 800, "request_orders": 250000, "declarations_matched": 200000,
                       "n_override_kinds": 8, "n_hierarchy_depths": 5, "n_shim": 2, "n_reserved_words_used": 248,
                       "helper_signals_named": 40000, "memories_named": 30000, "instances_named": 25000,
                       "equal_base_name_groups": 40000}}
SHARD_TIMEOUT = {"quick": 900, "thorough": 3000}
N_SAMPLES = 8

VERIF_ROOT = os.path.dirname(os.path.dirname(os.path.abspath(__file__)))
PY = "/venv/bin/python"
SIZES = {"quick": {"ns": 240, "conv": 96, "det": 48, "shards": 8, "det_shards": 16, "detso": 8, "detso_shards": 8},
         "thorough": {"ns": 3000, "conv": 1200, "det": 300, "shards": 16, "det_shards": 32, "detso": 48, "detso_shards": 16}}


# the determinism class converts designs of the classes whose conversion is expected to be clean or collide only
# (leading-underscore names make the memory emitter raise; that has nothing to do with reproducibility)
DET_PROFILES = ("plain", "digits", "suffix", "reserved", "mixed")


# ------------------------------------------------------------------------------------------------
def plan(tier, seed):
    z = SIZES.get(tier, SIZES["quick"])
    shards = []
    for prof in L.PROFILES:
        cases = []
        for k in range(z["ns"]):
            cases.append({"seed": "%d/C02/%s/ns/%d" % (seed, prof, k), "level": "ns", "profile": prof, "k": k, "shim": k % 2 == 0})
        for k in range(z["conv"]):
            cases.append({"seed": "%d/C02/%s/conv/%d" % (seed, prof, k), "level": "conv", "profile": prof, "k": k,
                          "shim": k % 2 == 1})
        n = z["shards"]
        for i in range(n):
            shards.append({"id": "h-%s%02d" % (prof, i), "cls": prof, "cases": cases[i::n]})
    det = []
    for k in range(z["det"]):
        r = rng_for(seed, "C02/det", k)
        det.append({"seed": "%d/C02/det/%d" % (seed, k), "level": "det", "k": k,
                    "hashseeds": ["0", "1", str(r.randrange(2, 1 << 31))],
                    "designs": [{"profile": DET_PROFILES[(k + i) % len(DET_PROFILES)], "shim": (k + i) % 2 == 0} for i in range(4)]})
    n = z["det_shards"]
    for i in range(n):
        shards.append({"id": "r-determinism%02d" % i, "cls": "determinism", "cases": det[i::n]})
    dso = [{"seed": "%d/C02/detso/%d" % (seed, k), "level": "det", "k": k, "template": "special_outs",
            "hashseeds": ["0", "0", "0", "1", "2", str(rng_for(seed, "C02/detso", k).randrange(3, 1 << 31))],
            "designs": [{"shim": k % 2 == 0}]}
           for k in range(z["detso"])]
    n = z["detso_shards"]
    for i in range(n):
        shards.append({"id": "r-detspecials%02d" % i, "cls": "determinism_special_outs", "cases": dso[i::n]})
    shards.append({"id": "z-boundary00", "cls": "boundary",
                   "cases": [{"seed": "%d/C02/boundary/%d" % (seed, k), "level": "boundary", "k": k} for k in range(len(BOUNDARY))]})
    return sorted(shards, key=lambda s: (not s["id"].startswith("r-detspecials"), not s["id"].startswith("r-"), s["id"]))


# ------------------------------------------------------------------------------------------------
def _emit(col, case, design, entries):
    """one violation per mechanism key and case (the first witness carries the count)"""
    by = {}
    for e in entries:
        by.setdefault(e["key"], []).append(e)
    wcase = dict(case)
    if design is not None:
        wcase["design"] = design                 # expanded stimulus: a replay does not depend on the generator
    for key, es in sorted(by.items()):
        w = dict(es[0].get("witness") or {}) if isinstance(es[0].get("witness"), dict) else {"detail": es[0].get("witness")}
        w["occurrences_in_case"] = len(es)
        col.violation(key, wcase, es[0]["what"], w)


def _flush_counters(col):
    ev, n, o, c = L.MON.counters()
    col.ev("contract_evaluations", sum(ev.values()))
    for k, v in ev.items():
        col.count("evaluations/" + k, v)
    col.ev("names_checked", n)
    col.ev("namespaces_built", o)
    col.ev("request_orders", o)
    col.count("name_dict_collisions_absorbed_by_counter", c)


def _cover_design(col, case, design):
    col.cov("hierarchy_depths", design["depth"])
    col.cov("shim", "on" if case["shim"] else "off")
    ovr = [it["ovr"] for c in design["classes"] for it in c["items"] if it.get("ovr") is not None]
    for o in ovr:
        col.cov("override_kinds", L.name_kind(o))
    if len(ovr) != len(set(ovr)):
        col.cov("override_kinds", "equal_overrides")
    for c in design["classes"]:
        col.cov("name_channels", "class:" + L.name_kind(c["cname"].lower()))
        for it in c["items"]:
            if it["t"] == "sig":
                col.cov("name_channels", "signal-" + it["how"] + ":" + L.name_kind(it["attr"]))
                if it.get("rel") is not None:
                    col.cov("name_channels", "related=")
            elif it["t"] in ("mem", "inst") and it.get("name") is not None:
                col.cov("name_channels", it["t"] + "-name=:" + L.name_kind(it["name"]))
            elif it["t"] in ("rec", "sub", "siglist"):
                col.cov("name_channels", it["t"] + "-" + it.get("how", "list") + ":" + L.name_kind(it["attr"]))


def _named_objects_stats(col, ns, signals):
    from migen.fhdl.specials import Memory, Instance
    from migen.fhdl.structure import Signal
    groups = {}
    for o in ns.sigs:
        b = L.base_name(ns, o)
        groups.setdefault(b, []).append(o)
        if b in KEYWORDS:
            col.cov("reserved_words_used", b)
        if isinstance(o, Memory):
            col.ev("memories_named")
        elif isinstance(o, Instance):
            col.ev("instances_named")
        elif isinstance(o, Signal) and o not in signals:            # created by the memory emitter
            col.ev("helper_signals_named")
    shared = sum(1 for g in groups.values() if len(g) > 1)
    col.ev("equal_base_name_groups", shared)
    return len(ns.sigs), shared


def _independent_injectivity(ns, entries, order):
    """belt and braces next to the contracts: the final map of one namespace must be injective"""
    owner = {}
    for o in list(ns.sigs):
        n = L.RAW["get_name"](ns, o)
        p = owner.setdefault(n, o)
        if p is not o:
            entries.append({"key": L.collision_key(ns, p, o, n), "what": "two different objects were both named %r" % n,
                            "witness": {"name": n, "first": L.describe(ns, p, n), "second": L.describe(ns, o, n), "order": order}})
    return owner


def _sample(case, design, b, ns):
    rows = [[type(o).__name__, L.base_name(ns, o), L.RAW["get_name"](ns, o)] for o in list(ns.sigs)[:24]]
    return {"case": {k: case[k] for k in ("seed", "level", "profile", "shim")}, "depth": design["depth"],
            "classes": [[c["cname"], c["level"], [it["t"] + ":" + str(it.get("attr") or it.get("of")) for it in c["items"]]]
                        for c in design["classes"]],
            "working_set": design["names"], "source_head": b.src.split("\n")[4:30], "names(kind, base, final)": rows}


# ------------------------------------------------------------------------------------------------
def run_ns_case(col, case):
    from litex.gen.fhdl import namer, verilog, memory, instance
    from migen.fhdl.tools import list_signals, list_special_ios
    from migen.fhdl.specials import Memory, Instance
    from migen.fhdl.structure import ClockSignal
    L.install()
    L.MON.seed = case["seed"]
    L.MON.capture = False
    design = case.get("design") or L.gen_design(case["seed"], case["profile"], "m", case["k"])
    b = L.build(design, case["shim"])
    _cover_design(col, case, design)
    f = b.top.get_fragment()
    ios = set(b.ios)
    if design["io_override"]:                                        # what convert() does to its ios
        col.cov("override_kinds", "io_from_backtrace")
        for io in sorted(ios, key=lambda x: x.duid):
            if io.name_override is None and io.backtrace and io.backtrace[-1][0]:
                io.name_override = io.backtrace[-1][0]
    signals = list_signals(f) | list_special_ios(f, ins=True, outs=True, inouts=True) | ios
    mems = sorted([s for s in f.specials if isinstance(s, Memory)], key=lambda x: x.duid)
    insts = sorted([s for s in f.specials if isinstance(s, Instance)], key=lambda x: x.duid)
    reserved = verilog._ieee_1800_2017_verilog_reserved_keywords       # exactly what convert() passes
    cds = {cd.name: cd for cd in f.clock_domains}
    for m in mems:                                                     # what lower_basics() does before emission
        for p in m.ports:
            if isinstance(p.clock, ClockSignal):
                p.clock = cds[p.clock.cd].clk
    rng = rng_for(case["seed"], "orders")
    base = [("sig", s) for s in signals]
    spec = [("mem", m) for m in mems] + [("inst", i) for i in insts]
    by_duid = sorted(base, key=lambda x: x[1].duid)
    orders = [("emitter-like", base + spec), ("reversed", (base + spec)[::-1]), ("specials-first", spec + by_duid),
              ("overrides-last", sorted(base, key=lambda x: (x[1].name_override is not None, x[1].duid)) + spec)]
    for i in range(2):
        sh = base + spec
        rng.shuffle(sh)
        orders.append(("shuffle%d" % i, sh))
    entries = []
    sample = None
    nobj = shared = 0
    for oname, seq in orders:
        try:
            ns = namer.build_signal_namespace(signals, reserved)
            ns.clock_domains = cds
            for kind, obj in seq:
                if kind == "sig":
                    ns.get_name(obj)
                elif kind == "mem":
                    memory._memory_generate_verilog("top", obj, ns, lambda fn, content: fn)
                else:
                    instance._instance_generate_verilog(obj, ns, lambda fn, content: fn)
            for o in reversed(list(ns.sigs)):                              # second request: stability contract
                ns.get_name(o)
        except Exception as e:
            entries.append(L.exception_entry(e, "namespace level, request order %s" % oname))
            continue
        col.ev("namespaces_built")
        col.ev("request_orders")
        _independent_injectivity(ns, entries, oname)
        if oname == "emitter-like":
            nobj, shared = _named_objects_stats(col, ns, signals)
            sample = _sample(case, design, b, ns)
    log, _ = L.MON.drain()
    _flush_counters(col)
    _emit(col, case, design, log + entries)
    col.case_done(case, nontrivial=nobj >= 5 and shared >= 1, sample=sample)


def run_conv_case(col, case):
    from collections import Counter
    from litex.gen.fhdl import verilog
    from migen.fhdl.specials import Memory, Instance
    L.install()
    L.MON.seed = case["seed"]
    design = case.get("design") or L.gen_design(case["seed"], case["profile"], "s", case["k"])
    b = L.build(design, case["shim"])
    _cover_design(col, case, design)
    col.cov("override_kinds", "io_from_backtrace")
    entries = []
    L.MON.capture = True
    try:
        r = verilog.convert(b.top, ios=set(b.ios), name="top", regular_comb=design.get("regular_comb", True))
    except Exception as e:
        entries.append(L.exception_entry(e, "convert()"))
        r = None
    finally:
        L.MON.capture = False
    log, builds = L.MON.drain()
    if r is not None:
        col.ev("conversions")
        col.cov("comb_style", "synth" if design.get("regular_comb", True) else "sim")
        ns, text = r.ns, r.main_source
        captured = [x for x in builds if x]
        owner = _independent_injectivity(ns, entries, "convert")
        for o in list(ns.sigs):
            ns.get_name(o)                                                  # stability contract on the real namespace
        if captured:
            for s in captured[-1][0]:
                if s not in ns.sigs:
                    entries.append({"key": "text/signal-of-the-fragment-never-named", "what": "a signal passed to "
                                    "build_signal_namespace was never emitted", "witness": L.describe(ns, s)})
        else:
            col.inconc(case, "convert() did not go through the monitored build_signal_namespace")
        decls, bad = L.parse_declarations(text)
        for ln, l in bad:
            entries.append({"key": "text/declaration-not-parseable", "what": "line %d: %r" % (ln, l), "witness": {"line": l}})
        cnt = Counter(n for _, n, _ in decls)
        kind_of = {}
        for k, n, _ in decls:
            kind_of.setdefault(n, k)
        holders = {}
        for o in ns.sigs:
            holders.setdefault(L.RAW["get_name"](ns, o), []).append(o)
        for n, c in sorted(cnt.items()):
            col.ev("declarations_matched")
            if not is_legal_identifier(n):
                entries.append({"key": L.legal_key(n),
                                "what": "declared identifier %r is not a simple Verilog identifier" % n, "witness": {"name": n}})
            elif n in KEYWORDS:
                entries.append({"key": L.reserved_key(n), "what": "the reserved word %r is declared as a %s" % (n, kind_of[n]),
                                "witness": {"keyword": n, "declared_as": kind_of[n]}})
            hs = holders.get(n, [])
            if c > 1:
                lines = [ln for _, m, ln in decls if m == n]
                if len(hs) > 1:
                    entries.append({"key": L.collision_key(ns, hs[0], hs[1], n),
                                    "what": "identifier %r is declared %d times (lines %s): two objects share it" % (n, c, lines),
                                    "witness": {"name": n, "lines": lines, "first": L.describe(ns, hs[0], n),
                                                "second": L.describe(ns, hs[1], n)}})
                else:
                    entries.append({"key": "text/identifier-declared-twice", "what": "identifier %r is declared %d times (lines %s) "
                                    "for one object" % (n, c, lines), "witness": {"name": n, "lines": lines}})
            if not hs:
                entries.append({"key": "text/declared-identifier-unknown-to-namespace", "what": "%r is declared but no object "
                                "of the namespace has this name" % n, "witness": {"name": n}})
            elif len(hs) == 1:
                o = hs[0]
                want = "memory" if isinstance(o, Memory) else "instance" if isinstance(o, Instance) else None
                if (want is not None and kind_of[n] != want) or (want is None and kind_of[n] in ("memory", "instance")):
                    entries.append({"key": "text/object-declared-as-wrong-kind", "what": "%r: %s declared as %s"
                                    % (n, type(o).__name__, kind_of[n]), "witness": L.describe(ns, o, n)})
        for n, hs in holders.items():
            if n not in cnt:
                entries.append({"key": "text/named-object-not-declared", "what": "object named %r has no declaration in the text" % n,
                                "witness": L.describe(ns, hs[0], n)})
        nobj, shared = _named_objects_stats(col, ns, captured[-1][0] if captured else set())
        sample = _sample(case, design, b, ns)
        sample["declarations"] = len(decls)
    else:
        nobj = shared = 0
        sample = None
    _flush_counters(col)
    _emit(col, case, design, log + entries)
    col.case_done(case, nontrivial=nobj >= 5 and shared >= 1, sample=sample)


# ------------------------------------------------------------------------------------------------
def run_det_case(col, case):
    designs = case.get("expanded")
    if designs is None and case.get("template") == "special_outs":
        designs = [{"design": L.gen_special_outs(case["seed"]), "shim": case["designs"][0]["shim"]}]
    if designs is None:
        designs = [{"design": L.gen_design("%s/%d" % (case["seed"], i), d["profile"], "s", case["k"] * 4 + i), "shim": d["shim"]}
                   for i, d in enumerate(case["designs"])]
    job = json.dumps({"designs": designs})
    runs = []
    for hs in case["hashseeds"]:
        env = dict(os.environ)
        env.update({"PYTHONHASHSEED": hs, "PYTHONPATH": VERIF_ROOT, "PYTHONDONTWRITEBYTECODE": "1"})
        try:
            p = subprocess.run([PY, "-B", "-m", "props.c02lib"], input=job, text=True, capture_output=True, timeout=600,
                               cwd=VERIF_ROOT, env=env)
        except subprocess.TimeoutExpired:
            col.inconc(case, "conversion script timed out (PYTHONHASHSEED=%s)" % hs)
            return
        if p.returncode != 0:
            col.inconc(case, "conversion script rc=%s: %s" % (p.returncode, p.stderr[-800:]))
            return
        runs.append(json.loads(p.stdout)["out"])
        col.ev("fresh_process_runs")
    wcase = dict(case, expanded=designs)
    nontrivial = False
    for i in range(len(designs)):
        outs = [r[i] for r in runs]
        errs = [o.get("error") for o in outs]
        if any(errs):
            if all(errs) and len({e["key"] for e in errs}) == 1:
                if errs[0]["key"] is None:
                    col.inconc(case, "design %d: harness exception in the conversion script: %s" % (i, errs[0]["what"]))
                else:                                   # back-traces differ from the worker's: report here as well
                    col.violation(errs[0]["key"], dict(wcase, design=designs[i]["design"], shim=designs[i]["shim"]),
                                  "fresh process: " + errs[0]["what"], errs[0]["witness"])
            elif all(errs):
                col.violation("reproducibility/outcome-differs-between-runs", wcase, "design %d raises different exceptions "
                              "under different PYTHONHASHSEED values" % i, {"design_index": i, "errors": errs})
            else:
                col.violation("reproducibility/outcome-differs-between-runs", wcase,
                              "design %d converts under some PYTHONHASHSEED values and raises under others" % i,
                              {"design_index": i, "errors": errs, "hashseeds": case["hashseeds"]})
            continue
        col.ev("conversions", len(outs))
        col.cov("shim", "on" if designs[i]["shim"] else "off")
        texts = [L.strip_timestamps(o["text"]) for o in outs]
        if any(t.count("<timestamp>") != 2 for t in texts) or "module top" not in texts[0]:
            col.inconc(case, "emitted text does not have the expected two timestamp lines / module header")
            continue
        nontrivial = True
        for j in range(1, len(outs)):
            col.ev("texts_compared")
            if texts[j] != texts[0]:
                a, bb = texts[0].split("\n"), texts[j].split("\n")
                diff = [(n + 1, x, y) for n, (x, y) in enumerate(zip(a, bb)) if x != y][:8]
                n0, nj = dict(map(tuple, outs[0]["names"])), dict(map(tuple, outs[j]["names"]))
                moved = sorted(d for d in n0 if nj.get(d) != n0[d])
                if moved and sorted(n0.values()) == sorted(nj.values()):
                    key = "reproducibility/suffix-assignment-differs-between-runs"     # same names, other owners
                elif moved:
                    key = "reproducibility/names-differ-between-runs"
                elif sorted(a) == sorted(bb):
                    key = "reproducibility/line-order-differs-between-runs"
                else:
                    key = "reproducibility/text-differs-between-runs"
                col.violation(key, wcase, "design %d: text under PYTHONHASHSEED=%s differs from PYTHONHASHSEED=%s at %d lines "
                              "(first: line %d)" % (i, case["hashseeds"][j], case["hashseeds"][0],
                                                    sum(1 for x, y in zip(a, bb) if x != y) + abs(len(a) - len(bb)),
                                                    diff[0][0] if diff else min(len(a), len(bb)) + 1),
                              {"design_index": i, "hashseeds": [case["hashseeds"][0], case["hashseeds"][j]],
                               "first_differences(line, run0, runj)": diff, "shim": designs[i]["shim"],
                               "objects_named_differently(duid, run0, runj)": [[d, n0[d], nj.get(d)] for d in moved[:6]],
                               "n_objects_named_differently": len(moved)})
            elif outs[j]["request_order"] != outs[0]["request_order"]:
                col.count("same_text_but_names_first_requested_in_another_order")     # hazard indicator, not a verdict
            if outs[j]["data_files"] != outs[0]["data_files"]:
                col.violation("reproducibility/data-files-differ-between-runs", wcase, "design %d" % i, {"design_index": i})
    col.case_done(case, nontrivial=nontrivial,
                  sample={"case": {"seed": case["seed"], "hashseeds": case["hashseeds"]},
                          "designs": [[d["design"]["profile"], d["shim"], d["design"]["depth"]] for d in designs],
                          "text_lines": [len(o.get("text", "").split("\n")) for o in runs[0]]})


# ------------------------------------------------------------------------------------------------
# boundary probes: what the API accepts beyond the property's quantifier. Observations only.
def _b_signal_ctor():
    from migen import Signal
    res = []
    for n in ("9x", "a b", "a-b", "x$y", "é"):
        try:
            Signal(name_override=n)
            res.append("Signal(name_override=%r): accepted" % n)
        except ValueError:
            res.append("Signal(name_override=%r): rejected by the constructor" % n)
    return res


def _b_convert(src, ios_expr="set()", shim=True):
    from lib import tracer312
    from litex.gen.fhdl import verilog
    (tracer312.install if shim else tracer312.uninstall)()
    try:
        g = {}
        exec(compile("from migen import *\nfrom migen.fhdl.specials import Memory, Instance\n" + src, "<c02-boundary>", "exec"), g)
        top = g["Top"]()
        ios = {top.cd_sys.clk, top.cd_sys.rst} | eval(ios_expr, {"top": top})
        r = verilog.convert(top, ios=ios)
    finally:
        tracer312.install()
    return [L.RAW["get_name"](r.ns, o) for o in r.ns.sigs], r.main_source


_HDR = "class Top(Module):\n    def __init__(self):\n        self.clock_domains.cd_sys = ClockDomain('sys')\n"


def _b_memory_name():
    names, _ = _b_convert(_HDR + "        self.specials.m = Memory(8, 4, name='9 x')\n        p = self.m.get_port()\n"
                          "        self.specials += p\n        self.a = Signal(2)\n        self.comb += p.adr.eq(self.a)\n")
    return ["Memory(name='9 x'): accepted, emitted as %r" % [n for n in names if "9" in n]]


def _b_instance_name():
    names, _ = _b_convert(_HDR + "        self.a = Signal()\n        self.specials += Instance('PRIM', name='u-0', i_a=self.a)\n")
    return ["Instance(name='u-0'): accepted, emitted as %r" % [n for n in names if "u" in n]]


def _b_post_override():
    names, _ = _b_convert(_HDR + "        self.a = Signal()\n        self.b = Signal()\n        self.a.name_override = '1a'\n"
                          "        self.comb += self.b.eq(self.a)\n")
    return ["sig.name_override = '1a' after construction: accepted, emitted as %r" % [n for n in names if "1a" in n]]


def _b_unicode_attr():
    names, _ = _b_convert(_HDR + "        self.é = Signal()\n        self.b = Signal()\n        self.comb += self.b.eq(self.é)\n")
    return ["non-ASCII attribute name (tracer shim on): emitted as %r" % [n for n in names if not is_legal_identifier(n)]]


BOUNDARY = [_b_signal_ctor, _b_memory_name, _b_instance_name, _b_post_override, _b_unicode_attr]


def run_boundary_case(col, case):
    L.install()
    fn = BOUNDARY[case["k"]]
    try:
        obs = fn()
    except Exception as e:
        obs = ["%s: raised %s: %s" % (fn.__name__, type(e).__name__, str(e)[:200])]
    log, _ = L.MON.drain()
    L.MON.counters()
    for o in obs:
        col.cov("api_boundary", o)
    for k in sorted({e["key"] for e in log}):
        col.cov("api_boundary", "%s: monitor would report %s" % (fn.__name__, k))
    col.count("boundary_probes", 1)
    col.case_done(case, nontrivial=False)


# ------------------------------------------------------------------------------------------------
RUNNERS = {"ns": run_ns_case, "conv": run_conv_case, "det": run_det_case, "boundary": run_boundary_case}


def run_shard(shard):
    col = Collector(shard["cls"], max_samples=1 if shard["id"].endswith("00") else 0)    # one sample per class in evidence
    for case in shard["cases"]:
        col.guard(case, RUNNERS[case["level"]], col, case)
        L.MON.drain()
    return col.result()
