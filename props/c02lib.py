"""C02 support: hostile design generator (real Python source, exec'd, so the migen tracer sees real
byte code), runtime contracts on the real namer (icontract), declaration parser for the emitted
Verilog, and the script mode used for the fresh-process reproducibility runs.

Nothing here re-implements the namer: every name comes from litex.gen.fhdl.namer / verilog /
memory / instance of the tree under test. The only independent knowledge is (1) what a legal,
non-reserved Verilog identifier is (lib/models/verilog_keywords.py) and (2) the shape of a
declaration in the text LiteX emits.
"""
import re
import sys
import json
import keyword
import traceback

from lib.collect import rng_for
from lib.models.verilog_keywords import KEYWORDS, KEYWORD_LIST, IEEE_1364_2005, is_legal_identifier

PROFILES = ("plain", "digits", "suffix", "reserved", "underscore", "mixed")

# ------------------------------------------------------------------------------------------------
# name pools
# ------------------------------------------------------------------------------------------------
PLAIN = ("data valid ready addr count state sink source ctrl bus fifo level din dout en stb ack sel flag "
         "core lane phy mac tx rx cfg irq ptr dat adr we q d mem sub top x y clk rst").split()
CLASSNAMES = "Core Lane Phy Fifo Ctrl Top Sub Mac".split()
DIGIT_BASES = ["x", "lane", "sub", "d", "mem", "core"]
DIGITS = [b + s for b in DIGIT_BASES for s in ("0", "1", "2", "10", "00", "01", "11")]
SUFFIX_BASES = ["x", "mem", "sub", "d", "sys_clk", "data", "core", "q"]
SUFFIX_FORMS = ["", "_1", "_2", "_3", "_1_1", "_1_2", "_2_1", "_0", "_01", "_10", "0", "1", "0_1", "1_1"]
MEM_HELPER = ["mem_adr0", "mem_dat0", "mem_adr1", "mem_dat1", "mem_1", "mem_2", "mem_1_adr0", "mem_1_dat0",
              "mem_adr0_1", "mem_dat0_1", "memadr", "memdat", "memadr_1", "slice_proxy", "slice_proxy_1",
              "PRIM", "PRIM_1", "sys_clk_1", "sys_rst_1", "sys_rst"]
UNDERSCORE = ["_", "_x", "__x", "x_", "x__1", "__1", "x_1_"]           # nothing the tracer can turn into a leading digit
# migen's tracer drops one leading underscore of names longer than two characters (remove_underscore)
LEADING = ["_0", "_1", "_3v3", "_100mhz", "_0x", "_2b", "__x1", "_x1", "_abc", "__abc", "_", "_x", "_1wire", "_data", "_q"]
for _a in LEADING:                                     # no member is another member plus a generated _<n> suffix
    assert not any(_a != _b and _a.startswith(_b + "_") and _a[len(_b) + 1:].isdigit() for _b in LEADING), _a
SUFFIX_RE = re.compile(r"_[0-9]+\Z")
DIGIT_RE = re.compile(r"[0-9]\Z")

for _n in PLAIN + [c.lower() for c in CLASSNAMES]:
    assert _n not in KEYWORDS and not DIGIT_RE.search(_n), _n
for _n in DIGITS:
    assert _n not in KEYWORDS and not SUFFIX_RE.search(_n), _n


def name_kind(n):
    if n in KEYWORDS:
        return "reserved"
    if n in MEM_HELPER:
        return "generated_helper_name"
    if n in UNDERSCORE or n in LEADING:
        return "underscores"
    if SUFFIX_RE.search(n):
        return "suffix_like"
    if DIGIT_RE.search(n):
        return "digit_sibling"
    return "plain"


def _py_ok(n):
    """usable as a Python attribute / variable in generated source"""
    return n.isidentifier() and not keyword.iskeyword(n) and n not in ("self", "S", "P", "None", "True", "False")


def working_set(rng, profile, k):
    """(ws, hot, must): the 8..20 names one design draws all its naming decisions from (small => many equal names) and
    the small family most name_overrides come from"""
    ws = rng.sample(PLAIN, rng.randint(3, 6))
    hot = rng.sample(ws, 3)
    must = []
    if profile in ("digits", "mixed"):
        b = rng.choice(DIGIT_BASES)
        fam = [b] + rng.sample([d for d in DIGITS if d.startswith(b)], rng.randint(2, 4))
        ws += fam + rng.sample(DIGITS, 2)
        hot = fam
    if profile in ("suffix", "mixed"):
        ws += rng.sample(MEM_HELPER, rng.randint(1, 3))
        if rng.random() < 0.3:
            ws += rng.sample(UNDERSCORE, 2)
        hot = []
        for b in rng.sample(SUFFIX_BASES, rng.randint(1, 2)):
            fam = [b, b + "_1"] + [b + f for f in rng.sample(SUFFIX_FORMS[2:], rng.randint(1, 4))]
            ws += fam
            hot += [b] + fam                                           # the base twice: equal names are what makes suffixes
        if rng.random() < 0.4:
            hot += rng.sample(MEM_HELPER, 2)
    if profile == "underscore":
        hot = rng.sample(LEADING, rng.randint(3, 5))
        ws += hot + rng.sample(LEADING, 2)
    if profile in ("reserved", "mixed"):
        n = len(KEYWORD_LIST)
        must = [KEYWORD_LIST[(k * 5 + i) % n] for i in range(5)]       # every keyword in every run
        ws += must + rng.sample(KEYWORD_LIST, rng.randint(1, 3))
        ws += rng.sample(["reg", "wire", "input", "output", "time", "event", "table", "use", "cell", "type",
                          "bit", "byte", "int", "logic", "string", "edge", "small", "large", "design", "wait"], 2)
        hot = (hot if profile == "mixed" else []) + must
    return ws, hot, must


# ------------------------------------------------------------------------------------------------
# design specs (JSON) and their Python source
# ------------------------------------------------------------------------------------------------
def gen_design(seed, profile, size, k=0):
    """A JSON design spec. size: 'm' (namespace level) or 's' (converted, smaller)."""
    rng = rng_for(seed, "design")
    ws, hot, must = working_set(rng, profile, k)
    hostile = profile != "plain"
    depth = rng.choice([1, 2, 2, 3, 3, 4, 5])
    p_ovr = rng.choice([0.2, 0.4, 0.7]) if hostile else rng.choice([0.0, 0.15, 0.3])
    cds = ["sys"] + (["por"] if rng.random() < 0.35 else [])
    cap_mod = 28 if size == "m" else 12

    def nm():
        return rng.choice(ws)

    def sig_kw():
        kw = {"w": rng.choice([1, 1, 2, 4, 8, 9]), "signed": rng.random() < 0.1}
        if rng.random() < p_ovr:
            kw["ovr"] = rng.choice(hot) if rng.random() < 0.7 else nm()
        if rng.random() < 0.22:
            kw["rel"] = rng.randrange(1000)
        if rng.random() < 0.15:
            kw["attrs"] = rng.sample(["keep", "no_retiming", "mr_ff", "async_reg", "dont_touch"], rng.randint(3, 4))
        return kw

    levels = [[0]]
    nclasses = 1
    for l in range(1, depth):
        n = rng.randint(1, 3)
        levels.append(list(range(nclasses, nclasses + n)))
        nclasses += n
    level_of = {c: l for l, cs in enumerate(levels) for c in cs}
    classes = []
    for c in range(nclasses):
        l = level_of[c]
        if hostile and rng.random() < 0.3:
            cname = nm()
        else:
            cname = rng.choice(CLASSNAMES[:4] if rng.random() < 0.7 else CLASSNAMES)      # repeated class names
        items = []
        for _ in range(rng.randint(1, 5 if size == "m" else 4)):
            how = rng.choice(["attr", "attr", "attr", "local", "name", "anon"])
            it = {"t": "sig", "how": how, "attr": nm()}
            it.update(sig_kw())
            items.append(it)
        if rng.random() < 0.35:
            items.append({"t": "siglist", "attr": nm(), "n": rng.randint(2, 4), "w": rng.choice([1, 3])})
        if rng.random() < 0.35:
            fields = [[rng.choice(ws + (["1", "0", "2"] if profile in ("suffix", "mixed") else [])), rng.choice([1, 8])]
                      for _ in range(rng.randint(1, 3))]
            seen = set()
            fields = [f for f in fields if not (f[0] in seen or seen.add(f[0]))]
            rhow = rng.choice(["attr", "name", "anon"])
            rattr = nm()
            if rhow == "attr" and re.match(r"_[0-9].", rattr):           # migen's Record() itself raises on self._3v3 = Record()
                rhow = "name"
            if rhow != "name":                                           # a nameless Record gives its fields no prefix
                fields = [f for f in fields if not f[0].isdigit()] or [["data", 8]]
            items.append({"t": "rec", "how": rhow, "attr": rattr, "fields": fields})
        if l + 1 < depth:
            for i in range(rng.randint(1, 3)):
                tgt = levels[l + 1][i] if i < len(levels[l + 1]) and rng.random() < 0.7 else rng.choice(levels[l + 1])
                items.append({"t": "sub", "how": rng.choice(["attr", "attr", "anon", "list", "local"]), "attr": nm(),
                              "cls": tgt, "n": rng.randint(2, 3)})
        if rng.random() < (0.45 if l == 0 else 0.25):
            ports = []
            for _ in range(rng.randint(1, 3)):
                wr = rng.random() < 0.6               # NO_CHANGE on a read-only port is not a meaningful configuration
                ports.append({"wr": wr, "async": rng.random() < 0.25, "re": rng.random() < 0.3,
                              "mode": rng.choice(["WRITE_FIRST", "READ_FIRST", "NO_CHANGE"] if wr else ["WRITE_FIRST", "READ_FIRST"]),
                              "gran": rng.choice([0, 0, 8]), "cd": rng.choice(cds)})
            memname = nm() if rng.random() < (0.5 if hostile else 0.25) else None
            items.append({"t": "mem", "how": rng.choice(["attr", "anon", "local"]), "attr": nm(), "name": memname,
                          "w": 16, "d": rng.choice([4, 16, 33]), "ports": ports, "init": rng.random() < 0.3})
        if rng.random() < (0.45 if l == 0 else 0.2):
            items.append({"t": "inst", "of": rng.choice(["PRIM", "PRIM", "FDRE", "IOBUF"]),
                          "name": nm() if rng.random() < 0.5 else None, "nin": rng.randint(0, 2), "nout": rng.randint(0, 2),
                          "nio": rng.randint(0, 1), "params": rng.randint(0, 3), "fresh_out": rng.random() < 0.5})
        rng.shuffle(items)
        if items[0]["t"] != "sig":                                       # S must not be empty when logic refers to it
            items.insert(0, dict({"t": "sig", "how": "attr", "attr": nm()}, **sig_kw()))
        if c == 0:                                    # the run's share of the keyword list is always exercised
            items[0:0] = [{"t": "sig", "how": "attr", "attr": rng.choice(PLAIN), "w": 1, "ovr": kw} for kw in must]
        classes.append({"cname": cname, "level": l, "items": items, "logic": rng.randrange(1 << 30)})

    # bound the number of module instances
    def count(c):
        n = 1
        for it in classes[c]["items"]:
            if it["t"] == "sub":
                n += (it["n"] if it["how"] == "list" else 1) * count(it["cls"])
        return n
    guard = 0
    while count(0) > cap_mod and guard < 200:
        guard += 1
        subs = [it for c in classes for it in c["items"] if it["t"] == "sub"]
        big = [it for it in subs if it["how"] == "list"]
        if big:
            rng.choice(big)["how"] = "attr"
        else:
            c = rng.choice([c for c in classes if sum(1 for it in c["items"] if it["t"] == "sub") > 1] or [None])
            if c is None:
                break
            c["items"].remove(rng.choice([it for it in c["items"] if it["t"] == "sub"]))
    return {"profile": profile, "depth": depth, "cds": cds, "classes": classes, "names": ws,
            "ios": [rng.randrange(1000) for _ in range(rng.randint(0, 6))],
            "io_override": rng.random() < 0.5, "regular_comb": rng.random() < 0.8}


def _sig_call(it, name=None):
    args = ["(%d, True)" % it["w"] if it.get("signed") else "%d" % it.get("w", 1)]
    if name is not None:
        args.append("name=%r" % name)
    if it.get("ovr") is not None:
        args.append("name_override=%r" % it["ovr"])
    if it.get("rel") is not None:
        args.append("related=_pick(%d)" % it["rel"])
    if it.get("attrs"):
        # tuple form = platform attribute, emitted verbatim; the bare string form needs a platform translation table
        args.append("attr={%s}" % ", ".join("(%r, 'true')" % a if n else repr(a) for n, a in enumerate(it["attrs"])))
    return "Signal(%s)" % ", ".join(args)


def gen_special_outs(seed):
    """Many instances whose only-output signals carry one and the same name_override, created between other signals
    (duids spaced by a power of two). The suffix each of them gets must not depend on the interpreter run."""
    rng = rng_for(seed, "special_outs")
    return {"template": "special_outs", "profile": "special_outs", "depth": 1, "cds": ["sys"], "ios": [], "names": [],
            "n": rng.choice([200, 260, 320]), "spacing": rng.choice([32, 64]), "ovr": rng.choice(["x", "data", "q"]),
            "classes": []}


def _emit_special_outs(d):
    return "\n".join([
        "from migen import *", "from migen.fhdl.specials import Instance", "",
        "class K0(Module):",
        "    def __init__(self):",
        "        self.clock_domains.cd_sys = ClockDomain('sys')",
        "        self.a = Signal()",
        "        _r([], self.a)",
        "        for i in range(%d):" % d["n"],
        "            o = Signal(i %% 60 + 1, name_override=%r)      # the width identifies the object in the text" % d["ovr"],
        "            self.specials += Instance('PRIM', i_a=self.a, o_q=o)",
        "            others = [Signal() for _ in range(%d)]          # signals of the rest of a large design" % (d["spacing"] - 1),
        ""])


def emit_source(design):
    """Python source of the design: what a user would write (attribute / local / name= / list / Record /
    submodule styles), so that the tracer (shim or original) extracts names from real byte code."""
    if design.get("template") == "special_outs":
        return _emit_special_outs(design)
    L = ["from migen import *", "from migen.fhdl.specials import Memory, Instance, READ_FIRST, WRITE_FIRST, NO_CHANGE",
         "from migen.genlib.record import Record", ""]
    classes = design["classes"]
    for k in range(len(classes) - 1, -1, -1):
        c = classes[k]
        L.append("class K%d(Module):" % k)
        L.append("    def __init__(self):")
        L.append("        S = []")
        L.append("        P = []")
        L.append("        _begin(self)")
        if k == 0:
            for cd in design["cds"]:
                L.append("        self.clock_domains.cd_%s = ClockDomain(%r)" % (cd, cd))
        for n, it in enumerate(c["items"]):
            t = it["t"]
            a = it.get("attr", "a")
            pa = a if _py_ok(a) else "v%d" % n                      # Python keywords cannot be attributes: fall back
            if t == "sig":
                how = it["how"]
                if how in ("attr", "local") and not _py_ok(a):
                    how = "name"
                if how == "attr":
                    L.append("        self.%s = %s" % (a, _sig_call(it)))
                    L.append("        _r(S, self.%s)" % a)
                elif how == "local":
                    L.append("        %s = %s" % (a, _sig_call(it)))
                    L.append("        _r(S, %s)" % a)
                elif how == "name":
                    L.append("        _r(S, %s)" % _sig_call(it, name=a))
                else:
                    L.append("        _r(S, %s)" % _sig_call(it))
            elif t == "siglist":
                L.append("        self.%s = [Signal(%d) for _ in range(%d)]" % (pa, it["w"], it["n"]))
                L.append("        _r(S, *self.%s)" % pa)
            elif t == "rec":
                lay = "[%s]" % ", ".join("(%r, %d)" % (f, w) for f, w in it["fields"])
                if it["how"] == "attr" and _py_ok(a):
                    L.append("        self.%s = Record(%s)" % (a, lay))
                    L.append("        _r(S, *self.%s.flatten())" % a)
                elif it["how"] == "name" or (it["how"] == "attr" and not _py_ok(a)):
                    L.append("        _r(S, *Record(%s, name=%r).flatten())" % (lay, a))
                else:
                    L.append("        _r(S, *Record(%s).flatten())" % lay)
            elif t == "sub":
                j = it["cls"]
                how = it["how"]
                if how == "attr":
                    if _py_ok(a):
                        L.append("        self.submodules.%s = K%d()" % (a, j))
                    else:
                        L.append("        setattr(self.submodules, %r, K%d())" % (a, j))
                elif how == "anon":
                    L.append("        self.submodules += K%d()" % j)
                elif how == "list":
                    L.append("        self.%s = [K%d() for _ in range(%d)]" % (pa, j, it["n"]))
                    L.append("        self.submodules += self.%s" % pa)
                else:
                    L.append("        %s = K%d()" % (pa, j))
                    L.append("        self.submodules += %s" % pa)
            elif t == "mem":
                args = "%d, %d" % (it["w"], it["d"])
                if it.get("init"):
                    args += ", init=[%s]" % ", ".join(str((7 * i + 1) % (1 << it["w"])) for i in range(min(it["d"], 5)))
                if it.get("name") is not None:
                    args += ", name=%r" % it["name"]
                if it["how"] == "attr" and _py_ok(a):
                    L.append("        self.specials.%s = Memory(%s)" % (a, args))
                    L.append("        m_ = self.%s" % a)
                elif it["how"] == "local" and _py_ok(a):
                    L.append("        %s = Memory(%s)" % (a, args))
                    L.append("        self.specials += %s" % a)
                    L.append("        m_ = %s" % a)
                else:
                    L.append("        m_ = [Memory(%s)][0]" % args)
                    L.append("        self.specials += m_")
                for p in it["ports"]:
                    L.append("        p_ = m_.get_port(write_capable=%r, async_read=%r, has_re=%r, we_granularity=%d, "
                             "mode=%s, clock_domain=%r)" % (p["wr"], p["async"], p["re"] and not p["async"],
                                                            p["gran"] if p["wr"] else 0, p["mode"], p["cd"]))
                    L.append("        self.specials += p_")
                    L.append("        P.append(p_)")
            elif t == "inst":
                kw = []
                if it.get("name") is not None:
                    kw.append("name=%r" % it["name"])
                for i in range(it["nin"]):
                    kw.append("i_a%d=_s(S, %d)" % (i, 3 * n + i))
                for i in range(it["nout"]):
                    if it.get("fresh_out"):
                        kw.append("o_q%d=Signal(2)" % i)
                    else:
                        kw.append("o_q%d=_out(self, S, %d)" % (i, 5 * n + i))
                for i in range(it["nio"]):
                    kw.append("io_p%d=_out(self, S, %d)" % (i, 7 * n + i))
                for i in range(it["params"]):
                    kw.append(["p_WIDTH=%d" % (i + 3), "p_MODE=\"FAST\"", "p_RATIO=1.5"][i])
                L.append("        self.specials += Instance(%s)" % ", ".join([repr(it["of"])] + kw))
        L.append("        _logic(self, S, P, %d, %r)" % (c["logic"], design["cds"]))
        L.append("K%d.__name__ = K%d.__qualname__ = %r" % (k, k, c["cname"]))
        L.append("")
    return "\n".join(L)


class Built:
    pass


def build(design, shim):
    """exec the design source with the tracer shim on or off; returns the elaborated top + registry"""
    from lib import tracer312
    from migen import If, Case
    if shim:
        tracer312.install()
    else:
        tracer312.uninstall()
    G = []

    def _r(S, *sigs):
        for s in sigs:
            S.append(s)
            G.append(s)

    def _pick(k):
        return G[k % len(G)] if G else None

    def _s(S, k):
        return S[k % len(S)]

    def _begin(m):
        m._c02_nodrive = set()

    def _out(m, S, k):
        s = S[k % len(S)]
        m._c02_nodrive.add(id(s))
        return s

    def _logic(m, S, P, seed, cds):
        rng = rng_for("logic", seed)
        for i in range(1, len(S)):
            s = S[i]
            if id(s) in m._c02_nodrive:
                continue
            src = S[rng.randrange(i)]
            form = rng.randrange(7)
            cdsync = getattr(m.sync, rng.choice(cds))
            if form == 0:
                m.comb += s.eq(src)
            elif form == 1:
                cdsync += s.eq(src)
            elif form == 2:
                m.comb += If(src[0], s.eq(src)).Else(s.eq(~src))
            elif form == 3:
                m.comb += Case(src, {0: s.eq(1), "default": s.eq(src)})
            elif form == 4:
                cdsync += If(src == 1, s.eq(s + 1))
            elif form == 5:
                m.comb += s.eq((src + S[rng.randrange(len(S))])[0:1])          # complex slice -> slice_proxy signal
            else:
                m.comb += s[0].eq(src[0])
        for p in P:
            m.comb += p.adr.eq(S[rng.randrange(len(S))])
            if p.we is not None:
                m.comb += [p.we.eq(S[rng.randrange(len(S))]), p.dat_w.eq(S[rng.randrange(len(S))])]
            if p.re is not None:
                m.comb += p.re.eq(S[rng.randrange(len(S))][0])

    g = {"_r": _r, "_pick": _pick, "_s": _s, "_begin": _begin, "_out": _out, "_logic": _logic}
    src = emit_source(design)
    try:
        exec(compile(src, "<c02-design>", "exec"), g)
        top = g["K0"]()
    finally:
        tracer312.install()
    b = Built()
    b.top, b.G, b.src = top, G, src
    cds = [getattr(top, "cd_" + cd) for cd in design["cds"]]
    b.cd_sigs = [s for cd in cds for s in (cd.clk, cd.rst) if s is not None]
    b.ios = set(b.cd_sigs)
    for k in design["ios"]:
        if G:
            b.ios.add(G[k % len(G)])
    return b


# ------------------------------------------------------------------------------------------------
# describing objects (Signal.__repr__ crashes on an empty back-trace, never use repr)
# ------------------------------------------------------------------------------------------------
def base_name(ns, obj):
    ov = getattr(obj, "name_override", None)
    if ov is not None:
        return ov
    try:
        return ns.name_dict.get(obj)
    except Exception:
        return None


def describe(ns, obj, final=None):
    d = {"kind": type(obj).__name__, "duid": getattr(obj, "duid", None),
         "name_override": getattr(obj, "name_override", None)}
    bt = getattr(obj, "backtrace", None)
    if bt is not None:
        d["backtrace"] = [list(x) for x in bt]
    rel = getattr(obj, "related", None)
    if rel is not None:
        d["related_duid"] = rel.duid
    if ns is not None:
        d["base_name"] = base_name(ns, obj)
    if final is not None:
        d["name"] = final
    return d


# ------------------------------------------------------------------------------------------------
# mechanism classification (keys name mechanisms, never values)
# ------------------------------------------------------------------------------------------------
def repo_reserved():
    from litex.gen.fhdl import verilog
    return set(getattr(verilog, "_ieee_1800_2017_verilog_reserved_keywords", ()))


def reserved_key(name):
    rs = repo_reserved()                                 # read for *classification* only, never for the verdict
    if name in rs:
        return "reserved/listed-keyword-handed-out-unsuffixed"
    if any(isinstance(e, str) and e != name and e.strip() == name for e in rs):
        return "reserved/keyword-not-reserved"           # the list has the word only with embedded blanks
    return "reserved/keyword-missing-from-list"


def legal_key(name):
    if name == "":
        return "legal/empty-name"
    if isinstance(name, str) and name[0].isdigit() and is_legal_identifier("_" + name):
        return "legal/name-starts-with-digit"
    return "legal/illegal-identifier"


def collision_key(ns, a, b, name):
    ba, bb = base_name(ns, a), base_name(ns, b)
    if ba is None or bb is None:
        return "namespace/collision-unclassified"
    if ba == bb:
        return "namespace/same-base-name-not-disambiguated"

    def suffixed(base):
        return name != base and name.startswith(base + "_") and name[len(base) + 1:].isdigit()
    if (ba == name and suffixed(bb)) or (bb == name and suffixed(ba)):
        return "namespace/suffix-collides-with-literal-name"
    if suffixed(ba) and suffixed(bb):
        return "namespace/two-suffixed-names-collide"
    return "namespace/collision-unclassified"


def exception_entry(e, where):
    """an exception raised inside the code under test on a legal design is a finding of its own; a harness
    exception is re-raised (col.guard turns it into inconclusive)"""
    import os
    tb = traceback.extract_tb(e.__traceback__)
    inner = [fr for fr in tb if "/litex/" in fr.filename] or [fr for fr in tb if "/migen/" in fr.filename]
    if not inner:
        raise e
    fr = inner[-1]                                         # innermost frame of the tree under test
    key = "exception/%s@%s:%s" % (type(e).__name__, os.path.basename(fr.filename), fr.name)
    m = re.search(r"Signal name '([^']*)' is not a valid Python identifier", str(e))
    if isinstance(e, ValueError) and m and legal_key(m.group(1)) == "legal/name-starts-with-digit":
        key = "legal/name-starts-with-digit"               # same mechanism, seen by the memory emitter's own helper Signal()
    return {"key": key, "what": "%s raised %s: %s" % (where, type(e).__name__, str(e)[:300]),
            "witness": {"traceback": traceback.format_exception(type(e), e, e.__traceback__)[-6:]}}


# ------------------------------------------------------------------------------------------------
# the monitor: icontract postconditions around the real SignalNamespace.get_name and
# build_signal_namespace. A failing contract is logged and the real return value is passed on
# (the monitor never changes what the code under test computes).
# ------------------------------------------------------------------------------------------------
class C02Violation(AssertionError):
    def __init__(self, key, what, witness):
        AssertionError.__init__(self, "%s: %s" % (key, what))
        self.key, self.what, self.witness = key, what, witness


class Monitor:
    def __init__(self):
        self.evals = {}
        self.log = []
        self.builds = []            # (signals, reserved_keywords, namespace) of every build_signal_namespace call
        self.names_checked = 0
        self.post_orders = 0
        self.internal_dict_collisions = 0
        self.seed = "0"
        self.installed_for = None
        self.capture = False

    def tick(self, cond):
        self.evals[cond] = self.evals.get(cond, 0) + 1

    def drain(self):
        log, self.log = self.log, []
        b, self.builds = self.builds, []
        return log, b

    def counters(self):
        ev, self.evals = self.evals, {}
        n, self.names_checked = self.names_checked, 0
        o, self.post_orders = self.post_orders, 0
        c, self.internal_dict_collisions = self.internal_dict_collisions, 0
        return ev, n, o, c


MON = Monitor()
RAW = {}


def _ns_state(ns):
    st = ns.__dict__.get("_c02")
    if st is None:
        st = ns.__dict__["_c02"] = {"by_obj": {}, "by_name": {}, "last": None}
    return st


def _underlying(ns, sig):
    from migen.fhdl.structure import ClockSignal, ResetSignal
    if isinstance(sig, (ClockSignal, ResetSignal)):
        try:
            cd = ns.clock_domains.get(sig.cd) if hasattr(ns.clock_domains, "get") else ns.clock_domains[sig.cd]
            return cd.clk if isinstance(sig, ClockSignal) else cd.rst
        except Exception:
            return sig
    return sig


# ---- named conditions on SignalNamespace.get_name -------------------------------------------------
def name_is_a_legal_verilog_identifier(self, sig, result):
    MON.tick("get_name:legal_identifier")
    return sig is None or is_legal_identifier(result)


def name_is_not_a_reserved_word(self, sig, result):
    MON.tick("get_name:not_reserved")
    return sig is None or result not in KEYWORDS


def name_was_not_given_to_another_object(self, sig, result):
    MON.tick("get_name:distinct")
    last = _ns_state(self)["last"]
    return sig is None or last["prev_owner"] is None or last["prev_owner"] is last["obj"]


def name_is_stable_for_the_same_object(self, sig, result):
    MON.tick("get_name:stable")
    last = _ns_state(self)["last"]
    return sig is None or last["prev_name"] is None or last["prev_name"] == result


def _err_legal(self, sig, result):
    return C02Violation(legal_key(result), "get_name returned %r, not a simple Verilog identifier" % (result,),
                        {"object": describe(self, _underlying(self, sig), result)})


def _err_reserved(self, sig, result):
    return C02Violation(reserved_key(result), "get_name returned the reserved word %r unchanged" % (result,),
                        {"object": describe(self, _underlying(self, sig), result), "keyword": result,
                         "in_1364_2005": result in IEEE_1364_2005})


def _err_distinct(self, sig, result):
    last = _ns_state(self)["last"]
    a, b = last["prev_owner"], last["obj"]
    return C02Violation(collision_key(self, a, b, result), "two different objects were both named %r" % (result,),
                        {"name": result, "first": describe(self, a, result), "second": describe(self, b, result),
                         "request_index": len(_ns_state(self)["by_obj"])})


def _err_stable(self, sig, result):
    last = _ns_state(self)["last"]
    return C02Violation("namespace/name-changes-between-requests",
                        "the same object was named %r and later %r by one namespace" % (last["prev_name"], result),
                        {"object": describe(self, last["obj"], result), "before": last["prev_name"]})


# ---- named conditions on build_signal_namespace -----------------------------------------------------
def _explore(signals, reserved_keywords, result):
    """fresh raw namespaces for several request orders (cached on the returned namespace)"""
    cache = result.__dict__.get("_c02_post")
    if cache is not None:
        return cache
    problems = {"unnamed": [], "collide": [], "unstable": [], "illegal": []}
    sigs = list(signals)
    rng = rng_for(MON.seed, "post", len(sigs))
    sh = list(sigs)
    rng.shuffle(sh)
    orders = [("given", sigs), ("reversed", sigs[::-1]), ("shuffled", sh)]
    if len(MON.builds) % 2:
        orders.append(("overrides-last", sorted(sigs, key=lambda s: (s.name_override is not None, s.duid))))
    for oname, order in orders:
        MON.post_orders += 1
        try:
            ns = RAW["build"](signals, reserved_keywords)
        except Exception as e:
            problems["unnamed"].append(("namer/exception/%s" % type(e).__name__, oname, "build raised %r" % (e,), None))
            continue
        owner = {}
        first = {}
        for s in order:
            try:
                n = RAW["get_name"](ns, s)
            except Exception as e:
                problems["unnamed"].append(("namespace/signal-has-no-name", oname, "get_name raised %r" % (e,), describe(ns, s)))
                continue
            MON.names_checked += 1
            first[s] = n
            if not is_legal_identifier(n):
                problems["illegal"].append((legal_key(n), oname,
                                            "name %r" % (n,), describe(ns, s, n)))
            elif n in KEYWORDS:
                problems["illegal"].append((reserved_key(n), oname, "reserved word %r" % n, describe(ns, s, n)))
            o = owner.setdefault(n, s)
            if o is not s:
                problems["collide"].append((collision_key(ns, o, s, n), oname, "%r given to two signals" % n,
                                            {"first": describe(ns, o, n), "second": describe(ns, s, n)}))
        for s in reversed(order):
            if s in first:
                n2 = RAW["get_name"](ns, s)
                if n2 != first[s]:
                    problems["unstable"].append(("namespace/name-changes-between-requests", oname,
                                                 "%r then %r" % (first[s], n2), describe(ns, s, n2)))
        if oname == "given":                 # bookkeeping only: collisions inside name_dict that the counter must absorb
            seen = {}
            for s in sigs:
                if s.name_override is None:
                    b = ns.name_dict.get(s)
                    if b in seen:
                        MON.internal_dict_collisions += 1
                    seen[b] = s
    result.__dict__["_c02_post"] = problems
    return problems


def every_signal_is_named(signals, reserved_keywords, result):
    MON.tick("build:every_signal_named")
    return not _explore(signals, reserved_keywords, result)["unnamed"]


def names_are_pairwise_distinct_in_every_request_order(signals, reserved_keywords, result):
    MON.tick("build:distinct_in_every_order")
    return not _explore(signals, reserved_keywords, result)["collide"]


def names_are_stable_within_a_namespace(signals, reserved_keywords, result):
    MON.tick("build:stable")
    return not _explore(signals, reserved_keywords, result)["unstable"]


def names_are_legal_unreserved_identifiers(signals, reserved_keywords, result):
    MON.tick("build:legal_unreserved")
    return not _explore(signals, reserved_keywords, result)["illegal"]


def _err_build(kind):
    def err(signals, reserved_keywords, result):
        ps = _explore(signals, reserved_keywords, result)[kind]
        for key, oname, what, wit in ps[1:]:                 # every distinct mechanism is logged, the first is raised
            if key != ps[0][0]:
                MON.log.append({"key": key, "what": "build_signal_namespace postcondition (%s order): %s" % (oname, what),
                                "witness": wit})
        key, oname, what, wit = ps[0]
        return C02Violation(key, "build_signal_namespace postcondition (%s request order): %s" % (oname, what),
                            {"order": oname, "detail": wit, "n_signals": len(signals), "n_similar": len(ps)})
    return err


def install():
    """wrap the namer of the tree under test (idempotent per process)"""
    import icontract
    from litex.gen.fhdl import namer, verilog
    if MON.installed_for is namer:
        return
    MON.installed_for = namer
    raw_get = namer.SignalNamespace.get_name
    raw_build = namer.build_signal_namespace
    RAW["get_name"], RAW["build"] = raw_get, raw_build

    def recorded(self, sig):
        name = raw_get(self, sig)
        if sig is not None:
            st = _ns_state(self)
            obj = _underlying(self, sig)
            prev = st["by_obj"].get(id(obj))
            st["last"] = {"obj": obj, "name": name, "prev_name": prev[1] if prev else None,
                          "prev_owner": st["by_name"].get(name)}
            st["by_obj"][id(obj)] = (obj, name)
            st["by_name"].setdefault(name, obj)
            MON.names_checked += 1
        _ns_state(self)["ret"] = name
        return name

    def layer(inner, cond, err):
        contracted = icontract.ensure(cond, error=err)(inner)

        def get_name(self, sig):                      # explicit signature: icontract resolves arguments by name
            try:
                return contracted(self, sig)
            except C02Violation as v:
                MON.log.append({"key": v.key, "what": v.what, "witness": v.witness})
                return _ns_state(self)["ret"]
        return get_name

    f = recorded
    for cond, err in ((name_is_stable_for_the_same_object, _err_stable),
                      (name_was_not_given_to_another_object, _err_distinct),
                      (name_is_not_a_reserved_word, _err_reserved),
                      (name_is_a_legal_verilog_identifier, _err_legal)):
        f = layer(f, cond, err)
    namer.SignalNamespace.get_name = f

    holder = {}

    def recorded_build(signals, reserved_keywords=set()):
        ns = raw_build(signals, reserved_keywords)
        holder["ret"] = ns
        if MON.capture:
            MON.builds.append((set(signals), reserved_keywords, ns))
        else:
            MON.builds.append(None)
        return ns

    def blayer(inner, cond, err):
        contracted = icontract.ensure(cond, error=err)(inner)

        def build_signal_namespace(signals, reserved_keywords=set()):
            try:
                return contracted(signals, reserved_keywords)
            except C02Violation as v:
                MON.log.append({"key": v.key, "what": v.what, "witness": v.witness})
                return holder["ret"]
        return build_signal_namespace

    b = recorded_build
    for cond, kind in ((names_are_legal_unreserved_identifiers, "illegal"),
                       (names_are_stable_within_a_namespace, "unstable"),
                       (names_are_pairwise_distinct_in_every_request_order, "collide"),
                       (every_signal_is_named, "unnamed")):
        b = blayer(b, cond, _err_build(kind))
    namer.build_signal_namespace = b
    verilog.build_signal_namespace = b


# ------------------------------------------------------------------------------------------------
# declarations in the emitted text
# ------------------------------------------------------------------------------------------------
_PORT = re.compile(r"^\s*(input|output|inout)\s+(wire|reg)\s+(signed\s+)?(\[\d+:\d+\]\s*)?(.*?),?\s*$")
_MEM = re.compile(r"^reg\s+\[(\d+):0\]\s+(\S.*?)\[0:(\d+)\];\s*$")
_NET = re.compile(r"^(wire|reg)\s+(signed\s+)?(\[\d+:\d+\]\s*)?([^=;]*?)\s*(=[^;]*)?;\s*$")
INST_TYPES = ("PRIM", "FDRE", "IOBUF")


def strip_comments(text):
    text = re.sub(r"/\*.*?\*/", lambda m: "\n" * m.group(0).count("\n"), text, flags=re.S)
    return [re.sub(r"//.*$", "", l) for l in text.split("\n")]


def parse_declarations(text, inst_types=INST_TYPES):
    """[(kind, identifier, line_no)] for ports, nets/variables, memories and instances; plus unparseable lines"""
    lines = strip_comments(text)
    decls, bad = [], []
    in_ports = False
    i = 0
    while i < len(lines):
        l = lines[i]
        if l.startswith("module "):
            in_ports = True
        elif in_ports:
            if l.strip() == ");":
                in_ports = False
            elif l.strip().startswith("(*") or not l.strip():
                pass
            else:
                m = _PORT.match(l)
                if m:
                    decls.append((m.group(1), m.group(5), i + 1))
                else:
                    bad.append((i + 1, l))
        else:
            m = _MEM.match(l)
            if m:
                decls.append(("memory", m.group(2), i + 1))
            elif re.match(r"^(wire|reg)\s", l):
                m = _NET.match(l)
                if m:
                    decls.append((m.group(1), m.group(4), i + 1))
                else:
                    bad.append((i + 1, l))
            else:
                tok = l.split(" ", 1)[0]
                if tok in inst_types and not l.startswith(" ") and not l.startswith("\t"):
                    rest = l[len(tok) + 1:]
                    if rest.startswith("#("):
                        j = i + 1
                        while j < len(lines) and not lines[j].startswith(") "):
                            j += 1
                        rest = lines[j][2:] if j < len(lines) else ""
                        i = j
                    name = rest.split("(", 1)[0].rstrip()
                    decls.append(("instance", name, i + 1))
        i += 1
    return decls, bad


_TS = re.compile(r"^(// Date\s*:.*|//\s+Auto-Generated by LiteX on .*)$", re.M)


def strip_timestamps(text):
    return _TS.sub("<timestamp>", text)


# ------------------------------------------------------------------------------------------------
# script mode: one fresh process converts a list of designs and prints the texts (reproducibility)
# ------------------------------------------------------------------------------------------------
def convert_design(design, shim):
    from litex.gen.fhdl import verilog
    b = build(design, shim)
    r = verilog.convert(b.top, ios=set(b.ios), name="top", regular_comb=design.get("regular_comb", True))
    return b, r


def script_main():
    from lib import env
    env.setup()
    job = json.load(sys.stdin)
    out = []
    for d in job["designs"]:
        try:
            b, r = convert_design(d["design"], d["shim"])
            names = sorted([o.duid, r.ns.get_name(o)] for o in r.ns.sigs)          # duids are the same in every run
            out.append({"text": r.main_source, "names": names, "request_order": [o.duid for o in r.ns.sigs],
                        "data_files": {k: v for k, v in sorted(r.data_files.items())}})
        except Exception as e:
            try:
                out.append({"error": exception_entry(e, "convert()")})
            except Exception:
                out.append({"error": {"key": None, "what": traceback.format_exc()[-1500:], "witness": None}})
    sys.stdout.write(json.dumps({"hashseed": __import__("os").environ.get("PYTHONHASHSEED"), "out": out}))


if __name__ == "__main__":
    script_main()
