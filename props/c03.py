"""C03 - stream elements deliver each token exactly once, in order, rightly transformed.
Oracle: handshake logs at the element's sink and source + executable transfer function."""
import itertools

from lib.collect import Collector, rng_for, h
from props import streamlib as sl
from props import streamsel

LEVEL = "exploration"
RULE = ("one case = one stream element configuration x one token history x one producer-valid / "
        "consumer-ready schedule (hostile prefix, cooperative suffix) simulated with the repository's "
        "simulator; the sink and source handshake logs are compared with the element's transfer function. "
        "A case is non-trivial when >= 8 tokens were accepted AND >= 1 delivered AND the source was stalled "
        "or the producer paused at least once; distinct = distinct (configuration, stimulus seed) digests")
ASSUMPTIONS = ["migen tracer shim (names only)", "params compared only for groups with equal params",
               "lanes beyond valid_token_count and down-converter valid_token_count are don't-care",
               "selectors/enables change only when no token is stalled on the affected endpoint"]
FLOORS = {"quick": {"source_handshakes": 20000, "sink_handshakes": 20000, "n_configs": 80, "routed_tokens": 2000},
          "thorough": {"source_handshakes": 400000, "sink_handshakes": 400000, "n_configs": 100, "routed_tokens": 40000}}
SHARD_TIMEOUT = {"quick": 900, "thorough": 3000}
N_SAMPLES = 4


def plan(tier, seed):
    cat = sl.catalogue(tier)
    per = 14 if tier == "quick" else 150
    cases = []
    for ci, (el, cfg) in enumerate(cat):
        for k in range(per):
            cases.append({"el": el, "cfg": cfg, "seed": "%d/C03/%s/%d/%d" % (seed, el, ci, k),
                          "n": 40 if tier == "quick" else 80})
    sel = streamsel.cases(tier, seed, "C03")
    nsh = 48 if tier == "quick" else 160
    shards = []
    for i in range(nsh):
        shards.append({"id": "chain%03d" % i, "cls": "chain", "cases": cases[i::nsh]})
    for i in range(8 if tier == "quick" else 16):
        shards.append({"id": "sel%03d" % i, "cls": "sel", "cases": sel[i::(8 if tier == "quick" else 16)]})
    if tier == "thorough":
        # complete enumeration of all valid/ready patterns over 8 cycles for the smallest configurations
        small = [("pipevalid", {"lay": "d8"}), ("pipeready", {"lay": "d8"}),
                 ("buffer", {"lay": "ab", "pv": True, "pr": True}),
                 ("syncfifo", {"lay": "d16p", "depth": 2, "buffered": False}),
                 ("converter", {"nf": 8, "nt": 16, "reverse": False, "report": True}),
                 ("converter", {"nf": 12, "nt": 6, "reverse": False, "report": True}),
                 ("pack", {"lay": "ab", "n": 2, "reverse": False}),
                 ("stride", {"pay": [["a", 4], ["b", 7]], "par": [["p", 3], ["q", 5]], "ratio": 2, "reverse": False, "up": True}),
                 ("gearbox", {"i": 3, "o": 7, "msb": True})]
        for si, (el, cfg) in enumerate(small):
            for part in range(4):
                shards.append({"id": "enum%02d_%d" % (si, part), "cls": "enum", "el": el, "cfg": cfg, "part": part,
                               "nparts": 4, "bits": 7, "seed": "%d/C03/enum/%d" % (seed, si), "cases": []})
    return shards


def judge_chain(col, case, r):
    col.ev("sink_handshakes", r["accepted"])
    col.ev("source_handshakes", r["delivered"])
    col.ev("histories")
    col.ev("sim_cycles", r["cycles"])
    col.cov("configs", h([case["el"], case["cfg"]]))
    col.cov("schedules", r["sched"][0] + "/" + r["sched"][1])
    col.cov("modes", r["mode"])
    col.count("dut_states_seen", r["states"])
    if r["capped"]:
        col.inconc(case, "cycle cap reached")
    if not r["sent_ok"]:
        col.inconc(case, "bench producer log differs from script (harness bug)")
    if r["data"]:
        d = r["data"]
        col.violation("%s/%s" % (case["el"], d["field"]), case,
                      "%s cfg=%s: delivered token #%d differs in %s (expected %s, delivered %s)" % (
                          case["el"], case["cfg"], d["index"], d["field"], d.get("expected"), d.get("delivered")),
                      {"mismatch": d, "run": {k: r[k] for k in ("sched", "mode", "hostile", "accepted", "delivered", "expected")}})
    if r["stall"] and r["lost_at_stall"] > 0:
        col.violation("%s/tokens-never-delivered" % case["el"], case,
                      "%s cfg=%s: %d expected tokens never delivered (no movement for the progress bound in the cooperative suffix)"
                      % (case["el"], case["cfg"], r["lost_at_stall"]), {"run": r})


def run_shard(shard):
    col = Collector(shard["cls"])
    if shard["cls"] == "chain":
        for case in shard["cases"]:
            r = col.guard(case, sl.run_chain_case, case)
            if r is None:
                continue
            judge_chain(col, case, r)
            nontriv = r["accepted"] >= 8 and r["delivered"] >= 1 and (r["stalled_cycles"] > 0 or r["sched"][0] != "always")
            col.case_done(case, nontriv, sample={"case": case, "schedules": r["sched"], "mode": r["mode"],
                                                 "accepted": r["accepted"], "delivered": r["delivered"],
                                                 "first_accepted(cycle,first,last,payload,param)": r["in_sample"],
                                                 "first_delivered": r["out_sample"]})
    elif shard["cls"] == "sel":
        for case in shard["cases"]:
            r = col.guard(case, streamsel.run_case, case)
            if r is None:
                continue
            streamsel.judge(col, case, r, "C03")
    elif shard["cls"] == "enum":
        nb = shard["bits"]
        allp = list(itertools.product(range(1 << nb), repeat=2))
        mine = allp[shard["part"]::shard["nparts"]]
        for vi, ri in mine:
            case = {"el": shard["el"], "cfg": shard["cfg"], "seed": shard["seed"], "n": 10, "mode": "packets",
                    "enum": [vi, ri, nb]}
            r = col.guard(case, sl.run_chain_case, case)
            if r is None:
                continue
            judge_chain(col, case, r)
            col.ev("enumerated_patterns")
            col.case_done(case, r["accepted"] >= 2, sample=None)
    return col.result()
