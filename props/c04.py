"""C04 - stream elements keep the handshake contract (valid and token steady until ready) and never
stall: online stability monitor on every DUT-driven endpoint + bounded progress in a cooperative
suffix entered from many different reachable states + packet.Status against a reference."""
import itertools

from migen import *

from litex.soc.interconnect import stream, packet

from lib.collect import Collector, rng_for, h
from lib.bench.kernel import Bench
from lib.bench.stream import (SourceDriver, SinkDriver, EndpointMonitor, make_sched, Then, tok_of)
from props import streamlib as sl
from props import streamsel
from props import packetlib

LEVEL = "exploration"
RULE = ("one case = one element configuration x one token history x one hostile valid/ready schedule of random "
        "length followed by a cooperative suffix (producer always offers, consumer always accepts). Online "
        "monitor on every source endpoint: valid & ~ready at t => valid and identical payload/param/first/last at t+1. "
        "Progress: in the suffix a handshake must occur within B_el cycles while the transfer function still expects "
        "tokens. Non-trivial = the source endpoint was observed stalled (valid & ~ready) for >= 3 cycles; distinct = "
        "distinct (configuration, seed) digests; distinct DUT register-state vectors seen are counted separately")
ASSUMPTIONS = ["migen tracer shim (names only)", "producer holds valid and token steady until accepted (bench drivers do)",
               "selectors/enables change only when no token is stalled on the affected endpoint",
               "'never stalls forever' is restated as bounded progress: no-movement bound B_el = latency+depth+2*ratio+margin cycles"]
FLOORS = {"quick": {"stalled_cycles_observed": 20000, "stability_checks": 20000, "coop_switch_states": 400,
                    "status_cycles": 5000, "dispatcher_beats_with_selector_designating_no_slave": 100},
          "thorough": {"stalled_cycles_observed": 400000, "stability_checks": 400000, "coop_switch_states": 4000,
                       "status_cycles": 100000, "dispatcher_beats_with_selector_designating_no_slave": 1500}}
SHARD_TIMEOUT = {"quick": 900, "thorough": 3000}
N_SAMPLES = 4


def extra_catalogue():
    c = []
    for dw in (8, 5):
        c.append(("shifter", {"dw": dw}))
    for lat in (1, 2, 3):
        c.append(("pipelined", {"latency": lat}))
    return c


def b_shifter(cfg):
    dut = stream.Shifter(cfg["dw"])

    def model(t):   # count-only model: data is a function of the previous word and the shift input
        return [sl.exp(None, None, [0], None, [0]) for _ in t]
    return sl.Setup(dut, model, bound=10)


class _Pipelined(stream.PipelinedActor):
    def __init__(self, latency):
        self.sink = stream.Endpoint([("data", 8)])
        self.source = stream.Endpoint([("data", 8)])
        stream.PipelinedActor.__init__(self, latency)
        d = self.sink.data
        for i in range(latency):
            n = Signal(8)
            self.sync += If(self.pipe_ce, n.eq(d))
            d = n
        self.comb += self.source.data.eq(d)


def b_pipelined(cfg):
    return sl.Setup(_Pipelined(cfg["latency"]), sl.m_identity, bound=8 + 2 * cfg["latency"])


sl.BUILDERS["shifter"] = b_shifter
sl.BUILDERS["pipelined"] = b_pipelined


def plan(tier, seed):
    cat = sl.catalogue(tier) + extra_catalogue()
    per = 12 if tier == "quick" else 120
    cases = []
    for ci, (el, cfg) in enumerate(cat):
        for k in range(per):
            cases.append({"el": el, "cfg": cfg, "seed": "%d/C04/%s/%d/%d" % (seed, el, ci, k),
                          "n": 40 if tier == "quick" else 80})
    sel = streamsel.cases(tier, seed, "C04")
    pk = packetlib.cases(tier, seed, "C04")
    st = [{"el": "status", "cfg": {}, "seed": "%d/C04/status/%d" % (seed, k), "n": 60} for k in range(40 if tier == "quick" else 600)]
    nsh = 44 if tier == "quick" else 150
    shards = []
    for i in range(nsh):
        shards.append({"id": "chain%03d" % i, "cls": "chain", "cases": cases[i::nsh]})
    k = 6 if tier == "quick" else 16
    for i in range(k):
        shards.append({"id": "sel%03d" % i, "cls": "sel", "cases": sel[i::k]})
    for i in range(k):
        shards.append({"id": "status%03d" % i, "cls": "status", "cases": st[i::k]})
    k = 12 if tier == "quick" else 32
    for i in range(k):
        shards.append({"id": "packet%03d" % i, "cls": "packet", "cases": pk[i::k]})
    return shards


# ------------------------------------------------------------------------------------ packet.Status
def run_status(case):
    rng = rng_for(case["seed"])
    top = Module()
    ep = stream.Endpoint([("data", 8)])
    top.submodules.st = st = packet.Status(ep)
    n = case["n"]
    toks = sl.gen_tokens(rng, ep, n, rng.choice(["packets", "ones", "packets", "nolast"]))
    vs, vk = make_sched(rng)
    rs, rk = make_sched(rng)
    bench = Bench(top, cap=40 * n + 200)
    drv = bench.add(SourceDriver(ep, toks, vs, rng))
    bench.add(SinkDriver(ep, rs))

    class StatusMon:
        def __init__(self):
            self.first, self.ongoing = 1, 0
            self.errs = []
            self.n = 0

        def signals(self):
            return [ep.valid, ep.ready, ep.last, st.first, st.last, st.ongoing]

        def step(self, v, c):
            valid, ready, last = v[ep.valid], v[ep.ready], v[ep.last]
            hs = valid and ready
            e_last = int(bool(hs and last))
            # a packet is "ongoing" from the cycle it is first offered up to (not including) the cycle
            # in which its last beat is transferred
            e_ongoing = int(bool((valid or self.ongoing) and not e_last))
            got = (v[st.first], v[st.last], v[st.ongoing])
            if got != (self.first, e_last, e_ongoing):
                self.errs.append({"cycle": c, "expected(first,last,ongoing)": (self.first, e_last, e_ongoing), "got": got})
            self.n += 1
            self.ongoing = e_ongoing
            if e_last:
                self.first = 1
            elif hs:
                self.first = 0
            return None
    mon = bench.add(StatusMon())
    ok = bench.run()
    return {"errs": mon.errs[:3], "n": mon.n, "capped": not ok, "sched": [vk, rk]}


# ------------------------------------------------------------------------------------ judge
def judge_chain(col, case, r):
    col.ev("histories")
    col.ev("sim_cycles", r["cycles"])
    col.ev("stalled_cycles_observed", r["stalled_cycles"])
    col.ev("stability_checks", r["stalled_cycles"])
    col.ev("source_handshakes", r["delivered"])
    col.ev("coop_switch_states")
    col.cov("configs", h([case["el"], case["cfg"]]))
    col.cov("schedules", r["sched"][0] + "/" + r["sched"][1])
    col.count("dut_states_seen", r["states"])
    if r["capped"]:
        col.inconc(case, "cycle cap reached")
    for s in r["stability"][:1]:
        col.violation("%s/%s" % (case["el"], s["kind"]), case,
                      "%s cfg=%s: at cycle %d %s: was %s now %s" % (case["el"], case["cfg"], s["cycle"], s["kind"],
                                                                   s.get("was"), s.get("now")), {"stability": r["stability"]})
    if r["stall"]:
        col.violation("%s/stall" % case["el"], case,
                      "%s cfg=%s: no handshake for more than the progress bound in the cooperative suffix with %d tokens still "
                      "expected (cycle %d, last movement at %d)" % (case["el"], case["cfg"], r["lost_at_stall"],
                                                                    r["stall"]["cycle"], r["stall"]["last_move"]), {"run": r})


def run_shard(shard):
    col = Collector(shard["cls"])
    for case in shard["cases"]:
        if shard["cls"] == "chain":
            r = col.guard(case, sl.run_chain_case, case)
            if r is None:
                continue
            judge_chain(col, case, r)
            col.case_done(case, r["stalled_cycles"] >= 3,
                          sample={"case": case, "schedules": r["sched"], "hostile_prefix_cycles": r["hostile"],
                                  "source_stalled_cycles": r["stalled_cycles"], "delivered": r["delivered"],
                                  "dut_states_seen": r["states"]})
        elif shard["cls"] == "sel":
            r = col.guard(case, streamsel.run_case, case)
            if r is not None:
                streamsel.judge(col, case, r, "C04")
        elif shard["cls"] == "packet":
            r = col.guard(case, packetlib.run_case, case)
            if r is not None:
                packetlib.judge(col, case, r, "C04")
        elif shard["cls"] == "status":
            r = col.guard(case, run_status, case)
            if r is None:
                continue
            col.ev("status_cycles", r["n"])
            if r["capped"]:
                col.inconc(case, "cycle cap reached")
            if r["errs"]:
                col.violation("status/mismatch", case, "packet.Status differs from reference: %s" % r["errs"][0],
                              {"errs": r["errs"]})
            col.case_done(case, r["n"] > 50, sample=None)
    return col.result()
