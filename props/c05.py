"""C05 - clock-domain crossings: exactly once / in order through the stream crossings, the bus
synchroniser only outputs words its input really held, under random edge interleavings (coinciding
edges included) and per-bit old/new resolution of every synchroniser's first flop."""
from migen import *
from migen.genlib.cdc import MultiReg

from litex.gen.genlib.cdc import BusSynchronizer
from litex.soc.interconnect import stream, axi

from lib.collect import Collector, rng_for, h
from lib.bench.kernel import Bench, umask
from lib.bench.faults import RandomEdges, MetaInjector
from lib.bench.stream import SourceDriver, SinkDriver, EndpointMonitor, make_sched, Then, tok_of, Always
from lib.bench.axil import AXILMaster, AXILSlave, port_monitors
from lib.models.refmem import WindowRefMem
from props import streamlib as sl
from props import c09

LEVEL = "exploration"
RULE = ("one case = one crossing (stream.AsyncFIFO / ClockDomainCrossing depth 4/8/16, buffered or not, with or without common reset; "
        "BusSynchronizer widths 1..8 and 16; AXILiteClockDomainCrossing; stream.Monitor in another domain; UART with its PHY in "
        "another domain, polled through a real CSR bank) x one PRNG edge schedule "
        "(independent per-domain edge probabilities, coinciding edges, fairness bound; ratio-bounded R=1..3 for the bus synchroniser) x "
        "metastability injection at every synchroniser (each changing bit of a first flop sampled in the instant of the change resolves "
        "to old or new) x producer/consumer schedules (x reset pulses for the common-reset variant). Non-trivial = >= 20 tokens crossed "
        "(or >= 30 output updates of the bus synchroniser) and >= 1 injected resolution; distinct = distinct schedule digests")
ASSUMPTIONS = ["migen tracer shim (names only)", "metastability is modelled at declared synchronisers (MultiReg first flop) only, per-bit old/new",
               "every clock ticks at least once every 12 scheduler ticks (fairness) so that bounded progress is meaningful",
               "BusSynchronizer timeout (128 / 64) is longer than one request/acknowledge round trip at ratio <= 3",
               "a reset pulse lasts at least 3 cycles of each of the two clocks (AsyncResetSynchronizer guarantee)"]
FLOORS = {"quick": {"tokens_crossed": 10000, "injections": 15000, "coinciding_edge_ticks": 50000, "bussync_output_updates": 4000,
                    "n_edge_patterns": 300, "axil_bytes_compared": 3000, "resets_applied": 80, "uart_bytes_crossed": 1500},
          "thorough": {"tokens_crossed": 600000, "injections": 400000, "coinciding_edge_ticks": 1000000, "bussync_output_updates": 80000,
                       "n_edge_patterns": 5000, "axil_bytes_compared": 100000, "resets_applied": 2000, "uart_bytes_crossed": 60000}}
SHARD_TIMEOUT = {"quick": 900, "thorough": 3000}
N_SAMPLES = 3


def plan(tier, seed):
    per = 8 if tier == "quick" else 320
    cases = []
    for depth in (4, 8, 16):
        for buffered in (False, True):
            for kind in ("asyncfifo", "cdc", "cdc_rst"):
                for k in range(per):
                    cases.append({"kind": kind, "depth": depth, "buffered": buffered,
                                  "seed": "%d/C05/%s/%d/%d/%d" % (seed, kind, depth, int(buffered), k)})
    for width in (1, 2, 3, 4, 5, 8, 16):
        for ratio in (1, 2, 3):
            for k in range(per):
                cases.append({"kind": "bussync", "width": width, "ratio": ratio, "timeout": [128, 64][k % 2],
                              "seed": "%d/C05/bussync/%d/%d/%d" % (seed, width, ratio, k)})
    for k in range(per * 6):
        cases.append({"kind": "axilcdc", "seed": "%d/C05/axilcdc/%d" % (seed, k)})
    for k in range(per * 4):
        cases.append({"kind": "monitor", "seed": "%d/C05/monitor/%d" % (seed, k)})
    for k in range(per * 4):
        cases.append({"kind": "uartcd", "seed": "%d/C05/uartcd/%d" % (seed, k)})
    n = 64 if tier == "quick" else 192
    return [{"id": "cdc%03d" % i, "cls": "cdc", "cases": cases[i::n]} for i in range(n)]


def mk_env(rng, ratio=None):
    sched = RandomEdges(["a", "b"], rng, ratio=ratio)
    inj = MetaInjector(rng, sched)
    return sched, inj


def finish(r, sched, inj, bench):
    r.update({"inj": inj.injections, "opp": inj.opportunities, "coinc": sched.coincident, "ticks": sched.t,
              "pattern": h(sched.log[:200]), "probs": sched.probs, "cycles": dict(bench.cycle)})
    return r


# ------------------------------------------------------------------------------------ stream crossings
def run_fifo(case, rng):
    kind, depth, buffered = case["kind"], case["depth"], case["buffered"]
    d = sl.desc("ab")
    top = Module()
    top.clock_domains.cd_a = cd_a = ClockDomain("a")
    top.clock_domains.cd_b = cd_b = ClockDomain("b")
    if kind == "asyncfifo":
        dut = ClockDomainsRenamer({"write": "a", "read": "b"})(stream.AsyncFIFO(d, depth, buffered=buffered))
    else:
        dut = stream.ClockDomainCrossing(d, "a", "b", depth=depth, buffered=buffered, with_common_rst=(kind == "cdc_rst"))
    top.submodules.dut = dut
    sched, inj = mk_env(rng)
    clocks = {"a": 10, "b": 10}
    if kind == "cdc_rst":
        # the common-reset variant creates two derived clock domains whose clocks are combinationally the user clocks:
        # the simulator only runs sync logic of domains known to its time manager, so they tick together with a / b
        sched.aliases = {"a": ["from%d" % dut.duid], "b": ["to%d" % dut.duid]}
        clocks.update({"from%d" % dut.duid: 10, "to%d" % dut.duid: 10})
    n = 60
    toks = sl.gen_tokens(rng, dut.sink, n, rng.choice(["packets", "wild"]))
    # unique ids: token counter in field b (7 bits) is not enough: use both fields
    toks = [dict(t, pay=((i >> 7) & 0xf, i & 0x7f)) for i, t in enumerate(toks)]
    hostile = rng.randint(100, 500)
    # (cycle budgets are counted in cycles of the primary domain b: scaled when a is the slower clock)
    slow = max(1.0, sched.probs["b"] / sched.probs["a"])
    bench = Bench(top, clocks=clocks, cap=int((hostile + 60 * n + 1500) * slow), overrides=inj.overrides, scheduler=sched)
    bench.precommit_hooks = [inj.hook]
    drv = bench.add(SourceDriver(dut.sink, toks, Then(make_sched(rng)[0], hostile), rng), "a")
    im = bench.add(EndpointMonitor(dut.sink, "sink"), "a")
    snk = bench.add(SinkDriver(dut.source, Then(make_sched(rng)[0], hostile)), "b")
    om = bench.add(EndpointMonitor(dut.source, "source", check_stability=True), "b")
    # half of the common-reset cases: the consumer is stalled from before each reset assertion until 12 cycles of each clock
    # after its release. The unchanged crossing invents nothing then (the phantom is withdrawn), so there every invented token is
    # unlisted - this is what separates the listed finding from a read side that is not reset at all
    # (unbuffered only: with buffered=True the output register is itself a consumer that is ready inside the window)
    quiet = kind == "cdc_rst" and not buffered and rng.random() < 0.6
    resets = []
    reset_windows = []                    # [assertion, release (b cycles), release (a cycles)]: held until both domains saw it
    a_at_b = {}                           # b cycle -> cycle count of domain a

    class Ctl:
        """ends the run (domain b is primary): everything delivered, or nothing moved for a long time; drives reset pulses"""
        def __init__(self):
            self.c = 0
            self.last = 0
            self.tot = -1
            self.rst_left = 0
            self.force = False
            self.stalled = None
            self.coop = None
            self.last_a = 0
            self.pre = None
            self.post = None

        def signals(self):
            return []

        def step(self, v, c):
            self.c = c
            ca = bench.cycle["a"]
            a_at_b[c] = ca
            t = len(im.log) + len(om.log)
            if t != self.tot:
                self.tot, self.last, self.last_a = t, c, ca
            if self.coop is None and c > hostile and ca > hostile:
                self.coop = (c, ca)                  # both drivers have left their hostile prefix (each counts its own cycles)
            elif self.coop is not None and t == self.tot and c - max(self.last, self.coop[0]) > 200 \
                    and ca - max(self.last_a, self.coop[1]) > 200:
                # no handshake on either side for 200 cycles of EACH domain although producer and consumer cooperate
                self.force = True
                self.stalled = {"b_cycle": c, "a_cycle": ca, "last_move_b_cycle": self.last, "last_move_a_cycle": self.last_a}
            w = None
            if kind == "cdc_rst" and getattr(self, "released", None) and c - self.released[0] >= 4 and bench.cycle["a"] - self.released[1] >= 4:
                # a few cycles of both clocks after the release: every token accepted from now on must be delivered
                self.acc_mark = len(im.log)
                self.released = None
            if kind == "cdc_rst":
                if self.rst_left > 0:
                    # a reset is held until BOTH domains have seen it for at least `rst_left` of their own cycles (what the
                    # real AsyncResetSynchronizer guarantees; the simulator's stand-in needs >= 1 period per domain)
                    if bench.cycle["a"] - self.rst_a >= self.rst_left and c - self.rst_b >= self.rst_left:
                        self.rst_left = 0
                        self.released = (c, bench.cycle["a"])
                        reset_windows[-1][1] = c
                        reset_windows[-1][2] = bench.cycle["a"]
                        if quiet:
                            self.post = (c, bench.cycle["a"])
                        w = {cd_a.rst: 0, cd_b.rst: 0}
                elif quiet and self.post is not None:
                    if c - self.post[0] >= 12 and ca - self.post[1] >= 12:
                        snk.hold = False
                        self.post = None
                elif quiet and self.pre is None and c < hostile and rng.random() < 0.01:
                    snk.hold = True
                    self.pre = 3
                elif quiet and self.pre is not None and self.pre > 0:
                    self.pre -= 1
                elif (quiet and self.pre == 0) or (not quiet and c < hostile and rng.random() < 0.01):
                    self.pre = None
                    self.rst_left = rng.randint(3, 6)
                    self.rst_a, self.rst_b = bench.cycle["a"], c
                    which = rng.choice([cd_a.rst, cd_b.rst])
                    resets.append(c)
                    reset_windows.append([c, None, None])
                    w = {which: 1}
            return w

        def done(self):
            if kind == "cdc_rst":
                return drv.done() and self.c > hostile and self.c - self.last > 60
            return drv.done() and len(om.log) >= len(im.log)
    ctl = bench.add(Ctl(), "b")
    ok = bench.run()
    errs = []
    acc = [tok_of(x) for x in im.log]
    dlv = [tok_of(x) for x in om.log]
    if kind != "cdc_rst" or not resets:
        for i, (a_, b_) in enumerate(zip(acc, dlv)):
            if a_ != b_:
                errs.append({"kind": "token-altered-or-reordered", "index": i, "accepted": a_, "delivered": b_})
                break
        if not errs and len(dlv) > len(acc):
            errs.append({"kind": "token-duplicated-or-invented", "accepted": len(acc), "delivered": len(dlv)})
        if not errs and len(dlv) < len(acc):
            errs.append({"kind": "token-lost-or-stalled", "accepted": len(acc), "delivered": len(dlv), "stall": ctl.stalled})
    else:
        # with resets: delivered must be an in-order subsequence of accepted, unaltered, no duplicates. Named apart (listed
        # finding, mechanism seen in traces of the unchanged code): the read side is released / keeps running while the
        # synchronised copy of the write pointer still holds its pre-reset value, so a consumer that is ready INSIDE the reset
        # window takes a phantom token; the two pointers are then out of step and up to 2*depth further invented tokens follow
        # at the consumer's pace, long after the reset. Without a delivery inside the window the phantom is withdrawn and
        # nothing is invented. So: invented tokens belong to the listed finding iff the first one after that reset assertion
        # was DELIVERED inside [assertion, release + 10 cycles of each clock]; the ones delivered after the window (at most 2*depth + 2)
        # are its consequences. Invented tokens that start outside such a window, more of them, or a wrong token, are unlisted.
        j = 0
        phantom = None
        chain = {}                          # reset assertion -> invented tokens delivered AFTER its window and attributed to it
        for i, b_ in enumerate(dlv):
            jj = j
            while jj < len(acc) and acc[jj] != b_:
                jj += 1
            if jj >= len(acc):
                cyc, off = om.log[i][0], om.offered_at[i]
                info = {"index": i, "delivered": b_, "offered_at_b_cycle": off, "delivered_at_b_cycle": cyc,
                        "reset_windows": reset_windows[:6]}
                last = [r_ for r_ in reset_windows if r_[0] <= (off if (buffered and off is not None) else cyc)]
                known = False
                if last:
                    r_ = last[-1]
                    # buffered crossings: the FIFO's reader is the always-ready output register, which takes the phantom inside the
                    # window and then offers it to the consumer for as long as the consumer likes: the instant that matters is
                    # the one at which the token was first OFFERED at the source, not the one at which a slow consumer took it
                    tref = off if (buffered and off is not None) else cyc
                    inside = r_[1] is None or tref <= r_[1] + 10 or a_at_b.get(tref, 0) <= r_[2] + 10
                    if quiet:
                        info["consumer_stalled_around_resets"] = True
                    elif inside:
                        known = True                      # (one per read-clock cycle while the reset is held)
                        chain.setdefault(r_[0], 0)
                    elif r_[0] in chain and chain[r_[0]] < 2 * depth + 2:
                        known = True
                        chain[r_[0]] += 1
                if known:
                    phantom = phantom or dict(info, kind="phantom-token-at-reset-assertion")
                    continue                              # not part of the accepted sequence: keep looking from the same place
                errs.append(dict(info, kind="token-corrupted-duplicated-or-reordered-across-reset"))
                break
            j = jj + 1
        if phantom and not errs:
            errs.append(phantom)
        # every token accepted well after the last reset must arrive (in order, at the end of the delivered list)
        mark = getattr(ctl, "acc_mark", None)
        if not errs and mark is not None and ctl.rst_left == 0 and getattr(ctl, "released", None) is None and drv.done():
            tail = acc[mark:]
            if tail and dlv[-len(tail):] != tail:
                errs.append({"kind": "tokens-accepted-after-last-reset-not-delivered", "accepted_after_reset": len(tail),
                             "delivered_total": len(dlv), "resets_at": resets[-3:]})
    for sv in om.stab_viol[:1]:
        # a reset of the read side legitimately withdraws an offered token
        if kind != "cdc_rst":
            errs.append({"kind": "source-" + sv["kind"], "at": sv})
    return finish({"errs": errs[:3], "tokens": len(dlv), "updates": 0, "resets": len(resets), "axil": 0, "capped": not ok}, sched, inj, bench)


# ------------------------------------------------------------------------------------ bus synchroniser
def run_bussync(case, rng):
    width, ratio = case["width"], case["ratio"]
    top = Module()
    top.clock_domains.cd_a = ClockDomain("a", reset_less=True)
    top.clock_domains.cd_b = ClockDomain("b", reset_less=True)
    top.submodules.dut = dut = BusSynchronizer(width, "a", "b", timeout=case["timeout"])
    sched, inj = mk_env(rng, ratio=ratio)
    ncyc = 900
    hist = []            # value of i during every a-cycle
    errs = []
    upd = [0]

    class DrvA:
        def __init__(self):
            self.c = 0
            self.val = 0
            self.hold = 0

        def signals(self):
            return [dut.i]

        def step(self, v, c):
            self.c = c
            hist.append(umask(dut.i, v[dut.i]))
            if c > ncyc - 260:
                return None                         # final phase: input held stable
            if self.hold > 0:
                self.hold -= 1
                return None
            self.hold = rng.choice([0, 0, 1, 3, 10])
            # new value differing in many bits from the previous one (tearing would be visible)
            nv = rng.getrandbits(width)
            if width > 1:
                while nv in hist[-24:]:
                    nv = rng.getrandbits(width)
                    if width <= 4:
                        break
            self.driven = nv                    # on dut.i from this edge on; enters hist at the next a-cycle only
            return {dut.i: nv}

        def done(self):
            return self.c >= ncyc
    a = DrvA()
    a.driven = 0

    class MonB:
        def __init__(self):
            self.prev = None
            self.started = False

        def signals(self):
            return [dut.o]

        def step(self, v, c):
            o = umask(dut.o, v[dut.o])
            if self.prev is not None and o != self.prev:
                upd[0] += 1
                self.started = True
                # the new output word must be a word the input really held at some input-domain edge (recent history;
                # plus the very next ones that may already be written in this same tick)
                window = hist[-(40 * (ratio + 1) + case["timeout"] + 20):]
                if o not in window and o != a.driven and len(errs) < 3:
                    errs.append({"kind": "output-word-never-present-at-input", "b_cycle": c, "o": o, "recent_inputs": window[-8:]})
            self.prev = o
    b = MonB()
    bench = Bench(top, clocks={"a": 10, "b": 10}, cap=ncyc + 50, overrides=inj.overrides, scheduler=sched)
    bench.precommit_hooks = [inj.hook]
    bench.add(a, "a")
    bench.add(b, "b")
    bench._force_primary = "a"
    ok = bench.run()
    if not errs and hist and b.prev is not None and b.prev != hist[-1]:
        errs.append({"kind": "output-does-not-reflect-stable-input", "i": hist[-1], "o": b.prev, "stable_for_a_cycles": 260})
    return finish({"errs": errs[:3], "tokens": 0, "updates": upd[0], "resets": 0, "axil": 0, "capped": False}, sched, inj, bench)


# ------------------------------------------------------------------------------------ AXI-Lite crossing
def run_axilcdc(case, rng):
    top = Module()
    top.clock_domains.cd_a = ClockDomain("a", reset_less=True)
    top.clock_domains.cd_b = ClockDomain("b", reset_less=True)
    m = axi.AXILiteInterface(data_width=32, address_width=16)
    s = axi.AXILiteInterface(data_width=32, address_width=16)
    top.submodules.dut = axi.AXILiteClockDomainCrossing(m, s, "a", "b")
    sched, inj = mk_env(rng)
    c09.WORDS = 64
    writes, reads = c09.gen_axil_script(rng, 32, 0, 10)
    reads = reads[:30]
    init = [rng.getrandbits(32) for _ in range(64)]
    hostile = rng.randint(100, 400)
    bench = Bench(top, clocks={"a": 10, "b": 10}, cap=hostile + 6000, overrides=inj.overrides, scheduler=sched)
    bench.precommit_hooks = [inj.hook]
    mm = bench.add(AXILMaster(m, writes, reads, rng, order=rng.choice(["together", "aw_first", "w_first"]), max_out=rng.choice([1, 2, 4, 8, 12]),
                              p_aw=rng.choice([1.0, 0.5]), p_w=rng.choice([1.0, 0.5]), p_ar=rng.choice([1.0, 0.5]),
                              # responses pile up behind a master that holds b/r.ready low for long (more than the crossing buffers)
                              b_sched=make_sched(rng, rng.choice([None, None, "longstall"]), ratio=8)[0],
                              r_sched=make_sched(rng, rng.choice([None, None, "longstall"]), ratio=8)[0], coop_from=hostile), "a")
    bench.add(AXILSlave(s, rng, "mem", depth=rng.choice([4, 8, 16]), aw_sched=make_sched(rng)[0], w_sched=make_sched(rng)[0], ar_sched=make_sched(rng)[0],
                        lat=(0, 3), mem={i: x for i, x in enumerate(init)}, coop_from=hostile), "b")
    mons = []
    for ch in ("b", "r"):
        mons.append(bench.add(EndpointMonitor(getattr(m, ch), "m." + ch, check_stability=True), "a"))
    for ch in ("aw", "w", "ar"):
        mons.append(bench.add(EndpointMonitor(getattr(s, ch), "s." + ch, check_stability=True), "b"))
    bench._force_primary = "a"
    ok = bench.run()
    errs = []
    stats = {"writes": 0, "reads": 0, "bytes": 0, "err_resps": 0}
    # within one master the AXI-Lite crossing keeps the order of writes and of reads, but a read may overtake a write
    ref = WindowRefMem(c09.bytes_of(init, 32))
    c09.judge_axil(mm, ref, 0, 32, errs, stats)
    for mon in mons:
        for sv in mon.stab_viol[:1]:
            errs.append({"kind": "%s-%s" % (mon.name, sv["kind"]), "at": sv})
    return finish({"errs": errs[:3], "tokens": stats["reads"] + stats["writes"], "updates": 0, "resets": 0, "axil": stats["bytes"],
                   "capped": not ok}, sched, inj, bench)


# ------------------------------------------------------------------------------------ UART with its PHY in another domain
def run_uartcd(case, rng):
    """UART(phy_cd != 'sys'): both FIFOs of the core become asynchronous FIFOs between the CSR side (domain a) and the PHY side
    (domain b). Software polls through a real CSR bank in a; a PHY model produces/consumes bytes in b. Every byte software wrote
    leaves towards the PHY exactly once and in order; every byte the PHY delivered is read by software exactly once and in order."""
    from litex.soc.cores.uart import UART
    from props.c19lib import CSRTop, CSRMaster
    depth = rng.choice([4, 8, 16])               # migen's AsyncFIFO refuses depths below 4
    core = UART(phy=None, tx_fifo_depth=depth, rx_fifo_depth=depth, phy_cd="b")
    ctop = CSRTop(core)
    top = Module()
    top.clock_domains.cd_a = ClockDomain("a", reset_less=True)
    top.clock_domains.cd_b = ClockDomain("b", reset_less=True)
    top.submodules.ctop = ClockDomainsRenamer({"sys": "a"})(ctop)
    sched, inj = mk_env(rng)
    n = case.get("n", 40)
    tx_bytes = [(37 * k + 11) & 0xff for k in range(n)]
    rx_bytes = [(53 * k + 5) & 0xff for k in range(n)]
    got = []
    left = list(tx_bytes)
    state = {"polls": 0}

    def prog():
        idle = 0
        while idle < 400:
            did = False
            if left and rng.random() < 0.7:
                f = (yield ("r", "txfull", None))[2]
                if not f:
                    yield ("w", "rxtx", left.pop(0))
                    did = True
            if len(got) < n and rng.random() < 0.7:
                e = (yield ("r", "rxempty", None))[2]
                if not e:
                    got.append((yield ("r", "rxtx", None))[2])
                    yield ("w", "ev_pending", 2)          # acknowledging the rx event pops the FIFO
                    did = True
            state["polls"] += 1
            if rng.random() < 0.3:
                yield ("idle", rng.randint(1, 6))
            idle = 0 if (did or left or len(got) < n) else idle + 1
            if not did and not left and len(got) >= n:
                yield ("idle", 1)
    bench = Bench(top, clocks={"a": 10, "b": 10}, cap=n * 400 + 6000, overrides=inj.overrides, scheduler=sched)
    bench.precommit_hooks = [inj.hook]
    master = bench.add(CSRMaster(ctop, prog(), gap=1), "a")
    toks = [{"first": 0, "last": 0, "pay": (x,), "par": ()} for x in rx_bytes]
    prod = bench.add(SourceDriver(core.sink, toks, make_sched(rng)[0], rng), "b")
    bench.add(SinkDriver(core.source, make_sched(rng)[0]), "b")
    in_mon = bench.add(EndpointMonitor(core.sink, "phy->uart"), "b")
    out_mon = bench.add(EndpointMonitor(core.source, "uart->phy", check_stability=True), "b")

    class End:
        def signals(self):
            return []

        def step(self, v, c):
            return None

        def done(self):
            return master.finished and len(out_mon.log) >= n
    bench.add(End(), "a")
    bench._force_primary = "a"
    ok = bench.run()
    errs = []
    sent = [e[3][0] for e in out_mon.log]
    acc = [e[3][0] for e in in_mon.log]
    wrote = tx_bytes[:n - len(left)]
    if sent != wrote[:len(sent)]:
        k = next(i for i, (x, y) in enumerate(zip(sent + [None], wrote + [None])) if x != y)
        errs.append({"kind": "tx-byte-altered-duplicated-or-reordered", "index": k, "left_the_uart": sent[k:k + 4], "software_wrote": wrote[k:k + 4]})
    elif len(sent) < len(wrote) and not ok:
        errs.append({"kind": "tx-byte-lost-or-stalled", "left_the_uart": len(sent), "software_wrote": len(wrote)})
    if got != acc[:len(got)]:
        k = next(i for i, (x, y) in enumerate(zip(got + [None], acc + [None])) if x != y)
        errs.append({"kind": "rx-byte-altered-duplicated-or-reordered", "index": k, "software_read": got[k:k + 4], "phy_delivered": acc[k:k + 4]})
    elif len(got) < len(acc) and not ok:
        errs.append({"kind": "rx-byte-lost-or-stalled", "software_read": len(got), "phy_delivered": len(acc)})
    for sv in out_mon.stab_viol[:1]:
        errs.append({"kind": "source-" + sv["kind"], "at": sv})
    return finish({"errs": errs[:3], "tokens": len(sent) + len(got), "updates": 0, "resets": 0, "axil": 0, "uart": len(sent) + len(got),
                   "capped": not ok and not errs and (len(sent) < n or len(got) < n)}, sched, inj, bench)


# ------------------------------------------------------------------------------------ stream.Monitor in another domain
def run_monitor(case, rng):
    top = Module()
    top.clock_domains.cd_sys = ClockDomain("sys", reset_less=True)
    top.clock_domains.cd_b = ClockDomain("b", reset_less=True)
    ep = stream.Endpoint([("data", 8)])
    top.submodules.mon = mon = stream.Monitor(ep, count_width=8, clock_domain="b", with_tokens=True, with_overflows=True)
    for c_ in mon.get_csrs():
        if hasattr(c_, "finalize") and not c_.finalized:
            c_.finalize(32, "big")
            top.submodules += c_
    sched = RandomEdges(["sys", "b"], rng)
    inj = MetaInjector(rng, sched)
    errs = []
    count = {"tok": 0, "ovf": 0}
    latched = {"tok": None, "ovf": None, "at": None}
    checks = [0]
    bcyc = [0]

    class DrvB:
        def __init__(self):
            self.c = 0

        def signals(self):
            return [ep.valid, ep.ready]

        def step(self, v, c):
            self.c = c
            bcyc[0] += 1
            if v[ep.valid] and v[ep.ready]:
                count["tok"] += 1
            if v[ep.valid] and not v[ep.ready]:
                count["ovf"] += 1
            active = (c // 40) % 2 == 0          # activity bursts, then quiet so that a latch can settle
            return {ep.valid: int(active and rng.random() < 0.6), ep.ready: int(rng.random() < 0.7)}

    class DrvS:
        def __init__(self):
            self.c = 0
            self.next_latch = 60
            self.pulse = 0

        def signals(self):
            return [mon._tokens.status, mon._overflows.status]

        def step(self, v, c):
            self.c = c
            w = {mon.latch: 0}
            if c == self.next_latch:
                w[mon.latch] = 1
                self.next_latch = None                  # the next request is made after this one has been judged
                latched["req"] = c
                latched["req_b"] = bcyc[0]
                latched["judge_at"] = None
                latched["b_from"] = None
            # the request crosses to the monitored domain (pulse synchroniser: 2-3 of ITS cycles, one more when a flop resolves
            # late), the count is captured there and crosses back (2-3 sys cycles): judged on elapsed CYCLES OF EACH DOMAIN, not
            # on sys time alone (the other clock may be several times slower). The status must then equal the counter value at
            # some instant between the request and now: the counts are monotonic, so it lies between the two values
            #   sys: request registered (toggle) within 2 cycles -> other domain: 2 synchroniser flops (+1 when the first one
            #   resolves late) + 1 capture = at most 4 cycles, counted from then -> sys: 2 flops + 1 torn sample = 3 cycles
            if latched.get("req") is not None and latched.get("req_b") is not None and c == latched["req"] + 2:
                latched["b_from"] = bcyc[0]
            if latched.get("req") is not None and latched.get("judge_at") is None and latched.get("b_from") is not None \
                    and bcyc[0] >= latched["b_from"] + 5:
                latched["judge_at"] = c + 4
            if latched.get("req") is not None and latched.get("judge_at") == c:
                self.next_latch = c + rng.randint(10, 40)
                latched["req"] = None
                lo_t, lo_o = latched.get("snap", (0, 0))
                checks[0] += 1
                st_t, st_o = v[mon._tokens.status], v[mon._overflows.status]
                if not (latched["lo"][0] <= st_t <= count["tok"] % 256 + (256 if count["tok"] >= 256 else 0) or count["tok"] >= 255):
                    errs.append({"kind": "latched-token-count-impossible", "status": st_t, "count_at_request": latched["lo"][0],
                                 "count_now": count["tok"]})
                if not (latched["lo"][1] <= st_o <= count["ovf"] or count["ovf"] >= 255):
                    errs.append({"kind": "latched-overflow-count-impossible", "status": st_o, "count_at_request": latched["lo"][1],
                                 "count_now": count["ovf"]})
            if w[mon.latch]:
                latched["lo"] = (min(count["tok"], 255), min(count["ovf"], 255))
            return w

        def done(self):
            return self.c >= 700
    bench = Bench(top, clocks={"sys": 10, "b": 10}, cap=800, overrides=inj.overrides, scheduler=sched)
    bench.precommit_hooks = [inj.hook]
    bench.add(DrvB(), "b")
    bench.add(DrvS(), "sys")
    bench._force_primary = "sys"
    ok = bench.run()
    return finish({"errs": errs[:3], "tokens": count["tok"], "updates": checks[0], "resets": 0, "axil": 0, "capped": False}, sched, inj, bench)


def run_case(case):
    rng = rng_for(case["seed"])
    k = case["kind"]
    if k in ("asyncfifo", "cdc", "cdc_rst"):
        return run_fifo(case, rng)
    if k == "bussync":
        return run_bussync(case, rng)
    if k == "axilcdc":
        return run_axilcdc(case, rng)
    if k == "uartcd":
        return run_uartcd(case, rng)
    return run_monitor(case, rng)


def run_shard(shard):
    col = Collector(shard["cls"])
    for case in shard["cases"]:
        r = col.guard(case, run_case, case)
        if r is None:
            continue
        col.ev("tokens_crossed", r["tokens"])
        col.ev("injections", r["inj"])
        col.ev("injection_opportunities", r["opp"])
        col.ev("coinciding_edge_ticks", r["coinc"])
        col.ev("scheduler_ticks", r["ticks"])
        col.ev("bussync_output_updates", r["updates"] if case["kind"] == "bussync" else 0)
        col.ev("monitor_latch_checks", r["updates"] if case["kind"] == "monitor" else 0)
        col.ev("axil_bytes_compared", r["axil"])
        col.ev("resets_applied", r["resets"])
        col.ev("uart_bytes_crossed", r.get("uart", 0))
        col.cov("edge_patterns", r["pattern"])
        col.cov("kinds", case["kind"])
        key = case["kind"] if case["kind"] != "bussync" else "bussync/w%s" % ("1" if case["width"] == 1 else "n")
        for e in r["errs"][:1]:
            col.violation("%s/%s" % (key, e["kind"]), case, "%s: %s" % (case, e), {"errors": r["errs"], "edge_probabilities": r["probs"]})
        if r["capped"] and not r["errs"]:
            col.inconc(case, "cycle cap reached without a recorded error")
        col.case_done(case, (r["tokens"] >= 20 or r["updates"] >= 30) and r["inj"] >= 1, digest=[case, r["pattern"]],
                      sample={"case": case, "edge_probabilities": r["probs"], "cycles_per_domain": r["cycles"], "injections": r["inj"],
                              "coinciding_edge_ticks": r["coinc"], "tokens": r["tokens"], "output_updates": r["updates"]})
    return col.result()
