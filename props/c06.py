"""C06 - Wishbone interconnect: each cycle reaches exactly the slave selected by the address map,
its termination and read data reach the issuing master only, ownership is stable, grants are fair.
History (master/slave completion logs with unique payloads) + per-cycle invariants (grant, decode)."""
from migen import *

from litex.soc.interconnect import wishbone
from litex.soc.integration.soc import SoCRegion

from lib.collect import Collector, rng_for, h
from lib.bench.kernel import Bench
from lib.bench.wb import WBMaster, WBSlave

LEVEL = "exploration"
RULE = ("one case = one interconnect (shared / crossbar / point-to-point, 1..3 masters x 1..3 slaves, random disjoint address "
        "map from mask decoders or SoCRegion.decoder, registered or combinational decode) x one history of single and block "
        "cycles per master (back-to-back, simultaneous, gaps, cyc dropped or held between cycles) x slave latencies 1..7 with "
        "random err. Master and slave completion logs carry unique payloads and are paired offline; grant/decoder invariants are "
        "evaluated every cycle. Non-trivial = >= 2 masters contended (some request waited for another owner) or >= 10 completed "
        "cycles on a single master; distinct = distinct case digests")
ASSUMPTIONS = ["migen tracer shim (names only)", "masters never abort a pending stb (legal Wishbone masters)",
               "slaves signal an error the way LiteX's own Wishbone cores do: err raised together with ack",
               "slaves have >= 1 wait state (registered ack), the documented requirement of register=True",
               "unmapped addresses are only issued where a timeout is configured (InterconnectShared)"]
FLOORS = {"quick": {"master_cycles_completed": 15000, "paired_with_slave": 14000, "contended_waits": 1500, "grant_changes": 1500,
                    "decode_checks": 20000, "unmapped_terminated": 100,
                    "owner_holds_cyc_with_stb_low_cycles": 500, "socmap_maps_built": 40, "socmap_regions_not_pow2": 50,
                    "socmap_requests_refused": 5},
          "thorough": {"master_cycles_completed": 300000, "paired_with_slave": 280000, "contended_waits": 30000,
                       "grant_changes": 30000, "decode_checks": 400000, "unmapped_terminated": 2000, "socmap_maps_built": 500,
                       "socmap_regions_not_pow2": 600, "socmap_requests_refused": 60}}
SHARD_TIMEOUT = {"quick": 900, "thorough": 3000}
N_SAMPLES = 3
ADR_W = 12


def plan(tier, seed):
    per = 10 if tier == "quick" else 120
    cases = []
    for kind in ("shared", "crossbar"):
        for m in (1, 2, 3):
            for s in (1, 2, 3):
                for reg in (False, True):
                    for k in range(per):
                        cases.append({"kind": kind, "m": m, "s": s, "register": reg,
                                      "seed": "%d/C06/%s/%d%d%d/%d" % (seed, kind, m, s, int(reg), k)})
    for k in range(per):
        cases.append({"kind": "p2p", "m": 1, "s": 1, "register": False, "seed": "%d/C06/p2p/%d" % (seed, k)})
    # address maps made by SoCBusHandler (anchor soc.py): regions of any size, placed by the designer or allocated automatically;
    # what it accepts is built and judged on the decoded windows, what it refuses is a rejection
    for k in range(per * 6):
        cases.append({"kind": ["shared", "crossbar"][k % 2], "m": 1 + k % 3, "s": 2 + (k // 3) % 2, "register": bool((k // 6) % 2), "socmap": True,
                      "seed": "%d/C06/socmap/%d" % (seed, k)})
    n = 32 if tier == "quick" else 128
    return [{"id": "wb%03d" % i, "cls": "interconnect", "cases": cases[i::n]} for i in range(n)]


def gen_map(rng, ns):
    """ns disjoint power-of-two windows in a 2^ADR_W word space: list of (origin_words, log2size_words)."""
    while True:
        regs = []
        for _ in range(ns):
            k = rng.randint(3, ADR_W - 2)
            o = rng.randrange(0, 1 << (ADR_W - k)) << k
            regs.append((o, k))
        ok = True
        for i in range(ns):
            for j in range(i):
                a, b = regs[i], regs[j]
                if a[0] < b[0] + (1 << b[1]) and b[0] < a[0] + (1 << a[1]):
                    ok = False
        if ok:
            return regs


def which(regs, adr):
    r = [i for i, (o, k) in enumerate(regs) if o <= adr < o + (1 << k)]
    return r


class GrantMonitor:
    """Ownership: the grant of an arbiter may only move at an edge where the previous owner did not hold its cycle.
    'Holding' is judged on the MASTER's own cyc (for a crossbar column: cyc and address inside that slave's window),
    not on the arbiter's internal request vector."""
    def __init__(self, arb, name, masters=None, regs=None, column=None):
        self.arb, self.name = arb, name
        self.masters, self.regs, self.column = masters, regs, column
        self.prev = None
        self.viol = []
        self.changes = 0
        self.hist = []
        self.held_gaps = 0          # cycles in which the owner held cyc with stb low (block cycle gaps)

    def signals(self):
        s = [self.arb.rr.grant, self.arb.rr.request]
        for m in self.masters or []:
            s += [m.cyc, m.stb, m.adr]
        return s

    def holds(self, v, i):
        m = self.masters[i]
        if not v[m.cyc]:
            return False
        if self.column is None:
            return True
        return self.column in which(self.regs, v[m.adr])

    def step(self, v, c):
        g, r = v[self.arb.rr.grant], v[self.arb.rr.request]
        if self.masters:
            held = sum((1 << i) for i in range(len(self.masters)) if self.holds(v, i))
            if g < len(self.masters) and (held >> g) & 1 and not v[self.masters[g].stb]:
                self.held_gaps += 1
        else:
            held = r
        self.hist.append((g, held))
        if self.prev is not None:
            pg, pheld = self.prev
            if g != pg:
                self.changes += 1
                if (pheld >> pg) & 1:
                    self.viol.append({"cycle": c, "kind": "grant-moved-while-owner-holds-cyc", "from": pg, "to": g,
                                      "masters_holding_cyc": pheld})
        self.prev = (g, held)
        return None


class DecodeMonitor:
    """A slave may see cyc & stb only for addresses inside its own window."""
    def __init__(self, buses, regs):
        self.buses, self.regs = buses, regs
        self.viol = []
        self.checks = 0

    def signals(self):
        s = []
        for b in self.buses:
            s += [b.cyc, b.stb, b.adr]
        return s

    def step(self, v, c):
        for i, b in enumerate(self.buses):
            if v[b.cyc] and v[b.stb]:
                self.checks += 1
                if i not in which(self.regs, v[b.adr]):
                    self.viol.append({"cycle": c, "kind": "cycle-presented-to-wrong-slave", "slave": i, "adr": v[b.adr]})
        return None


def run_case(case):
    rng = rng_for(case["seed"])
    nm, ns, kind = case["m"], case["s"], case["kind"]
    regs = gen_map(rng, ns)
    use_socregion = rng.random() < 0.5
    masters = [wishbone.Interface(data_width=32, adr_width=ADR_W) for _ in range(nm)]
    slaves = [wishbone.Interface(data_width=32, adr_width=ADR_W) for _ in range(ns)]
    decs = []
    for (o, k), s in zip(regs, slaves):
        if use_socregion:
            decs.append((SoCRegion(origin=o * 4, size=(1 << k) * 4).decoder(s), s))
        else:
            decs.append(((lambda a, o=o, k=k: a[k:] == (o >> k)), s))
    timeout = None
    top = Module()
    socmap_info = None
    if case.get("socmap"):
        from litex.soc.integration.soc import SoCBusHandler, SoCError
        from lib import env as _env
        masters = [wishbone.Interface(data_width=32, adr_width=30) for _ in range(nm)]
        slaves = [wishbone.Interface(data_width=32, adr_width=30) for _ in range(ns)]
        bus = SoCBusHandler(standard="wishbone", data_width=32, address_width=32, timeout=None, interconnect=kind,
                            interconnect_register=case["register"])
        for mi, m in enumerate(masters):
            bus.add_master("m%d" % mi, master=m)
        nxt, rejected, placed = 0, 0, []
        for si, s in enumerate(slaves):
            for attempt in range(6):
                size = rng.choice([0x30, 0x50, 0x60, 0xc0, 0x140, 0x300, 0x40, 0x100, 0x20])
                how = rng.choice(["after-previous", "auto", "auto", "aligned"])
                origin = {"after-previous": nxt, "auto": None, "aligned": (nxt + 0x3ff) & ~0x3ff}[how]
                try:
                    bus.add_slave("s%d" % si, slave=s, region=SoCRegion(origin=origin, size=size))
                    r_ = bus.regions["s%d" % si]
                    nxt = r_.origin + r_.size
                    placed.append([how, r_.origin, r_.size])
                    break
                except (SoCError, Exception):
                    _env.restore_stderr()
                    rejected += 1
                    bus.slaves.pop("s%d" % si, None)
                    bus.regions.pop("s%d" % si, None)
            else:
                return {"errs": [], "rejected_only": True, "st": None}
        top.submodules.socbus = bus
        try:
            bus.finalize()
        except (SoCError, Exception):
            _env.restore_stderr()
            return {"errs": [], "rejected_only": True, "st": None}
        regs = []
        for si in range(ns):
            r_ = bus.regions["s%d" % si]
            regs.append((r_.origin // 4, (r_.size_pow2 // 4).bit_length() - 1))
        socmap_info = {"placed": placed, "rejected_requests": rejected}
        ic = bus._interconnect
        if kind == "shared":
            arbs = [ic.arbiter]
        else:
            arbs = [m for _, m in ic._submodules if isinstance(m, wishbone.Arbiter)]
    elif kind == "shared":
        timeout = rng.choice([None, 16, 24])
        top.submodules.ic = ic = wishbone.InterconnectShared(masters, decs, register=case["register"], timeout_cycles=timeout)
        arbs = [ic.arbiter]
    elif kind == "crossbar":
        top.submodules.ic = ic = wishbone.Crossbar(masters, decs, register=case["register"])
        arbs = [m for _, m in ic._submodules if isinstance(m, wishbone.Arbiter)]
    else:
        top.submodules.ic = wishbone.InterconnectPointToPoint(masters[0], slaves[0])
        arbs = []
        regs = [(0, ADR_W)]
    nops = rng.randint(20, 50)
    hang_bound = nm * nops * ((timeout or 0) + 12) + 200
    bench = Bench(top, cap=nm * nops * 40 + 500 + hang_bound)
    mags, sags = [], []
    seqs = [0] * nm
    for mi, m in enumerate(masters):
        ops = []
        style = rng.choice(["b2b", "gaps", "mixed", "blocks"])
        for i in range(nops):
            if timeout is not None and rng.random() < 0.08:
                # unmapped address (only where a timeout will terminate it)
                while True:
                    adr = rng.randrange(1 << ADR_W)
                    if not which(regs, adr):
                        break
            else:
                o, k = regs[rng.randrange(len(regs))]
                adr = o + rng.choice([0, (1 << k) - 1, rng.randrange(1 << k)])
            gap = {"b2b": 0, "gaps": rng.randint(0, 6), "mixed": rng.choice([0, 0, 0, 1, 2, 9]),
                   "blocks": rng.choice([0, 0, 1])}[style]
            ops.append({"adr": adr, "we": rng.getrandbits(1), "sel": rng.choice([0xf, 0xf, rng.getrandbits(4)]),
                        "dat_w": (mi << 28) | (i << 16) | rng.getrandbits(16), "gap": gap,
                        "hold": (style == "blocks" and i % rng.choice([2, 3, 5, 8]) != 0) or rng.random() < 0.2})
            if not ops[-1]["hold"] and ops[-1]["gap"] == 0 and style == "blocks":
                ops[-1]["gap"] = 1          # a block ends by dropping cyc for a cycle
        ops[0]["gap"] = rng.choice([0, 0, 1, 2, 3])      # simultaneous / staggered starts
        # "each request receives exactly one termination": with every address mapped to a responsive slave, or a timeout configured,
        # a request waits at most for the other masters' requests (each bounded by slave latency / timeout); far beyond that it hangs
        mags.append(bench.add(WBMaster(m, ops, "m%d" % mi, max_wait=hang_bound)))
    for si, s in enumerate(slaves):
        def tagger(slv, adr, si=si):
            return (si << 28) | ((len(slv.log) & 0xfff) << 16) | (adr & 0xffff)
        sags.append(bench.add(WBSlave(s, rng, "s%d" % si, lat=rng.choice([(0, 0), (0, 2), (0, 6), (3, 3)]),
                                      err_p=rng.choice([0, 0, 0.15]), tagger=tagger, err_with_ack=True)))
    if kind == "shared":
        gms = [bench.add(GrantMonitor(arbs[0], "arb", masters=masters))]
    else:
        # crossbar: one arbiter per slave column, in slave order
        gms = [bench.add(GrantMonitor(a, "arb%d" % i, masters=masters, regs=regs, column=i)) for i, a in enumerate(arbs)]
    dm = bench.add(DecodeMonitor(slaves, regs))
    ok = bench.run()
    # ---- offline pairing
    errs = []
    by_slave_cycle = {}
    for si, s in enumerate(sags):
        for e in s.log:
            by_slave_cycle[(si, e["done"])] = e
    used = set()
    paired = unmapped = contended = 0
    for mi, m in enumerate(mags):
        for e in m.log:
            tgt = which(regs, e["adr"])
            if not tgt:
                unmapped += 1
                hit = [si for si in range(ns) if (si, e["done"]) in by_slave_cycle and (si, e["done"]) not in used
                       and by_slave_cycle[(si, e["done"])]["adr"] == e["adr"]]
                if hit:
                    errs.append({"kind": "unmapped-address-reached-a-slave", "master": mi, "op": e, "slave": hit})
                elif not (e["ack"] and e["dat_r"] == 0xffffffff):
                    errs.append({"kind": "unmapped-address-not-terminated-with-ack-and-ones", "master": mi, "op": e})
                continue
            si = tgt[0]
            se = by_slave_cycle.get((si, e["done"]))
            if se is None or (si, e["done"]) in used:
                # a timeout may legitimately end a request to a slow slave: ack + all ones and no slave completion
                if timeout is not None and e["ack"] and e["dat_r"] == 0xffffffff and e["done"] - e["issue"] >= timeout:
                    unmapped += 1
                    continue
                errs.append({"kind": "termination-without-slave-cycle", "master": mi, "op": e, "expected_slave": si})
                continue
            used.add((si, e["done"]))
            paired += 1
            if (se["adr"], se["we"], se["sel"]) != (e["adr"], e["we"], e["sel"]) or (e["we"] and se["dat_w"] != e["dat_w"]):
                errs.append({"kind": "cycle-altered-on-the-way", "master": mi, "op": e, "slave_saw": se})
            elif e["err"] != se["err"] or e["ack"] != 1:
                errs.append({"kind": "termination-kind-differs", "master": mi, "op": e, "slave_gave": se})
            elif not e["we"] and not e["err"] and e["dat_r"] != se["dat_r"]:
                errs.append({"kind": "read-data-from-wrong-source", "master": mi, "op": e, "slave_gave": se})
            if e["done"] - e["issue"] > 9 and nm > 1:
                contended += 1
    for key, se in by_slave_cycle.items():
        if key not in used:
            errs.append({"kind": "slave-cycle-without-master-termination", "slave": key[0], "slave_saw": se})
    for m in mags:
        for s_ in m.spurious[:1]:
            errs.append({"kind": "termination-seen-by-non-requesting-master", "master": m.name, "at": s_})
        if m.hung:
            errs.append({"kind": "request-never-terminated", "master": m.name, "at": m.hung})
    for g in gms:
        errs += g.viol[:1]
    errs += dm.viol[:1]
    # fairness: while master m waits, at most (M-1) ownership periods of other masters pass (shared bus)
    if kind == "shared" and nm > 1:
        hist = gms[0].hist
        for mi, m in enumerate(mags):
            for e in m.log:
                periods, last = 0, None
                for c in range(e["issue"], min(e["done"], len(hist))):
                    g, r = hist[c]
                    if g != mi and (r >> g) & 1:
                        if last != g:
                            periods += 1
                        last = g
                    elif g == mi:
                        break
                    else:
                        last = None
                if periods > nm - 1:
                    errs.append({"kind": "unfair-grant", "master": mi, "op": e, "other_ownership_periods": periods})
                    break
    return {"errs": errs[:4], "nerr": len(errs), "completed": sum(len(m.log) for m in mags), "paired": paired,
            "unmapped": unmapped, "contended": contended, "grant_changes": sum(g.changes for g in gms),
            "decode_checks": dm.checks, "cycles": bench.cycle["sys"], "capped": not ok,
            "held_gaps": sum(g.held_gaps for g in gms),
            "slave_errs": sum(1 for s in sags for e in s.log if e["err"]),
            "cfg": {"regs": regs, "socregion": use_socregion, "timeout": timeout, "socmap": socmap_info},
            "sample_master_log": mags[0].log[:3]}


def run_shard(shard):
    col = Collector(shard["cls"])
    for case in shard["cases"]:
        r = col.guard(case, run_case, case)
        if r is None:
            continue
        if r.get("rejected_only"):
            col.ev("socmap_maps_refused_entirely")
            col.case_done(case, False)
            continue
        if case.get("socmap"):
            col.ev("socmap_maps_built")
            col.ev("socmap_requests_refused", r["cfg"]["socmap"]["rejected_requests"])
            for how, o, sz in r["cfg"]["socmap"]["placed"]:
                col.ev("socmap_regions_" + ("pow2" if sz & (sz - 1) == 0 else "not_pow2"))
                col.cov("socmap_placements", how)
        col.ev("master_cycles_completed", r["completed"])
        col.ev("paired_with_slave", r["paired"])
        col.ev("unmapped_terminated", r["unmapped"])
        col.ev("contended_waits", r["contended"])
        col.ev("grant_changes", r["grant_changes"])
        col.ev("decode_checks", r["decode_checks"])
        col.ev("owner_holds_cyc_with_stb_low_cycles", r["held_gaps"])
        col.ev("slave_err_terminations", r["slave_errs"])
        col.ev("sim_cycles", r["cycles"])
        col.cov("topologies", "%s/%dx%d/reg%d" % (case["kind"], case["m"], case["s"], int(case["register"])))
        if r["capped"] and not r["errs"]:
            col.inconc(case, "cycle cap reached")
        for e in r["errs"][:1]:
            col.violation("%s%s/%s" % (case["kind"], "+socmap" if case.get("socmap") else "", e["kind"]), case, "%s %dx%d register=%s: %s" % (
                case["kind"], case["m"], case["s"], case["register"], e), {"errors": r["errs"], "cfg": r["cfg"]})
        col.case_done(case, r["contended"] > 0 or r["completed"] >= 10,
                      sample={"case": case, "map(origin_words,log2size)": r["cfg"]["regs"], "completed": r["completed"],
                              "paired": r["paired"], "grant_changes": r["grant_changes"], "first_master_ops": r["sample_master_log"]})
    return col.result()
