"""C07 - Wishbone adapters and memories behave as a flat byte-addressable memory towards the master.
History at the master port + reference byte memory (RefMem); exactly-one-ack monitors."""
from migen import *

from litex.soc.interconnect import wishbone, csr_bus
from litex.soc.integration.soc import SoCRegion

from lib.collect import Collector, rng_for, h
from lib.bench.kernel import Bench
from lib.bench.wb import WBMaster, WBSlave, WBProtocolMonitor, apply_sel

LEVEL = "exploration"
RULE = ("one case = one adapter/memory configuration (DownConverter, UpConverter, Converter, Cache geometries, Remapper, "
        "Wishbone2CSR, SRAM classic/bursting/read-only, chains) x one history of 60-300 reads/writes over a small address window "
        "(forces aliasing, dirty evictions, partial writes then wide reads) with random byte selects incl. 0, random gaps and "
        "burst cycles, over a backing LiteX SRAM or a BFM memory with latency 1..6. Every read is compared byte by byte "
        "(selected bytes) with a reference byte memory updated at each completed write; the history ends with a read sweep of the "
        "whole window. Non-trivial = >= 20 reads compared AND >= 10 writes; distinct = distinct case digests")
ASSUMPTIONS = ["migen tracer shim (names only)", "read data is compared on selected byte lanes only",
               "Cache(reverse=...) lane order is used to map the backing memory's initial content to master addresses",
               "burst masters advance one beat per acknowledged cycle and follow the Wishbone B4 address sequence",
               "addresses stay inside the backing memory (beyond it the SRAM aliases by design)"]
FLOORS = {"quick": {"reads_compared": 15000, "bytes_compared": 50000, "writes": 8000, "n_configs": 40, "burst_beats": 1500, "burst_beats_after_master_wait_state": 150,
                    "cache_evictions": 300},
          "thorough": {"reads_compared": 300000, "bytes_compared": 1000000, "writes": 150000, "n_configs": 60,
                       "burst_beats": 40000, "burst_beats_after_master_wait_state": 4000, "cache_evictions": 6000}}
SHARD_TIMEOUT = {"quick": 900, "thorough": 3000}
N_SAMPLES = 3


# ------------------------------------------------------------------------------------ catalogue
def catalogue(tier):
    c = []
    for dwf, dwt in [(64, 32), (32, 16), (32, 8), (64, 8), (64, 16)]:
        for backing in ("sram", "bfm"):
            c.append({"dut": "down", "dwf": dwf, "dwt": dwt, "backing": backing})
    c.append({"dut": "down", "dwf": 64, "dwt": 32, "backing": "sram_burst", "bursts": True})
    for dwf, dwt in [(8, 32), (16, 32), (32, 64), (8, 64)]:
        for backing in ("sram", "bfm"):
            c.append({"dut": "up", "dwf": dwf, "dwt": dwt, "backing": backing})
    for dwf, dwt in [(32, 32), (64, 16), (16, 64)]:
        c.append({"dut": "converter", "dwf": dwf, "dwt": dwt, "backing": "sram"})
    for cs, dwf, dwt in [(4, 32, 32), (8, 32, 32), (16, 32, 64), (8, 32, 128), (16, 64, 32), (64, 32, 32), (8, 32, 64), (4, 64, 32), (16, 32, 16)]:
        for rev in (True, False):
            for backing in ("sram", "bfm"):
                for cold in (False, True):
                    if cold and backing == "bfm":
                        continue
                    c.append({"dut": "cache", "cachesize": cs, "dwf": dwf, "dwt": dwt, "reverse": rev, "backing": backing,
                              "tag0": cold})
    for k in range(4):
        c.append({"dut": "remap", "variant": k, "backing": "sram"})
    for reg in (True, False):
        c.append({"dut": "wb2csr", "register": reg})
    for ro in (False, True):
        c.append({"dut": "sram", "bursting": False, "read_only": ro, "dw": 32})
    c.append({"dut": "sram", "bursting": False, "read_only": False, "dw": 64})
    c.append({"dut": "sram", "bursting": True, "read_only": False, "dw": 32, "bursts": True})
    c.append({"dut": "sram", "bursting": True, "read_only": True, "dw": 32, "bursts": True})
    c.append({"dut": "sram", "bursting": True, "read_only": False, "dw": 64, "bursts": True})
    # hostile class: wrapping bursts with more beats than the wrap size (Wishbone B4 allows any length)
    c.append({"dut": "sram", "bursting": True, "read_only": False, "dw": 32, "bursts": True, "longwrap": True})
    c.append({"dut": "chain", "backing": "sram"})
    c.append({"dut": "chain", "backing": "bfm"})
    return c


def plan(tier, seed):
    cat = catalogue(tier)
    per = 5 if tier == "quick" else 100
    cases = []
    for ci, cfg in enumerate(cat):
        for k in range(per):
            cases.append({"cfg": cfg, "seed": "%d/C07/%d/%d" % (seed, ci, k)})
    n = 48 if tier == "quick" else 160
    return [{"id": "wb%03d" % i, "cls": "adapter", "cases": cases[i::n]} for i in range(n)]


# ------------------------------------------------------------------------------------ builders
class Built:
    pass


def mk_backing(top, rng, kind, dw, words, bench_agents, lat=None):
    """Backing memory of `words` words of dw bits behind `bus`; returns (bus, init list, reader)"""
    init = [rng.getrandbits(dw) for _ in range(words)]
    if kind.startswith("sram"):
        bus = wishbone.Interface(data_width=dw, adr_width=16, bursting=(kind == "sram_burst"))
        sram = wishbone.SRAM(words * dw // 8, init=list(init), bus=bus)
        top.submodules += sram
        return bus, init, ("mem", sram.mem)
    bus = wishbone.Interface(data_width=dw, adr_width=16)
    mem = {i: x for i, x in enumerate(init)}
    slv = WBSlave(bus, rng, "backing", lat=lat or rng.choice([(0, 0), (0, 3), (1, 5)]), mem=mem)
    bench_agents.append(slv)
    return bus, init, ("bfm", slv)


def build(cfg, rng):
    b = Built()
    top = Module()
    agents = []
    b.top, b.agents = top, agents
    b.base = 0              # first master word address of the window
    b.extra_mon = []
    b.cache = None
    d = cfg["dut"]
    if d in ("down", "up", "converter"):
        dwf, dwt = cfg["dwf"], cfg["dwt"]
        words_m = 16 if dwf >= dwt else 64
        total_bytes = words_m * dwf // 8
        sbus, init, b.backing = mk_backing(top, rng, cfg["backing"], dwt, total_bytes * 8 // dwt, agents)
        m = wishbone.Interface(data_width=dwf, adr_width=16, bursting=cfg.get("bursts", False))
        cls = {"down": wishbone.DownConverter, "up": wishbone.UpConverter, "converter": wishbone.Converter}[d]
        top.submodules += cls(m, sbus)
        b.master, b.words = m, words_m
        b.init_bytes = flat_bytes(init, dwt)
        b.slave_bus = sbus
    elif d == "cache":
        dwf, dwt, cs = cfg["dwf"], cfg["dwt"], cfg["cachesize"]
        # window = 4 x cache size (in master words) so that lines alias; with tag0=False the window starts
        # at tag 1 (address bit above the line index set) so that cold lines never match
        offsetbits = max(dwt // dwf, 1).bit_length() - 1
        wordbits = max(dwf // dwt, 1).bit_length() - 1
        linebits = (cs.bit_length() - 1) - offsetbits
        words_m = 4 * cs
        b.base = 0 if cfg["tag0"] else (1 << (linebits + offsetbits)) * 4
        total_m_words = b.base + words_m
        total_bytes = total_m_words * dwf // 8
        sbus, init, b.backing = mk_backing(top, rng, cfg["backing"], dwt, total_bytes * 8 // dwt, agents)
        m = wishbone.Interface(data_width=dwf, adr_width=16 + offsetbits - wordbits)
        top.submodules.cache = b.cache = wishbone.Cache(cs, m, sbus, reverse=cfg["reverse"])
        b.master, b.words = m, words_m
        bytes_ = flat_bytes(init, dwt)
        if dwt > dwf and cfg["reverse"]:
            # reverse=True: master word with offset o sits in lane (n-1-o) of the wide slave word
            n = dwt // dwf
            nbm = dwf // 8
            out = {}
            for a in range(total_m_words):
                sw, o = a // n, a % n
                lane = n - 1 - o
                for k in range(nbm):
                    out[a * nbm + k] = bytes_[sw * (dwt // 8) + lane * nbm + k]
            bytes_ = out
        elif dwf > dwt and cfg["reverse"]:
            pass        # narrow slave: words are filled in address order (word counter), no lane reversal
        b.init_bytes = bytes_
        b.slave_bus = sbus
        b.linebits, b.offsetbits = linebits, offsetbits
    elif d == "remap":
        v = cfg["variant"]
        sbus, init, b.backing = mk_backing(top, rng, "sram", 32, 256, agents)
        if v < 2:
            m = wishbone.Interface(data_width=32, adr_width=16)
            origin, size = [(0x100, 0x100), (0x200, 0x80)][v]          # bytes
            top.submodules += wishbone.Remapper(m, sbus, origin=origin, size=size)
            b.master, b.words = m, size // 4
            # master word a (any high bits) -> slave word (origin>>2) | (a & mask)
            b.base = rng.choice([0, 0x1000, 0x4000 + 0x40])
            b.base &= ~((size // 4) - 1)
            b.init_bytes = {}
            fb = flat_bytes(init, 32)
            for a in range(size // 4):
                for k in range(4):
                    b.init_bytes[(b.base + a) * 4 + k] = fb[((origin // 4) | a) * 4 + k]
        else:
            m = wishbone.Interface(data_width=32, adr_width=16)
            # the master's window reaches 8 words below and above the source region: those words are outside every region and go
            # through untranslated (the word just past the region's end included)
            src = SoCRegion(origin=0x200, size=0x80)
            dst = SoCRegion(origin=0x300 if v == 2 else 0x0, size=0x80)
            top.submodules += wishbone.Remapper(m, sbus, src_regions=[src], dst_regions=[dst])
            b.master, b.words = m, 0x80 // 4 + 16
            b.base = 0x200 // 4 - 8
            fb = flat_bytes(init, 32)
            b.init_bytes = {}
            for a in range(b.words):
                w = b.base + a
                inside = 0x200 // 4 <= w < (0x200 + 0x80) // 4
                for k in range(4):
                    b.init_bytes[w * 4 + k] = fb[dst.origin + (w - 0x200 // 4) * 4 + k] if inside else fb[w * 4 + k]
        b.slave_bus = sbus
    elif d == "wb2csr":
        m = wishbone.Interface(data_width=32, adr_width=16)
        cbus = csr_bus.Interface(data_width=32, address_width=14)
        top.submodules += wishbone.Wishbone2CSR(m, cbus, register=cfg["register"])
        init = [rng.getrandbits(32) for _ in range(64)]
        mem = Memory(32, 64, init=list(init))
        top.submodules.csrsram = s = csr_bus.SRAM(mem, 0, bus=cbus, paging=0x800, read_only=False)
        b.master, b.words = m, 64
        b.init_bytes = flat_bytes(init, 32)
        b.backing = ("mem", mem)
        b.slave_bus = None
        b.full_sel_only = True         # the CSR bus has no byte enables
    elif d == "sram":
        dw = cfg["dw"]
        m = wishbone.Interface(data_width=dw, adr_width=16, bursting=cfg["bursting"])
        init = [rng.getrandbits(dw) for _ in range(64)]
        top.submodules.sram = s = wishbone.SRAM(64 * dw // 8, init=list(init), bus=m, read_only=cfg["read_only"])
        b.master, b.words = m, 64
        b.init_bytes = flat_bytes(init, dw)
        b.backing = ("mem", s.mem)
        b.slave_bus = None
        b.read_only = cfg["read_only"]
    elif d == "chain":
        # Converter 64->32 -> Cache 32/32 -> SRAM / BFM
        sbus, init, b.backing = mk_backing(top, rng, cfg["backing"], 32, 8 * 16 + 32, agents)
        mid = wishbone.Interface(data_width=32, adr_width=16)
        m = wishbone.Interface(data_width=64, adr_width=15)
        top.submodules += wishbone.Converter(m, mid)
        top.submodules.cache = b.cache = wishbone.Cache(8, mid, sbus, reverse=True)
        b.base = 8          # 64-bit words; mid words 16.. -> tag 2
        b.master, b.words = m, 16
        b.init_bytes = flat_bytes(init, 32)
        b.slave_bus = sbus
        b.linebits, b.offsetbits = 3, 0
    else:
        raise ValueError(d)
    return b


def flat_bytes(init, dw):
    out = {}
    nb = dw // 8
    for a, x in enumerate(init):
        for k in range(nb):
            out[a * nb + k] = (x >> (8 * k)) & 0xff
    return out


# ------------------------------------------------------------------------------------ ops
def gen_ops(rng, b, cfg, n):
    nb = len(b.master.dat_w) // 8
    full = (1 << nb) - 1
    ops = []
    window = b.words
    hot = [rng.randrange(window) for _ in range(6)]

    def sel():
        if getattr(b, "full_sel_only", False):
            return rng.choice([full, full, full, 0])      # no byte enables behind the bridge: whole word or nothing at all
        return rng.choice([full, full, full, rng.getrandbits(nb), 1 << rng.randrange(nb), 0, full & ~(1 << rng.randrange(nb))])
    i = 0
    while i < n:
        a = rng.choice(hot) if rng.random() < 0.4 else rng.randrange(window)
        if cfg.get("bursts") and rng.random() < 0.5:
            # one Wishbone B4 burst: incrementing (linear or wrapped) or constant address
            kind = rng.choice(["incr", "incr", "wrap4", "wrap8", "wrap16", "const"])
            ln = rng.choice([2, 3, 4, 8, 16, 5])
            we = rng.getrandbits(1)
            bte = {"incr": 0, "const": 0, "wrap4": 1, "wrap8": 2, "wrap16": 3}[kind]
            wrap = {0: None, 1: 4, 2: 8, 3: 16}[bte]
            if kind == "incr":
                a = min(a, window - ln) if window > ln else 0
                ln = min(ln, window)
            if wrap and wrap > window:
                continue
            if wrap and not cfg.get("longwrap"):
                ln = min(ln, wrap)
            if wrap and cfg.get("longwrap") and rng.random() < 0.5:
                ln = wrap + rng.choice([1, 2, wrap])
            s = sel() if we else full
            # master wait states inside the burst (stb low, cyc and the burst's cti kept): legal in Wishbone B4 (a master may
            # negate STB_O between the beats of a block / burst cycle); a third of the bursts have some
            waits = rng.random() < 0.35
            for k in range(ln):
                if kind == "const":
                    adr = a
                elif wrap:
                    adr = (a & ~(wrap - 1)) | ((a + k) & (wrap - 1))
                else:
                    adr = a + k
                cti = 7 if k == ln - 1 else (1 if kind == "const" else 2)
                ops.append({"adr": b.base + adr, "we": we, "sel": s, "dat_w": rng.getrandbits(8 * nb), "cti": cti,
                            "bte": bte, "gap": rng.choice([0, 0, 2]) if k == 0 else (rng.choice([0, 1, 1, 2, 3]) if waits else 0),
                            "hold": k > 0, "burst": kind,
                            "beat": k, "wrap": wrap})
            i += ln
            continue
        we = int(rng.random() < 0.45)
        ops.append({"adr": b.base + a, "we": we, "sel": sel() if we else rng.choice([full, full, full, sel()]),
                    "dat_w": rng.getrandbits(8 * nb), "gap": rng.choice([0, 0, 0, 1, 3, 7]), "hold": rng.random() < 0.3})
        i += 1
    for a in range(window):           # final read sweep
        ops.append({"adr": b.base + a, "we": 0, "sel": full, "gap": 0, "hold": True})
    return ops


class EvictionCounter:
    def __init__(self, cache):
        self.fsm = cache.fsm
        self.n = 0
        self.states = set()

    def signals(self):
        return [self.fsm.state]

    def step(self, v, c):
        s = v[self.fsm.state]
        self.states.add(s)
        if s == self.fsm.encoding.get("EVICT"):
            self.n += 1
        return None


def run_case(case):
    rng = rng_for(case["seed"])
    cfg = case["cfg"]
    b = build(cfg, rng)
    nops = case.get("n", rng.choice([60, 120, 200]))
    ops = gen_ops(rng, b, cfg, nops)
    bench = Bench(b.top, cap=len(ops) * 60 + 500)
    for a in b.agents:
        bench.add(a)
    m = bench.add(WBMaster(b.master, ops, "m"))
    pm = bench.add(WBProtocolMonitor(b.master, "master-port", check_hold=False))
    sm = None
    if b.slave_bus is not None and b.backing[0] == "bfm":
        sm = bench.add(WBProtocolMonitor(b.slave_bus, "slave-port", check_hold=True))
    ec = bench.add(EvictionCounter(b.cache)) if b.cache is not None else None
    ok = bench.run()
    # ---- reference memory replay
    nb = len(b.master.dat_w) // 8
    ref = dict(b.init_bytes)
    errs = []
    reads = bytes_cmp = writes = beats = 0
    touched_tags = {}
    for e in m.log:
        op = ops[e["i"]]
        if op.get("burst"):
            beats += 1
        if e["err"]:
            errs.append({"kind": "unexpected-err", "op": e})
            continue
        if e["we"]:
            writes += 1
            if not getattr(b, "read_only", False):
                for k in range(nb):
                    if (e["sel"] >> k) & 1:
                        ref[e["adr"] * nb + k] = (e["dat_w"] >> (8 * k)) & 0xff
        else:
            reads += 1
            for k in range(nb):
                if (e["sel"] >> k) & 1:
                    bytes_cmp += 1
                    exp = ref.get(e["adr"] * nb + k)
                    got = (e["dat_r"] >> (8 * k)) & 0xff
                    if exp is not None and exp != got:
                        kind = "read-returns-wrong-byte"
                        if b.cache is not None and cfg.get("tag0") and (e["adr"] * nb + k) in cold_taint(b, cfg, e, m.log, nb):
                            kind = "cold-line-hits-on-tag-0"
                        if cfg.get("longwrap") and any(o.get("wrap") and o.get("beat", 0) >= o["wrap"] for o in ops[:e["i"] + 1]):
                            kind = "wrap-burst-longer-than-wrap-size"
                        errs.append({"kind": kind, "op": e, "byte": k, "expected": exp, "got": got,
                                     "burst": op.get("burst")})
                        break
        if len(errs) > 3:
            break
    if m.spurious:
        errs.append({"kind": "ack-without-request", "at": m.spurious[0]})
    errs += pm.viol[:1]
    if sm:
        errs += sm.viol[:1]
    # backing store check for pass-through DUTs (not for write-back caches): memory == ref
    if b.cache is None and b.backing[0] == "mem" and cfg["dut"] in ("sram", "down", "up", "converter") and not errs and ok:
        mem = b.backing[1]
        arr = bench.sim.evaluator.replaced_memories.get(mem)
        if arr is not None:
            sv = bench.sim.evaluator.signal_values
            words = [sv.get(s, s.reset.value) for s in arr]
            fb = flat_bytes(words, mem.width)
            base_b = b.base * nb
            for adr_b, val in ref.items():
                if fb.get(adr_b - 0, None) is not None and cfg["dut"] != "remap" and fb[adr_b] != val:
                    errs.append({"kind": "backing-memory-differs-from-reference", "byte_address": adr_b, "expected": val, "got": fb[adr_b]})
                    break
    return {"errs": errs[:3], "reads": reads, "bytes": bytes_cmp, "writes": writes, "beats": beats, "waited": sum(1 for e in m.log if e["i"] < len(ops) and ops[e["i"]].get("burst") and ops[e["i"]].get("beat", 0) > 0 and ops[e["i"]].get("gap", 0) > 0), "wait_state_acks": m.wait_state_acks, "capped": not ok,
            "cycles": bench.cycle["sys"], "completed": len(m.log), "nops": len(ops), "evictions": ec.n if ec else 0,
            "acks": pm.acks, "sample": m.log[:3]}


def cold_taint(b, cfg, e, log, nb):
    """Classifier of the known finding 'no valid bit': shadow of the tag store (all tags 0, nothing filled at
    start). An access whose tag equals the stored tag of a line that was never refilled is answered from the
    never-filled line ('cold hit'): from then on every byte of that line at tag 0 is tainted (the garbage line may
    also be written back over the backing memory). Returns the set of tainted master byte addresses before e."""
    if cfg["dut"] == "chain":
        return set()
    shift = b.linebits + b.offsetbits
    nlines = 1 << b.linebits
    tags = [0] * nlines
    filled = [False] * nlines
    taint = set()
    for x in log:
        if x["i"] > e["i"]:
            break
        line = (x["adr"] >> b.offsetbits) & (nlines - 1)
        tag = x["adr"] >> shift
        if tags[line] == tag:
            if not filled[line]:
                base = ((tag << b.linebits) | line) << b.offsetbits
                for a in range(base, base + (1 << b.offsetbits)):
                    for k in range(nb):
                        taint.add(a * nb + k)
        else:
            tags[line] = tag
            filled[line] = True
    return taint


def run_shard(shard):
    col = Collector(shard["cls"])
    for case in shard["cases"]:
        r = col.guard(case, run_case, case)
        if r is None:
            continue
        cfg = case["cfg"]
        col.ev("reads_compared", r["reads"])
        col.ev("bytes_compared", r["bytes"])
        col.ev("writes", r["writes"])
        col.ev("burst_beats", r["beats"])
        col.ev("burst_beats_after_master_wait_state", r.get("waited", 0))
        col.ev("lookahead_acks_in_master_wait_states(ignored)", r.get("wait_state_acks", 0))
        col.ev("cache_evictions", r["evictions"])
        col.ev("acks_seen", r["acks"])
        col.ev("sim_cycles", r["cycles"])
        col.cov("configs", h(cfg))
        col.cov("duts", cfg["dut"])
        if r["capped"] or r["completed"] < r["nops"]:
            if not r["errs"]:
                col.violation("%s/request-never-acknowledged" % cfg["dut"], case,
                              "%s: history did not complete (%d of %d operations) within the cycle cap" % (cfg, r["completed"], r["nops"]), r)
        for e in r["errs"][:1]:
            col.violation("%s/%s" % (cfg["dut"], e["kind"]), case, "%s: %s" % (cfg, e), {"errors": r["errs"]})
        col.case_done(case, r["reads"] >= 20 and r["writes"] >= 10,
                      sample={"case": case, "reads_compared": r["reads"], "writes": r["writes"], "evictions": r["evictions"],
                              "first_ops": r["sample"]})
    return col.result()
