"""C08 - AXI-Lite / AXI interconnects: every accepted AW/W pair and AR reaches exactly the slave
selected by its address, B/R return exactly once to the issuer in issue order; grants are frozen
while responses are outstanding. Five-channel handshake logs with unique ids, paired offline."""
from migen import *

from litex.soc.interconnect import axi

from lib.collect import Collector, rng_for, h
from lib.bench.kernel import Bench
from lib.bench.stream import make_sched, Always
from lib.bench.axil import AXILMaster, AXILSlave, port_monitors
from props import c08_full

LEVEL = "exploration"
RULE = ("one case = one topology (AXI-Lite shared / crossbar, AXI4 shared / crossbar; 1..3 masters x 1..3 slaves, random disjoint "
        "address map) x one master timing class x per-channel schedules. Classes: A = address with/before data, single outstanding "
        "(LiteX-like, must be clean); B = data before address; C = 2..4 outstanding requests; D = heavy B/R back-pressure with "
        "simultaneous reads and writes; E = eager masters with 2..4 outstanding requests to one slave each and quick slaves (requests "
        "accepted in the cycle earlier responses complete; must be clean). Every AW/W/AR carries (master, seq), every R carries (slave, n); slave BFMs accept the three "
        "request channels independently, queue up to 4 and answer in order with random delay and random resp. Logs of all ports are "
        "paired offline; stability of every DUT-driven valid is monitored online; arbiter grant vs outstanding counter every cycle. "
        "Non-trivial = >= 10 responses returned and (>= 2 masters or >= 2 slaves); distinct = distinct case digests")
ASSUMPTIONS = ["migen tracer shim (names only)", "masters and slaves are AXI-legal (valid held until ready); AXI4 IDs are not reordered (LiteX keeps order)",
               "a cooperative suffix (all agents eager) is used for bounded progress"]
FLOORS = {"quick": {"b_returned": 4000, "r_returned": 4000, "w_paired": 4000, "stability_checks": 5000, "lock_checks": 20000,
                    "axi_full_beats": 3000},
          "thorough": {"b_returned": 80000, "r_returned": 80000, "w_paired": 80000, "stability_checks": 100000,
                       "lock_checks": 400000, "axi_full_beats": 60000}}
SHARD_TIMEOUT = {"quick": 900, "thorough": 3000}
N_SAMPLES = 3
AW = 14   # address bits (bytes)


def plan(tier, seed):
    per = 3 if tier == "quick" else 40
    cases = []
    for std in ("lite", "full"):
        for kind in ("shared", "crossbar"):
            for m in (1, 2, 3):
                for s in (1, 2, 3):
                    for cls in "ABCDE":
                        for k in range(per):
                            if std == "full" and k >= max(1, per // 2):
                                continue
                            cases.append({"std": std, "kind": kind, "m": m, "s": s, "cls": cls,
                                          "seed": "%d/C08/%s/%s/%d%d%s/%d" % (seed, std, kind, m, s, cls, k)})
    n = 48 if tier == "quick" else 160
    return [{"id": "axi%03d" % i, "cls": "interconnect", "cases": cases[i::n]} for i in range(n)]


def gen_map(rng, ns):
    """disjoint power-of-two windows, in words (32-bit): (origin_words, log2 size_words), size >= 64 words"""
    WW = AW - 2
    while True:
        regs = []
        for _ in range(ns):
            k = rng.randint(6, WW - 2)
            o = rng.randrange(0, 1 << (WW - k)) << k
            regs.append((o, k))
        if all(not (a[0] < b[0] + (1 << b[1]) and b[0] < a[0] + (1 << a[1])) for i, a in enumerate(regs) for b in regs[:i]):
            return regs


def which(regs, byte_addr):
    wa = byte_addr >> 2
    return [i for i, (o, k) in enumerate(regs) if o <= wa < o + (1 << k)]


class LockMonitor:
    """grant must not move while the arbiter's outstanding-request counter is non-zero."""
    def __init__(self, arb):
        self.items = [(arb.rr_write.grant, arb.wr_lock.counter, "write"), (arb.rr_read.grant, arb.rd_lock.counter, "read")]
        self.prev = None
        self.viol = []
        self.checks = 0
        self.max_counter = 0
        self.changes = []          # (cycle, direction, from, to): judged offline against the handshakes seen at the slave ports

    def signals(self):
        return [s for g, c, _ in self.items for s in (g, c)]

    def step(self, v, c):
        cur = [(v[g], v[cn]) for g, cn, _ in self.items]
        if self.prev is not None:
            for (pg, pc), (g, cn), (_, _, d) in zip(self.prev, cur, self.items):
                self.checks += 1
                self.max_counter = max(self.max_counter, cn)
                if g != pg:
                    self.changes.append((c, d, pg, g))
                if pc != 0 and g != pg:
                    self.viol.append({"cycle": c, "kind": "grant-moved-with-responses-outstanding", "dir": d,
                                      "counter": pc, "from": pg, "to": g})
        self.prev = cur
        return None


def root_cause(m_aw, m_b, m_ar, m_r, s_w, decode):
    """Mechanism classifiers over the recorded history (used only to NAME the root cause of an error):
    m_aw[i] = [(cycle, addr)], m_b[i] = [cycle], m_ar[i] = [(cycle, addr)], m_r[i] = [cycle of (last) R beat],
    s_w = [(cycle, master, seq)] first W beat of every write burst accepted by any slave.
    Returns 'w-accepted-before-its-aw', 'request-issued-to-another-slave-while-responses-outstanding' or None."""
    for (cw, mi, seq) in s_w:
        if mi < len(m_aw):
            aws = m_aw[mi]
            if seq >= len(aws) or aws[seq][0] > cw:
                return "w-accepted-before-its-aw(routed-by-idle-aw-address)"
    for reqs, resps in ((m_aw, m_b), (m_ar, m_r)):
        for mi in range(len(reqs)):
            for k, (c, addr) in enumerate(reqs[mi]):
                done = sum(1 for x in resps[mi] if x < c)
                if done < k:          # requests done..k-1 are still outstanding in cycle c
                    if any(decode(reqs[mi][j][1]) != decode(addr) for j in range(done, k)):
                        return "request-to-another-slave-while-responses-outstanding(frozen-select)"
    return None


def data_before_address(mags, errs):
    """Second classifier of the same mechanism: the first error is on the W path (or a hang) and some master really
    made W[k] visible before AW[k] in this history (the decoder then steers W by the idle aw.addr lines)."""
    k0 = errs[0]["kind"]
    if not (k0.startswith("w-") or k0 in ("request-never-answered", "handshake-count-differs-between-master-and-slave-side")):
        return None
    for m in mags:
        if any(k < len(m.offered["aw"]) and m.offered["w"][k] < m.offered["aw"][k] for k in range(len(m.offered["w"]))) \
                or len(m.offered["w"]) > len(m.offered["aw"]):
            return "w-accepted-before-its-aw(routed-by-idle-aw-address)"
    return None


def class_params(rng, cls):
    if cls == "A":
        return dict(order=rng.choice(["together", "aw_first"]), max_out=1, p_aw=rng.choice([1.0, 0.5, 0.2]),
                    p_w=rng.choice([1.0, 0.5]), p_ar=rng.choice([1.0, 0.5, 0.2]), bp=None)
    if cls == "B":
        return dict(order="w_first", max_out=1, p_aw=rng.choice([0.5, 0.2, 0.1]), p_w=1.0, p_ar=rng.choice([1.0, 0.5]), bp=None)
    if cls == "C":
        return dict(order=rng.choice(["together", "aw_first", "free"]), max_out=rng.choice([2, 3, 4]), p_aw=rng.choice([1.0, 0.7]),
                    p_w=rng.choice([1.0, 0.7]), p_ar=1.0, bp=None)
    if cls == "E":
        # eager masters with several outstanding requests (to one slave per master, see run_case): a new request is often
        # accepted in the very cycle an earlier response completes
        return dict(order="together", max_out=rng.choice([2, 3, 4]), p_aw=1.0, p_w=1.0, p_ar=1.0, bp=None)
    return dict(order=rng.choice(["together", "aw_first"]), max_out=1, p_aw=1.0, p_w=1.0, p_ar=1.0, bp="heavy")


def run_case(case):
    if case["std"] == "full":
        return c08_full.run_case(case)
    rng = rng_for(case["seed"])
    nm, ns, kind, cls = case["m"], case["s"], case["kind"], case["cls"]
    regs = gen_map(rng, ns)
    masters = [axi.AXILiteInterface(data_width=32, address_width=AW) for _ in range(nm)]
    slaves = [axi.AXILiteInterface(data_width=32, address_width=AW) for _ in range(ns)]
    decs = [((lambda a, o=o, k=k: a[k:] == (o >> k)), s) for (o, k), s in zip(regs, slaves)]
    top = Module()
    if kind == "shared":
        top.submodules.ic = ic = axi.AXILiteInterconnectShared(masters, decs, timeout_cycles=None)
        arbs = [ic.arbiter]
    else:
        top.submodules.ic = ic = axi.AXILiteCrossbar(masters, decs, timeout_cycles=None)
        arbs = [m for _, m in ic._submodules if isinstance(m, axi.AXILiteArbiter)]
    nw, nr = rng.randint(8, 20), rng.randint(8, 20)
    hostile = rng.randint(150, 500)
    bench = Bench(top, cap=hostile + (nw + nr) * nm * 40 + 800)
    mags, sags, mmons, smons = [], [], [], []
    for mi, m in enumerate(masters):
        p = class_params(rng, cls)
        writes, reads = [], []
        home = rng.randrange(ns)
        for i in range(nw):
            o, k = regs[home if cls == "E" else rng.randrange(ns)]
            writes.append({"addr": (o + (i & 63)) * 4, "data": (mi << 28) | (i << 16) | rng.getrandbits(16),
                           "strb": rng.choice([0xf, 0xf, rng.getrandbits(4)]), "prot": mi})
        for i in range(nr):
            o, k = regs[home if cls == "E" else rng.randrange(ns)]
            reads.append({"addr": (o + (i & 63)) * 4, "prot": mi})
        bs = make_sched(rng, "b10" if p["bp"] else rng.choice(["always", "b90", "b50"]))[0]
        rs = make_sched(rng, "b10" if p["bp"] else rng.choice(["always", "b90", "b50"]))[0]
        mags.append(bench.add(AXILMaster(m, writes, reads, rng, order=p["order"], max_out=p["max_out"], p_aw=p["p_aw"],
                                         p_w=p["p_w"], p_ar=p["p_ar"], b_sched=bs, r_sched=rs, coop_from=hostile,
                                         name="m%d" % mi, prot=mi)))
        mmons.append(port_monitors(bench, m, "m%d" % mi, "responses"))
    for si, s in enumerate(slaves):
        def tagger(slv, addr, n, si=si):
            return (si << 28) | ((n & 0xfff) << 16) | (addr & 0xffff)
        eager = cls == "E"
        sags.append(bench.add(AXILSlave(s, rng, "s%d" % si, depth=4, aw_sched=Always(True) if eager else make_sched(rng)[0],
                                        w_sched=Always(True) if eager else make_sched(rng)[0],
                                        ar_sched=Always(True) if eager else make_sched(rng)[0],
                                        lat=rng.choice([(0, 0), (1, 1), (0, 2), (2, 3)]) if eager else rng.choice([(0, 0), (0, 4), (2, 8)]),
                                        err_p=rng.choice([0, 0.2]), tagger=tagger, coop_from=hostile)))
        smons.append(port_monitors(bench, s, "s%d" % si, "requests"))
    lms = [bench.add(LockMonitor(a)) for a in arbs]
    from lib.bench.stream import ActivityWatch
    bench.add(ActivityWatch([mon for pm in mmons for mon in pm.values()], hostile, quiet=120))
    ok = bench.run()
    errs = []
    # ---- slave-side: routing and AW/W pairing
    w_paired = 0
    slave_b_for = {}      # (master, seq) -> (slave, cycle, resp)
    slave_r_for = {}
    for si, s in enumerate(sags):
        for (c, addr, prot) in s.log["aw"]:
            if si not in which(regs, addr):
                errs.append({"kind": "aw-reached-wrong-slave", "slave": si, "addr": addr, "master": prot, "cycle": c})
        for (c, addr, prot) in s.log["ar"]:
            if si not in which(regs, addr):
                errs.append({"kind": "ar-reached-wrong-slave", "slave": si, "addr": addr, "master": prot, "cycle": c})
        ids = []
        for i, ((c, addr, prot), (cw, data, strb)) in enumerate(zip(s.log["aw"], s.log["w"])):
            aid = (prot, ((addr >> 2) & 63))
            wid = (data >> 28, (data >> 16) & 63)
            w_paired += 1
            if aid != wid:
                errs.append({"kind": "w-data-paired-with-another-request's-address", "slave": si, "aw": {"cycle": c, "addr": addr, "master": prot},
                             "w": {"cycle": cw, "master": wid[0], "seq": wid[1]}})
            ids.append((prot, i))
        # B k of this slave answers its k-th paired write; R k its k-th AR
        wcount = {}
        for k, e in enumerate(s.log["b"]):
            if k < len(s.log["aw"]):
                mi = s.log["aw"][k][2]
                n = wcount.get(mi, 0)
                wcount[mi] = n + 1
                slave_b_for.setdefault(mi, []).append((si, e[0], e[1], s.log["aw"][k][1]))
        for k, e in enumerate(s.log["r"]):
            if k < len(s.log["ar"]):
                mi = s.log["ar"][k][2]
                slave_r_for.setdefault(mi, []).append((si, e[0], e[1], e[2], s.log["ar"][k][1]))
    # ---- master-side: exactly once, in order, right content
    b_ret = r_ret = 0
    for mi, m in enumerate(mags):
        if len(m.log["aw"]) != len(m.writes) or len(m.log["w"]) != len(m.writes) or len(m.log["b"]) != len(m.writes) \
                or len(m.log["ar"]) != len(m.reads) or len(m.log["r"]) != len(m.reads):
            errs.append({"kind": "request-never-answered", "master": mi,
                         "counts": {k: len(v) for k, v in m.log.items()}, "writes": len(m.writes), "reads": len(m.reads)})
        # responses the slaves issued for this master, by response cycle
        sb = {e[1]: e for e in slave_b_for.get(mi, [])}
        for k, (c, resp) in enumerate(m.log["b"]):
            b_ret += 1
            e = sb.get(c)
            if k >= len(m.writes):
                errs.append({"kind": "more-b-responses-than-writes", "master": mi, "cycle": c})
                break
            want_addr = m.writes[k]["addr"]
            if e is None:
                errs.append({"kind": "b-seen-by-master-without-slave-response-for-it", "master": mi, "k": k, "cycle": c})
            elif e[2] != resp or e[3] != want_addr:
                errs.append({"kind": "b-out-of-order-or-altered", "master": mi, "k": k, "cycle": c,
                             "slave_gave": {"slave": e[0], "resp": e[2], "for_addr": e[3]}, "master_saw": resp, "expected_for_addr": want_addr})
        sr = {e[1]: e for e in slave_r_for.get(mi, [])}
        for k, (c, resp, data) in enumerate(m.log["r"]):
            r_ret += 1
            e = sr.get(c)
            if k >= len(m.reads):
                errs.append({"kind": "more-r-responses-than-reads", "master": mi, "cycle": c})
                break
            want_addr = m.reads[k]["addr"]
            if e is None:
                errs.append({"kind": "r-seen-by-master-without-slave-response-for-it", "master": mi, "k": k, "cycle": c})
            elif (e[2], e[3]) != (resp, data) or e[4] != want_addr:
                errs.append({"kind": "r-out-of-order-or-altered", "master": mi, "k": k, "cycle": c,
                             "slave_gave": {"slave": e[0], "resp": e[2], "data": e[3], "for_addr": e[4]},
                             "master_saw": [resp, data], "expected_for_addr": want_addr})
    tot_s = {ch: sum(len(s.log[ch]) for s in sags) for ch in ("aw", "w", "b", "ar", "r")}
    tot_m = {ch: sum(len(m.log[ch]) for m in mags) for ch in ("aw", "w", "b", "ar", "r")}
    if tot_s != tot_m and not errs:
        errs.append({"kind": "handshake-count-differs-between-master-and-slave-side", "masters": tot_m, "slaves": tot_s})
    stab = 0
    for mons, side in ((mmons, "master-port"), (smons, "slave-port")):
        for pm in mons:
            for ch, mon in pm.items():
                stab += mon.stalled_cycles
                for sv in mon.stab_viol[:1]:
                    errs.append({"kind": "%s-%s" % (ch, sv["kind"]), "port": mon.name, "at": sv})
    for lm in lms:
        errs += lm.viol[:1]
    # grant changes judged on what was OBSERVED at the slave ports (not on the interconnect's own counters): at the edge where
    # an arbiter's grant moves, every request accepted through it must already have been answered
    for ai, lm in enumerate(lms):
        slaves_of = sags if kind == "shared" else [sags[ai]]
        for (c, d, pg, g) in lm.changes:
            if d == "write":
                out_ = sum(sum(1 for e in s_.log["aw"] if e[0] < c) - sum(1 for e in s_.log["b"] if e[0] < c) for s_ in slaves_of)
            else:
                out_ = sum(sum(1 for e in s_.log["ar"] if e[0] < c) - sum(1 for e in s_.log["r"] if e[0] < c) for s_ in slaves_of)
            if out_ > 0:
                errs.append({"kind": "grant-moved-with-responses-outstanding(observed-at-slave-ports)", "cycle": c, "dir": d,
                             "from": pg, "to": g, "outstanding": out_})
                break
    root = None
    if errs:
        root = data_before_address(mags, errs) or root_cause([[(c, t[0]) for c, t in m.log["aw"]] for m in mags], [[c for c, _ in m.log["b"]] for m in mags],
                          [[(c, t[0]) for c, t in m.log["ar"]] for m in mags], [[e[0] for e in m.log["r"]] for m in mags],
                          [(cw, data >> 28, (data >> 16) & 63) for s in sags for (cw, data, strb) in s.log["w"]],
                          lambda a: tuple(which(regs, a)))
    return {"errs": errs[:4], "nerr": len(errs), "b": b_ret, "r": r_ret, "w_paired": w_paired, "stab": stab, "root": root,
            "lock_checks": sum(l.checks for l in lms), "max_outstanding_seen": max([l.max_counter for l in lms] or [0]),
            "capped": not ok, "cycles": bench.cycle["sys"], "beats": 0,
            "sample": {"m0.aw": mags[0].log["aw"][:3], "m0.b": mags[0].log["b"][:3], "s0.aw": sags[0].log["aw"][:3]}}


def run_shard(shard):
    col = Collector(shard["cls"])
    for case in shard["cases"]:
        r = col.guard(case, run_case, case)
        if r is None:
            continue
        col.ev("b_returned", r["b"])
        col.ev("r_returned", r["r"])
        col.ev("w_paired", r["w_paired"])
        col.ev("stability_checks", r["stab"])
        col.ev("lock_checks", r["lock_checks"])
        col.ev("axi_full_beats", r["beats"])
        col.ev("sim_cycles", r["cycles"])
        col.cov("topologies", "%s/%s/%dx%d" % (case["std"], case["kind"], case["m"], case["s"]))
        col.cov("classes", case["cls"])
        col.cov("max_outstanding_seen", r["max_outstanding_seen"])
        top = "axi%s-%s" % (case["std"], case["kind"])
        for e in r["errs"][:1]:
            std = "axilite" if case["std"] == "lite" else "axi"
            key = "%s-decoder/%s" % (std, r["root"]) if r.get("root") else "%s/%s/%s" % (top, case["cls"], e["kind"])
            col.violation(key, case, "%s %dx%d class %s: %s (root cause classifier: %s)" % (
                top, case["m"], case["s"], case["cls"], e, r.get("root")), {"errors": r["errs"], "root": r.get("root")})
        if r["capped"] and not r["errs"]:
            col.inconc(case, "cycle cap reached without a recorded error")
        col.case_done(case, (r["b"] + r["r"]) >= 10 and (case["m"] > 1 or case["s"] > 1),
                      sample={"case": case, "b_returned": r["b"], "r_returned": r["r"], "logs(cycle,payload)": r["sample"]})
    return col.result()
