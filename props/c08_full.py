"""AXI4 (full) part of C08: AXIInterconnectShared / AXICrossbar with burst masters and slaves."""
from migen import *

from litex.soc.interconnect import axi

from lib.collect import rng_for
from lib.bench.kernel import Bench
from lib.bench.stream import make_sched
from lib.bench.axi import AXIMaster, AXISlave
from lib.bench.axil import port_monitors

AWB = 16       # address bits (bytes)


def gen_map(rng, ns):
    WW = AWB - 2
    while True:
        regs = []
        for _ in range(ns):
            k = rng.randint(10, WW - 1)
            o = rng.randrange(0, 1 << (WW - k)) << k
            regs.append((o, k))
        if all(not (a[0] < b[0] + (1 << b[1]) and b[0] < a[0] + (1 << a[1])) for i, a in enumerate(regs) for b in regs[:i]):
            return regs


def which(regs, byte_addr):
    wa = byte_addr >> 2
    return [i for i, (o, k) in enumerate(regs) if o <= wa < o + (1 << k)]


def data_before_address_full(mags, errs):
    k0 = errs[0]["kind"]
    if not (k0.startswith("w-") or k0 in ("request-never-answered", "handshake-count-differs-between-master-and-slave-side")):
        return None
    for m in mags:
        # index of the first W beat of every write burst in the offer list
        wi = 0
        for k, t in enumerate(m.writes):
            if wi < len(m.offered["w"]) and (k >= len(m.offered["aw"]) or m.offered["w"][wi] < m.offered["aw"][k]):
                return "w-accepted-before-its-aw(routed-by-idle-aw-address)"
            wi += len(t["beats"])
    return None


def run_case(case):
    from props.c08 import LockMonitor, class_params
    rng = rng_for(case["seed"])
    nm, ns, kind, cls = case["m"], case["s"], case["kind"], case["cls"]
    regs = gen_map(rng, ns)
    masters = [axi.AXIInterface(data_width=32, address_width=AWB) for _ in range(nm)]
    slaves = [axi.AXIInterface(data_width=32, address_width=AWB) for _ in range(ns)]
    decs = [((lambda a, o=o, k=k: a[k:] == (o >> k)), s) for (o, k), s in zip(regs, slaves)]
    top = Module()
    if kind == "shared":
        top.submodules.ic = ic = axi.AXIInterconnectShared(masters, decs, timeout_cycles=None)
        arbs = [ic.arbiter]
    else:
        top.submodules.ic = ic = axi.AXICrossbar(masters, decs, timeout_cycles=None)
        arbs = [m for _, m in ic._submodules if isinstance(m, axi.AXIArbiter)]
    nw, nr = rng.randint(6, 12), rng.randint(6, 12)
    hostile = rng.randint(150, 500)
    bench = Bench(top, cap=hostile + (nw + nr) * nm * 80 + 1000)
    mags, sags, mmons, smons = [], [], [], []

    homes = [rng.randrange(ns) for _ in range(nm)]

    def addr_for(mi, i):
        o, k = regs[homes[mi] if cls == "E" else rng.randrange(ns)]
        return o * 4 + (((mi << 6) | (i & 63)) * 16)
    for mi, m in enumerate(masters):
        p = class_params(rng, cls)
        writes, reads = [], []
        for i in range(nw):
            ln = rng.choice([0, 0, 1, 3])
            writes.append({"addr": addr_for(mi, i), "len": ln, "size": 2, "burst": 1, "id": rng.getrandbits(1),
                           "beats": [((mi << 28) | ((i & 63) << 16) | (bt << 12) | rng.getrandbits(12),
                                      rng.choice([0xf, 0xf, rng.getrandbits(4)])) for bt in range(ln + 1)]})
        for i in range(nr):
            reads.append({"addr": addr_for(mi, i), "len": rng.choice([0, 0, 1, 3]), "size": 2, "burst": 1, "id": rng.getrandbits(1)})
        bs = make_sched(rng, "b10" if p["bp"] else rng.choice(["always", "b90", "b50"]))[0]
        rs = make_sched(rng, "b10" if p["bp"] else rng.choice(["always", "b90", "b50"]))[0]
        mags.append(bench.add(AXIMaster(m, writes, reads, rng, order=p["order"], max_out=p["max_out"], p_aw=p["p_aw"],
                                        p_w=p["p_w"], p_ar=p["p_ar"], b_sched=bs, r_sched=rs, coop_from=hostile, name="m%d" % mi)))
        mmons.append(port_monitors(bench, m, "m%d" % mi, "responses"))
    for si, s in enumerate(slaves):
        def tagger(slv, a, n, k, si=si):
            return (si << 28) | ((n & 0xfff) << 16) | (k << 12) | (a["addr"] & 0xfff)
        sags.append(bench.add(AXISlave(s, rng, "s%d" % si, depth=4, aw_sched=make_sched(rng)[0], w_sched=make_sched(rng)[0],
                                       ar_sched=make_sched(rng)[0], r_sched=make_sched(rng, rng.choice(["always", "b50", "b90"]))[0],
                                       lat=rng.choice([(0, 0), (0, 4), (2, 8)]), err_p=rng.choice([0, 0.2]), tagger=tagger,
                                       coop_from=hostile)))
        smons.append(port_monitors(bench, s, "s%d" % si, "requests"))
    lms = [bench.add(LockMonitor(a)) for a in arbs]
    from lib.bench.stream import ActivityWatch
    bench.add(ActivityWatch([mon for pm in mmons for mon in pm.values()], hostile, quiet=120))
    ok = bench.run()
    errs = []
    w_paired = beats = 0

    def owner(addr):
        off = (addr & ((1 << 12) - 1 | 0x3fff)) // 16
        return None
    slave_b_for, slave_r_for = {}, {}
    for si, s in enumerate(sags):
        for e in s.illegal[:1]:
            errs.append(dict(e, slave=si))
        for a in s.log["aw"]:
            if si not in which(regs, a["addr"]):
                errs.append({"kind": "aw-reached-wrong-slave", "slave": si, "aw": a})
        for a in s.log["ar"]:
            if si not in which(regs, a["addr"]):
                errs.append({"kind": "ar-reached-wrong-slave", "slave": si, "ar": a})
        for a, bts in s.writes_done:
            off = ((a["addr"] - regs[si][0] * 4) // 16)
            aid = (off >> 6, off & 63)
            for (cw, data, strb, last) in bts:
                beats += 1
                wid = (data >> 28, (data >> 16) & 63)
                if wid != aid:
                    errs.append({"kind": "w-data-paired-with-another-request's-address", "slave": si, "aw": a,
                                 "w": {"cycle": cw, "master": wid[0], "seq": wid[1]}})
                    break
            w_paired += 1
        for k, e in enumerate(s.log["b"]):
            if k < len(s.writes_done):
                a = s.writes_done[k][0]
                mi = ((a["addr"] - regs[si][0] * 4) // 16) >> 6
                slave_b_for.setdefault(mi, []).append((si, e[0], e[1], e[2], a["addr"]))
        # R beats: in order of ARs
        ri = 0
        for a in s.log["ar"]:
            n = a["len"] + 1
            mi = ((a["addr"] - regs[si][0] * 4) // 16) >> 6
            burst = s.log["r"][ri:ri + n]
            ri += n
            if len(burst) == n:
                slave_r_for.setdefault(mi, []).append((si, burst, a["addr"]))
    b_ret = r_ret = 0
    for mi, m in enumerate(mags):
        if not m.done() or len(m.log["aw"]) != len(m.writes) or len(m.log["ar"]) != len(m.reads):
            errs.append({"kind": "request-never-answered", "master": mi, "counts": {k: len(v) for k, v in m.log.items()},
                         "writes": len(m.writes), "reads": len(m.reads)})
        sb = {e[1]: e for e in slave_b_for.get(mi, [])}
        for k, (c, resp, bid) in enumerate(m.log["b"]):
            b_ret += 1
            e = sb.get(c)
            if k >= len(m.writes):
                errs.append({"kind": "extra-b", "master": mi, "cycle": c})
            elif e is None:
                errs.append({"kind": "b-seen-by-master-without-slave-response-for-it", "master": mi, "k": k, "cycle": c})
            elif (e[2], e[3]) != (resp, bid) or e[4] != m.writes[k]["addr"]:
                errs.append({"kind": "b-out-of-order-or-altered", "master": mi, "k": k, "cycle": c, "slave_gave": e,
                             "master_saw": [resp, bid], "expected_for_addr": m.writes[k]["addr"]})
        sr = {}
        for (si, burst, addr) in slave_r_for.get(mi, []):
            for e in burst:
                sr[e[0]] = (si, e, addr)
        k = 0
        for (c, resp, data, last, rid) in m.log["r"]:
            r_ret += 1
            beats += 1
            e = sr.get(c)
            if k >= len(m.reads):
                errs.append({"kind": "extra-r", "master": mi, "cycle": c})
                break
            if e is None:
                errs.append({"kind": "r-seen-by-master-without-slave-response-for-it", "master": mi, "k": k, "cycle": c})
            elif e[1][1:] != (resp, data, last, rid) or e[2] != m.reads[k]["addr"]:
                errs.append({"kind": "r-out-of-order-or-altered", "master": mi, "k": k, "cycle": c, "slave_gave": e,
                             "master_saw": [resp, data, last, rid], "expected_for_addr": m.reads[k]["addr"]})
            if last:
                k += 1
        for k, burst in enumerate(m.r_bursts):
            if k < len(m.reads) and len(burst) != m.reads[k]["len"] + 1:
                errs.append({"kind": "r-burst-length", "master": mi, "k": k, "beats": len(burst), "len": m.reads[k]["len"]})
    tot_s = {ch: sum(len(s.log[ch]) for s in sags) for ch in ("aw", "w", "b", "ar", "r")}
    tot_m = {ch: sum(len(m.log[ch]) for m in mags) for ch in ("aw", "w", "b", "ar", "r")}
    if tot_s != tot_m and not errs:
        errs.append({"kind": "handshake-count-differs-between-master-and-slave-side", "masters": tot_m, "slaves": tot_s})
    stab = 0
    for mons in (mmons, smons):
        for pm in mons:
            for ch, mon in pm.items():
                stab += mon.stalled_cycles
                for sv in mon.stab_viol[:1]:
                    errs.append({"kind": "%s-%s" % (ch, sv["kind"]), "port": mon.name, "at": sv})
    for lm in lms:
        errs += lm.viol[:1]
    root = None
    if errs:
        from props.c08 import root_cause, data_before_address
        s_w = []
        for s in sags:
            bursts, cur = [], []
            for e in s.log["w"]:
                cur.append(e)
                if e[3]:
                    bursts.append(cur)
                    cur = []
            if cur:
                bursts.append(cur)
            s_w += [(bu[0][0], bu[0][1] >> 28, (bu[0][1] >> 16) & 63) for bu in bursts]
        root = data_before_address_full(mags, errs) or root_cause([[(c, t[0]) for c, t in m.log["aw"]] for m in mags], [[e[0] for e in m.log["b"]] for m in mags],
                          [[(c, t[0]) for c, t in m.log["ar"]] for m in mags], [[e[0] for e in m.log["r"] if e[3]] for m in mags],
                          s_w, lambda a: tuple(which(regs, a)))
    return {"errs": errs[:4], "nerr": len(errs), "root": root, "b": b_ret, "r": len([1 for m in mags for _ in m.r_bursts]), "w_paired": w_paired,
            "stab": stab, "lock_checks": sum(l.checks for l in lms), "max_outstanding_seen": max([l.max_counter for l in lms] or [0]),
            "capped": not ok, "cycles": bench.cycle["sys"], "beats": beats,
            "sample": {"m0.aw": mags[0].log["aw"][:2], "m0.b": mags[0].log["b"][:2], "s0.aw": sags[0].log["aw"][:2]}}
