"""C09 - bus bridges, AXI-Lite width converters and AXI-Lite SRAM: flat byte memory towards the master
(history vs reference memory) and protocol-legal transfers towards the slave (online monitors)."""
from migen import *

from litex.soc.interconnect import wishbone, axi, csr_bus, ahb

from lib.collect import Collector, rng_for, h
from lib.bench.kernel import Bench
from lib.bench.stream import make_sched, ActivityWatch, Always
from lib.bench.wb import WBMaster, WBSlave, WBProtocolMonitor
from lib.bench.axil import AXILMaster, AXILSlave, port_monitors, RESP_OKAY, RESP_SLVERR
from lib.bench.axi import AXIMaster, AXISlave
from lib.bench.ahb import AHBMaster
from lib.models.refmem import WindowRefMem
from lib.models import axi as axm

LEVEL = "exploration"
RULE = ("one case = one bridge / converter configuration (AXILite2Wishbone, Wishbone2AXILite, AXI2AXILite, AXILite2AXI, AXI2Wishbone, "
        "Wishbone2AXI, AXILite2CSR, AHB2Wishbone, AXILiteDown/UpConverter, AXILiteSRAM; widths 32/64, word/byte addressing, base "
        "addresses) x one partner class x one history of reads/writes (strobes, bursts FIXED/INCR/WRAP, narrow sizes) over a 64-word "
        "window. Partner classes: 'litex' = single-outstanding partners as LiteX builds them (must be clean); 'hostile' = legal "
        "partners that queue several requests before answering, answer late, back-pressure responses, delay data; 'err' = hostile slaves that also refuse requests, 'err-simple' = slaves with LiteX-like timing (one request at a time, always ready) that refuse requests "
        "(15% of them answered with an error). Master-side log vs window reference memory (a read may see any write it overlaps); "
        "stability / hold monitors on every slave-side output of the DUT. Non-trivial = >= 10 reads compared and >= 5 writes; "
        "distinct = distinct case digests")
ASSUMPTIONS = ["migen tracer shim (names only)", "addresses stay inside the 64-word backing window",
               "a read overlapping a write in time may return either value (AXI read/write channels are independent)",
               "AHB master issues single NONSEQ transfers (the bridge documents no burst support)",
               "Wishbone slaves signal an error as LiteX does (err raised together with ack)",
               "a write answered with an error may or may not have changed each of its bytes"]
FLOORS = {"quick": {"read_bytes_compared": 60000, "writes": 6000, "n_configs": 36, "slave_side_stability_checks": 5000, "socbus_histories": 40,
                    "n_socbus_adapter_chains": 25},
          "thorough": {"read_bytes_compared": 1000000, "writes": 100000, "n_configs": 36, "slave_side_stability_checks": 100000, "socbus_histories": 600,
                       "n_socbus_adapter_chains": 25}}
SHARD_TIMEOUT = {"quick": 900, "thorough": 3000}
N_SAMPLES = 3
WORDS = 64


def catalogue():
    c = []
    for dw in (32, 64):
        for base in (0, 0x4000):
            for addressing in ("word", "byte"):
                c.append({"dut": "axil2wb", "dw": dw, "base": base, "addressing": addressing})
                c.append({"dut": "wb2axil", "dw": dw, "base": base, "addressing": addressing})
    for dw in (32, 64):
        c.append({"dut": "axi2axil", "dw": dw})
        c.append({"dut": "axil2axi", "dw": dw})
        c.append({"dut": "axi2wb", "dw": dw, "base": 0})
        c.append({"dut": "wb2axi", "dw": dw, "base": 0})
        c.append({"dut": "ahb2wb", "dw": dw})
        c.append({"dut": "axil_sram", "dw": dw})
    c.append({"dut": "axi2wb", "dw": 32, "base": 0x4000})
    c.append({"dut": "axil2csr", "dw": 32})
    for dwf, dwt in [(64, 32), (32, 16), (32, 8), (64, 8)]:
        c.append({"dut": "axil_down", "dw": dwf, "dwt": dwt})
    for dwf, dwt in [(8, 32), (16, 32), (32, 64), (8, 64)]:
        c.append({"dut": "axil_up", "dw": dwf, "dwt": dwt})
    out = []
    # adapters inserted by SoCBusHandler.add_adapter: SoC bus standard/width x master standard/width x slave standard/width
    k = 0
    for std in ("wishbone", "axi-lite", "axi"):
        for bdw in (32, 64):
            for mtype in ("wb", "axil", "axi"):
                for stype in ("wb", "axil"):
                    k += 1
                    mdw, sdw = [(32, 32), (64, 32), (32, 64), (64, 64)][k % 4]
                    axi2axil = (mtype == "axi" and std != "axi") or (std == "axi" and stype in ("axil", "wb"))
                    # configurations that put a listed defect into its triggering situation are left out (they are judged, by
                    # mechanism, in the element's own classes): an AXILiteUpConverter behind an AXI2AXILite (requests overlap),
                    # an AXI2AXILite in front of an AXI-Lite slave that queues requests (hostile partner)
                    if stype == "axil" and bdw < sdw and (mtype == "axi" or std == "axi"):
                        continue
                    for partner in ("litex", "hostile"):
                        if partner == "hostile" and axi2axil and stype == "axil":
                            continue
                        out.append({"dut": "socbus", "std": std, "bdw": bdw, "mtype": mtype, "dw": mdw, "stype": stype, "sdw": sdw,
                                    "ic": ["shared", "crossbar"][(k // 4) % 2], "maddr": ["word", "byte"][(k // 2) % 2], "partner": partner})
    for cfg in c:
        for partner in ("litex", "hostile", "err", "err-simple"):
            if partner.startswith("err") and cfg["dut"] in ("axil_sram", "axil2csr", "axil_up"):
                continue
            out.append(dict(cfg, partner=partner))
    return out


def plan(tier, seed):
    cat = catalogue()
    per = 3 if tier == "quick" else 40
    cases = [{"cfg": cfg, "seed": "%d/C09/%d/%d" % (seed, ci, k)} for ci, cfg in enumerate(cat)
             for k in range(per if cfg["dut"] != "socbus" else max(1, per // 3))]
    n = 48 if tier == "quick" else 160
    return [{"id": "br%03d" % i, "cls": "bridge", "cases": cases[i::n]} for i in range(n)]


# ------------------------------------------------------------------------------------ backing slaves
def bytes_of(words, dw):
    nb = dw // 8
    return {a * nb + k: (x >> (8 * k)) & 0xff for a, x in enumerate(words) for k in range(nb)}


def sched_for(rng, partner):
    if partner in ("litex", "err-simple"):
        return Always(True)
    return make_sched(rng)[0]


def add_wb_backing(top, bench, rng, bus, dw, partner, base_words=0, reads_select_all=False):
    init = [rng.getrandbits(dw) for _ in range(WORDS)]
    mon = None
    if partner == "litex":
        sram_bus = bus
        top.submodules.backing = wishbone.SRAM(WORDS * dw // 8, init=list(init), bus=bus)
        slv = None
    else:
        mem = {i: x for i, x in enumerate(init)}
        slv = bench.add(WBSlave(bus, rng, "wbmem", lat=rng.choice([(0, 0), (0, 2)] if partner == "err-simple" else [(0, 0), (0, 5), (2, 6)]),
                                mem=mem, err_p=0.15 if partner.startswith("err") else 0.0, err_with_ack=True))
    mon = bench.add(WBProtocolMonitor(bus, "wb-slave-side", check_hold=True, reads_select_all=reads_select_all))
    return bytes_of(init, dw), slv, [mon]


def add_axil_backing(top, bench, rng, bus, dw, partner, hostile_from):
    init = [rng.getrandbits(dw) for _ in range(WORDS)]
    slv = None
    if partner == "litex":
        top.submodules.backing = axi.AXILiteSRAM(WORDS * dw // 8, init=list(init), bus=bus)
    elif partner == "err-simple":
        # error-injecting slave with the timing of a LiteX slave: one request at a time, always ready, short latency
        mem = {i: x for i, x in enumerate(init)}
        slv = bench.add(AXILSlave(bus, rng, "axilmem", depth=1, aw_sched=Always(True), w_sched=Always(True), ar_sched=Always(True),
                                  lat=rng.choice([(0, 0), (1, 3)]), mem=mem, err_p=0.15, coop_from=hostile_from))
    else:
        mem = {i: x for i, x in enumerate(init)}
        slv = bench.add(AXILSlave(bus, rng, "axilmem", depth=4, aw_sched=make_sched(rng)[0], w_sched=make_sched(rng)[0],
                                  ar_sched=make_sched(rng)[0], lat=rng.choice([(0, 0), (1, 6), (4, 10)]), mem=mem,
                                  err_p=0.15 if partner == "err" else 0.0, coop_from=hostile_from))
    mons = port_monitors(bench, bus, "axil-slave-side", "requests")
    return bytes_of(init, dw), slv, list(mons.values())


def add_axi_backing(top, bench, rng, bus, dw, partner, hostile_from):
    init = [rng.getrandbits(dw) for _ in range(WORDS)]
    b = bytes_of(init, dw)
    lx = partner in ("litex", "err-simple")
    slv = bench.add(AXISlave(bus, rng, "aximem", depth=1 if lx else 4,
                             aw_sched=Always(True) if lx else make_sched(rng)[0], w_sched=Always(True) if lx else make_sched(rng)[0],
                             ar_sched=Always(True) if lx else make_sched(rng)[0], r_sched=Always(True) if lx else make_sched(rng)[0],
                             lat=(0, 0) if lx else rng.choice([(0, 3), (2, 8)]), mem=dict(b),
                             err_p=0.15 if partner.startswith("err") else 0.0, coop_from=hostile_from))
    mons = port_monitors(bench, bus, "axi-slave-side", "requests")
    return b, slv, list(mons.values())


# ------------------------------------------------------------------------------------ master scripts
def lanes_mask(strb, nb):
    return [k for k in range(nb) if (strb >> k) & 1]


def gen_axil_script(rng, dw, base, n):
    nb = dw // 8
    writes, reads = [], []
    hot = [rng.randrange(WORDS) for _ in range(5)]
    for i in range(n):
        a = rng.choice(hot) if rng.random() < 0.5 else rng.randrange(WORDS)
        writes.append({"addr": base + a * nb, "data": rng.getrandbits(dw),
                       "strb": rng.choice([(1 << nb) - 1, (1 << nb) - 1, rng.getrandbits(nb), 1 << rng.randrange(nb), 0])})
        a = rng.choice(hot) if rng.random() < 0.5 else rng.randrange(WORDS)
        reads.append({"addr": base + a * nb})
    reads += [{"addr": base + a * nb} for a in range(WORDS)]
    return writes, reads


def gen_axi_script(rng, dw, base, n, narrow=True, feature=None, ratio=1):
    """feature (C10): restricts the bursts to one feature class: 'wrap' (full size), 'fixed' (full size, aligned),
    'narrow' (INCR, size < bus, aligned to size), 'unaligned' (INCR, full size, unaligned start), 'incr' (INCR, full size,
    aligned to the bus word, any length)"""
    nb = dw // 8
    smax = nb.bit_length() - 1
    writes, reads = [], []

    def ax():
        while True:
            burst = rng.choice([axm.INCR, axm.INCR, axm.FIXED, axm.WRAP])
            size = rng.choice([smax, smax, rng.randint(0, smax)]) if narrow else smax
            ln = rng.choice([0, 0, 1, 2, 3, 5, 7, 15]) if burst != axm.WRAP else rng.choice([1, 3, 7, 15])
            addr = rng.randrange(WORDS * nb)
            if feature is not None:
                burst = {"wrap": axm.WRAP, "wrapfit": axm.WRAP, "wraplong": axm.WRAP, "fixed": axm.FIXED}.get(feature, axm.INCR)
                size = smax if feature != "narrow" else rng.randint(0, max(0, smax - 1))
                ln = rng.choice([1, 3, 7, 15]) if burst == axm.WRAP else rng.choice([0, 1, 2, 3, 4, 5, 7, 8, 15])
                if feature == "wrapfit":
                    ln = rng.choice([l for l in (1, 3, 7, 15) if (l + 1) * ratio <= 16])
                elif feature == "wraplong":
                    ln = rng.choice([l for l in (1, 3, 7, 15) if (l + 1) * ratio > 16])
                if feature != "unaligned":
                    addr &= ~((1 << size) - 1)
                elif addr % nb == 0:
                    addr += rng.randrange(1, nb)
            elif burst == axm.WRAP or rng.random() < 0.6:
                addr &= ~((1 << size) - 1)
            if not axm.legal(addr, ln, size, burst, nb):
                continue
            addrs = axm.beat_addresses(addr, ln, size, burst)
            if max(addrs) + (1 << size) > WORDS * nb:
                continue
            return addr, ln, size, burst, addrs
    for i in range(n):
        addr, ln, size, burst, addrs = ax()
        beats = []
        for k, ba in enumerate(addrs):
            lo, up = axm.byte_lanes(ba, size, nb, k == 0)
            lane_mask = sum(1 << l for l in range(lo, up + 1))
            strb = lane_mask & rng.choice([(1 << nb) - 1, (1 << nb) - 1, rng.getrandbits(nb)])
            beats.append((rng.getrandbits(dw), strb))
        writes.append({"addr": base + addr, "len": ln, "size": size, "burst": burst, "id": rng.getrandbits(1), "beats": beats})
        addr, ln, size, burst, addrs = ax()
        reads.append({"addr": base + addr, "len": ln, "size": size, "burst": burst, "id": rng.getrandbits(1)})
    for a in range(0, WORDS, 8):
        reads.append({"addr": base + a * nb, "len": 7, "size": smax, "burst": axm.INCR, "id": 0})
    return writes, reads


def gen_wb_ops(rng, dw, base_words, n, byte_addressing=False):
    nb = dw // 8
    ops = []
    hot = [rng.randrange(WORDS) for _ in range(5)]
    for i in range(n):
        a = rng.choice(hot) if rng.random() < 0.5 else rng.randrange(WORDS)
        adr = (base_words + a) * (nb if byte_addressing else 1)
        we = int(rng.random() < 0.5)
        ops.append({"adr": adr, "we": we, "sel": rng.choice([(1 << nb) - 1, (1 << nb) - 1, rng.getrandbits(nb), 0]) if we else (1 << nb) - 1,
                    "dat_w": rng.getrandbits(dw), "gap": rng.choice([0, 0, 1, 4]), "hold": rng.random() < 0.3, "word": a})
    for a in range(WORDS):
        ops.append({"adr": (base_words + a) * (nb if byte_addressing else 1), "we": 0, "sel": (1 << nb) - 1, "gap": 0, "word": a})
    return ops


def mk_axil_master(bench, rng, bus, writes, reads, partner, hostile, name="m"):
    if partner in ("litex", "err-simple"):
        kw = dict(order=rng.choice(["together", "aw_first"]), max_out=1, p_aw=rng.choice([1.0, 0.5]), p_w=1.0, p_ar=rng.choice([1.0, 0.5]))
    else:
        kw = dict(order=rng.choice(["together", "aw_first", "w_first", "free"]), max_out=rng.choice([1, 1, 2, 4]),
                  p_aw=rng.choice([1.0, 0.5, 0.2]), p_w=rng.choice([1.0, 0.5, 0.2]), p_ar=rng.choice([1.0, 0.3]),
                  b_sched=make_sched(rng)[0], r_sched=make_sched(rng)[0])
    return bench.add(AXILMaster(bus, writes, reads, rng, coop_from=hostile, name=name, **kw))


def mk_axi_master(bench, rng, bus, writes, reads, partner, hostile, name="m"):
    if partner in ("litex", "err-simple"):
        kw = dict(order=rng.choice(["together", "aw_first"]), max_out=1, p_aw=rng.choice([1.0, 0.5]), p_w=rng.choice([1.0, 0.7]), p_ar=1.0)
    else:
        kw = dict(order=rng.choice(["together", "aw_first", "w_first", "free"]), max_out=rng.choice([1, 1, 2, 4]),
                  p_aw=rng.choice([1.0, 0.5, 0.2]), p_w=rng.choice([1.0, 0.5, 0.2]), p_ar=rng.choice([1.0, 0.3]),
                  b_sched=make_sched(rng)[0], r_sched=make_sched(rng)[0])
    return bench.add(AXIMaster(bus, writes, reads, rng, coop_from=hostile, name=name, **kw))


# ------------------------------------------------------------------------------------ judging
def judge_axil(m, ref, base, dw, errs, stats):
    nb = dw // 8
    for k, (c, resp) in enumerate(m.log["b"]):
        if k >= len(m.writes):
            errs.append({"kind": "more-b-than-writes"})
            break
        t = m.writes[k]
        if k >= len(m.offered["aw"]) or k >= len(m.offered["w"]) or k >= len(m.log["w"]):
            errs.append({"kind": "write-response-before-its-data-was-transferred", "write": k, "b_at": c,
                         "w_beats_transferred": len(m.log["w"]), "aw_offered": len(m.offered["aw"])})
            break
        issue = min(m.offered["aw"][k], m.offered["w"][k])
        stats["writes"] += 1
        ref.write(issue, c, {t["addr"] - base + l: (t["data"] >> (8 * l)) & 0xff for l in lanes_mask(t["strb"], nb)},
                  maybe=(resp != RESP_OKAY))
        if resp != RESP_OKAY:
            stats["err_resps"] += 1
            stats["err_w"] = stats.get("err_w", 0) + 1
    for k, (c, resp, data) in enumerate(m.log["r"]):
        if k >= len(m.reads):
            errs.append({"kind": "more-r-than-reads"})
            break
        t = m.reads[k]
        if resp != RESP_OKAY:
            stats["err_resps"] += 1
            stats["err_r"] = stats.get("err_r", 0) + 1
            continue
        stats["reads"] += 1
        for l in range(nb):
            ok, allowed = ref.read_ok(m.offered["ar"][k], c, t["addr"] - base + l, (data >> (8 * l)) & 0xff)
            stats["bytes"] += 1
            if not ok:
                errs.append({"kind": "read-returns-wrong-byte", "read": k, "addr": t["addr"], "lane": l,
                             "got": (data >> (8 * l)) & 0xff, "allowed": sorted(allowed), "cycle": c})
                return
    if len(m.log["b"]) < len(m.writes) or len(m.log["r"]) < len(m.reads):
        errs.append({"kind": "request-never-answered", "counts": {k: len(v) for k, v in m.log.items()},
                     "writes": len(m.writes), "reads": len(m.reads)})


def judge_axi(m, ref, base, dw, errs, stats):
    nb = dw // 8
    wi = 0
    for k, (c, resp, bid) in enumerate(m.log["b"]):
        if k >= len(m.writes):
            errs.append({"kind": "more-b-than-writes"})
            break
        t = m.writes[k]
        nbeats = len(t["beats"])
        if k >= len(m.offered["aw"]) or wi + nbeats > len(m.log["w"]) or any(e[0] > c for e in m.log["w"][wi:wi + nbeats]):
            # "one response per request": the B of a write may only come after all of its data beats were transferred
            errs.append({"kind": "write-response-before-its-data-was-transferred", "write": k, "b_at": c, "beats_of_this_write": nbeats,
                         "w_beats_transferred_so_far": sum(1 for e in m.log["w"] if e[0] <= c)})
            break
        issue = min(m.offered["aw"][k], m.offered["w"][wi])
        wi += nbeats
        stats["writes"] += 1
        if bid != t["id"]:
            errs.append({"kind": "b-id-differs", "write": k, "id": t["id"], "got": bid})
        if resp != RESP_OKAY:
            stats["err_resps"] += 1
            stats["err_w"] = stats.get("err_w", 0) + 1
        addrs = axm.beat_addresses(t["addr"] - base, t["len"], t["size"], t["burst"])
        bv = {}
        for bi, (ba, (data, strb)) in enumerate(zip(addrs, t["beats"])):
            wbase = (ba // nb) * nb
            for l in lanes_mask(strb, nb):
                bv[wbase + l] = (data >> (8 * l)) & 0xff
        ref.write(issue, c, bv, maybe=(resp != RESP_OKAY))
    for k, burst in enumerate(m.r_bursts):
        if k >= len(m.reads):
            errs.append({"kind": "more-r-bursts-than-reads"})
            break
        t = m.reads[k]
        if len(burst) != t["len"] + 1:
            errs.append({"kind": "r-burst-length", "read": k, "len": t["len"], "beats": len(burst),
                         "lasts": [e[3] for e in burst]})
            return
        addrs = axm.beat_addresses(t["addr"] - base, t["len"], t["size"], t["burst"])
        stats["reads"] += 1
        for bi, (ba, e) in enumerate(zip(addrs, burst)):
            c, resp, data, last, rid = e
            if rid != t["id"]:
                errs.append({"kind": "r-id-differs", "read": k, "id": t["id"], "got": rid})
                return
            if resp != RESP_OKAY:
                stats["err_resps"] += 1
                stats["err_r"] = stats.get("err_r", 0) + 1
                continue
            lo, up = axm.byte_lanes(ba, t["size"], nb, bi == 0)
            wbase = (ba // nb) * nb
            for l in range(lo, up + 1):
                ok, allowed = ref.read_ok(m.offered["ar"][k], c, wbase + l, (data >> (8 * l)) & 0xff)
                stats["bytes"] += 1
                if not ok:
                    errs.append({"kind": "read-returns-wrong-byte", "read": k, "ar": t, "beat": bi, "lane": l,
                                 "got": (data >> (8 * l)) & 0xff, "allowed": sorted(allowed), "cycle": c})
                    return
    if not m.done():
        errs.append({"kind": "request-never-answered", "counts": {k: len(v) for k, v in m.log.items()},
                     "writes": len(m.writes), "reads": len(m.reads), "r_bursts": len(m.r_bursts)})


def judge_wb(m, ops, ref, dw, errs, stats, expect_err_path):
    nb = dw // 8
    for e in m.log:
        op = ops[e["i"]]
        a = op["word"]
        if e["err"]:
            stats["err_resps"] += 1
            k_ = "err_w" if e["we"] else "err_r"
            stats[k_] = stats.get(k_, 0) + 1
            if not e["we"]:
                continue
        if e["we"]:
            stats["writes"] += 1
            ref.write(e["issue"], e["done"], {a * nb + l: (e["dat_w"] >> (8 * l)) & 0xff for l in lanes_mask(e["sel"], nb)},
                      maybe=bool(e["err"]))
        else:
            stats["reads"] += 1
            for l in range(nb):
                ok, allowed = ref.read_ok(e["issue"], e["done"], a * nb + l, (e["dat_r"] >> (8 * l)) & 0xff)
                stats["bytes"] += 1
                if not ok:
                    errs.append({"kind": "read-returns-wrong-byte", "op": e, "lane": l, "allowed": sorted(allowed)})
                    return
    if len(m.log) < len(ops):
        errs.append({"kind": "request-never-answered", "completed": len(m.log), "ops": len(ops)})
    if m.spurious:
        errs.append({"kind": "ack-without-request", "at": m.spurious[0]})


def judge_ahb(m, ref, dw, errs, stats):
    nb = dw // 8
    for e in m.log:
        sz = 1 << e["size"]
        lo = e["addr"] % nb
        wbase = (e["addr"] // nb) * nb
        if e["resp"]:
            stats["err_resps"] += 1
            k_ = "err_w" if e["write"] else "err_r"
            stats[k_] = stats.get(k_, 0) + 1
            if not e["write"]:
                continue
        if e["write"]:
            stats["writes"] += 1
            ref.write(e["issue"], e["done"], {wbase + l: (e["wdata"] >> (8 * l)) & 0xff for l in range(lo, lo + sz)},
                      maybe=bool(e["resp"]))
        else:
            stats["reads"] += 1
            for l in range(lo, lo + sz):
                ok, allowed = ref.read_ok(e["issue"], e["done"], wbase + l, (e["rdata"] >> (8 * l)) & 0xff)
                stats["bytes"] += 1
                if not ok:
                    errs.append({"kind": "read-returns-wrong-byte", "op": e, "lane": l, "allowed": sorted(allowed)})
                    return
    if m.hung or len(m.log) < len(m.ops):
        errs.append({"kind": "request-never-answered", "completed": len(m.log), "ops": len(m.ops), "hung": m.hung})


# ------------------------------------------------------------------------------------ one case
def run_case(case):
    rng = rng_for(case["seed"])
    cfg = case["cfg"]
    d, dw, partner = cfg["dut"], cfg["dw"], cfg["partner"]
    nb = dw // 8
    n = case.get("n", rng.choice([12, 25, 40]))
    hostile = rng.randint(200, 800)
    top = Module()
    bench = Bench(top, cap=hostile + n * 400 + 4000)
    base = cfg.get("base", 0)
    stats = {"writes": 0, "reads": 0, "bytes": 0, "err_resps": 0}
    errs = []
    smons = []
    aw_bits = 16
    if d in ("axil2wb", "axi2wb"):
        addressing = cfg.get("addressing", "word")
        wb = wishbone.Interface(data_width=dw, adr_width=aw_bits - (nb.bit_length() - 1), addressing=addressing)
        if d == "axil2wb":
            mbus = axi.AXILiteInterface(data_width=dw, address_width=aw_bits)
            top.submodules.dut = axi.AXILite2Wishbone(mbus, wb, base_address=base)
            writes, reads = gen_axil_script(rng, dw, base, n)
        else:
            mbus = axi.AXIInterface(data_width=dw, address_width=aw_bits)
            top.submodules.dut = axi.AXI2Wishbone(mbus, wb, base_address=base)
            writes, reads = gen_axi_script(rng, dw, base, n)
        if addressing == "byte":
            # byte-addressed Wishbone: the backing BFM/SRAM are word addressed -> shim that drops the low bits
            wbw = wishbone.Interface(data_width=dw, adr_width=aw_bits - (nb.bit_length() - 1))
            top.comb += [wb.connect(wbw, omit={"adr"}), wbw.adr.eq(wb.adr[nb.bit_length() - 1:])]
            init, slv, smons = add_wb_backing(top, bench, rng, wbw, dw, partner, reads_select_all=(d == "axil2wb"))
        else:
            init, slv, smons = add_wb_backing(top, bench, rng, wb, dw, partner, reads_select_all=(d == "axil2wb"))
        m = (mk_axil_master if d == "axil2wb" else mk_axi_master)(bench, rng, mbus, writes, reads, partner, hostile)
        mm = port_monitors(bench, mbus, "master-side", "responses")
        bench.add(ActivityWatch(list(mm.values()), hostile, quiet=300))
        ok = bench.run()
        ref = WindowRefMem(init)
        (judge_axil if d == "axil2wb" else judge_axi)(m, ref, base, dw, errs, stats)
        smons = smons + list(mm.values())
    elif d in ("wb2axil", "wb2axi"):
        addressing = cfg.get("addressing", "word")
        wb = wishbone.Interface(data_width=dw, adr_width=aw_bits - (nb.bit_length() - 1), addressing=addressing)
        if d == "wb2axil":
            sbus = axi.AXILiteInterface(data_width=dw, address_width=aw_bits)
            top.submodules.dut = axi.Wishbone2AXILite(wb, sbus, base_address=base)
            init, slv, smons = add_axil_backing(top, bench, rng, sbus, dw, partner, hostile)
        else:
            sbus = axi.AXIInterface(data_width=dw, address_width=aw_bits)
            top.submodules.dut = axi.Wishbone2AXI(wb, sbus, base_address=base)
            init, slv, smons = add_axi_backing(top, bench, rng, sbus, dw, partner, hostile)
        ops = gen_wb_ops(rng, dw, base // nb, n * 2, byte_addressing=(addressing == "byte"))
        m = bench.add(WBMaster(wb, ops, "m", max_wait=2000))
        ok = bench.run()
        ref = WindowRefMem(init)
        judge_wb(m, ops, ref, dw, errs, stats, True)
    elif d in ("axi2axil",):
        mbus = axi.AXIInterface(data_width=dw, address_width=aw_bits)
        sbus = axi.AXILiteInterface(data_width=dw, address_width=aw_bits)
        top.submodules.dut = axi.AXI2AXILite(mbus, sbus)
        init, slv, smons = add_axil_backing(top, bench, rng, sbus, dw, partner, hostile)
        writes, reads = gen_axi_script(rng, dw, 0, n)
        m = mk_axi_master(bench, rng, mbus, writes, reads, partner, hostile)
        mm = port_monitors(bench, mbus, "master-side", "responses")
        bench.add(ActivityWatch(list(mm.values()), hostile, quiet=300))
        ok = bench.run()
        ref = WindowRefMem(init)
        judge_axi(m, ref, 0, dw, errs, stats)
        smons = smons + list(mm.values())
    elif d == "axil2axi":
        mbus = axi.AXILiteInterface(data_width=dw, address_width=aw_bits)
        sbus = axi.AXIInterface(data_width=dw, address_width=aw_bits)
        top.submodules.dut = axi.AXILite2AXI(mbus, sbus)
        init, slv, smons = add_axi_backing(top, bench, rng, sbus, dw, partner, hostile)
        writes, reads = gen_axil_script(rng, dw, 0, n)
        m = mk_axil_master(bench, rng, mbus, writes, reads, partner, hostile)
        mm = port_monitors(bench, mbus, "master-side", "responses")
        bench.add(ActivityWatch(list(mm.values()), hostile, quiet=300))
        ok = bench.run()
        ref = WindowRefMem(init)
        judge_axil(m, ref, 0, dw, errs, stats)
        smons = smons + list(mm.values())
        if slv.illegal:
            errs.append({"kind": "illegal-axi-request-issued", "detail": slv.illegal[0]})
    elif d in ("axil_sram", "axil2csr", "axil_down", "axil_up"):
        mbus = axi.AXILiteInterface(data_width=dw, address_width=aw_bits)
        if d == "axil_sram":
            init_w = [rng.getrandbits(dw) for _ in range(WORDS)]
            top.submodules.dut = axi.AXILiteSRAM(WORDS * nb, init=list(init_w), bus=mbus)
            init = bytes_of(init_w, dw)
        elif d == "axil2csr":
            cbus = csr_bus.Interface(data_width=32, address_width=14)
            top.submodules.dut = axi.AXILite2CSR(mbus, cbus)
            init_w = [rng.getrandbits(32) for _ in range(WORDS)]
            mem = Memory(32, WORDS, init=list(init_w))
            top.submodules.csrsram = csr_bus.SRAM(mem, 0, bus=cbus, read_only=False)
            init = bytes_of(init_w, 32)
        else:
            dwt = cfg["dwt"]
            sbus = axi.AXILiteInterface(data_width=dwt, address_width=aw_bits)
            top.submodules.dut = (axi.AXILiteDownConverter if d == "axil_down" else axi.AXILiteUpConverter)(mbus, sbus)
            total_bytes = WORDS * nb
            init_w = [rng.getrandbits(dwt) for _ in range(total_bytes * 8 // dwt)]
            init = bytes_of(init_w, dwt)
            if partner == "litex":
                top.submodules.backing = axi.AXILiteSRAM(total_bytes, init=list(init_w), bus=sbus)
            elif partner == "err-simple":
                bench.add(AXILSlave(sbus, rng, "axilmem", depth=1, aw_sched=Always(True), w_sched=Always(True), ar_sched=Always(True),
                                    lat=rng.choice([(0, 0), (1, 3)]), mem={i: x for i, x in enumerate(init_w)}, err_p=0.15,
                                    coop_from=hostile))
            else:
                bench.add(AXILSlave(sbus, rng, "axilmem", depth=4, aw_sched=make_sched(rng)[0], w_sched=make_sched(rng)[0],
                                    ar_sched=make_sched(rng)[0], lat=rng.choice([(0, 0), (1, 6)]),
                                    mem={i: x for i, x in enumerate(init_w)}, err_p=0.15 if partner == "err" else 0.0,
                                    coop_from=hostile))
            smons = list(port_monitors(bench, sbus, "axil-slave-side", "requests").values())
        writes, reads = gen_axil_script(rng, dw, 0, n)
        if d == "axil2csr":
            for t in writes:                        # the CSR bus has no byte enables: full or no strobe
                t["strb"] = rng.choice([0xf, 0xf, 0])
        m = mk_axil_master(bench, rng, mbus, writes, reads, partner, hostile)
        mm = port_monitors(bench, mbus, "master-side", "responses")
        bench.add(ActivityWatch(list(mm.values()), hostile, quiet=300))
        ok = bench.run()
        ref = WindowRefMem(init)
        judge_axil(m, ref, 0, dw, errs, stats)
        smons = smons + list(mm.values())
    elif d == "ahb2wb":
        shift = nb.bit_length() - 1
        ab = ahb.AHBInterface(data_width=dw, address_width=aw_bits)
        wb = wishbone.Interface(data_width=dw, adr_width=aw_bits - shift)
        top.submodules.dut = ahb.AHB2Wishbone(ab, wb)
        init, slv, smons = add_wb_backing(top, bench, rng, wb, dw, partner)
        ops = []
        for i in range(n * 3):
            size = rng.choice([shift, shift, rng.randint(0, shift)])
            addr = rng.randrange(WORDS * nb) & ~((1 << size) - 1)
            ops.append({"addr": addr, "write": rng.getrandbits(1), "size": size, "wdata": rng.getrandbits(dw),
                        "gap": rng.choice([0, 0, 0, 1, 3])})
        for a in range(WORDS):
            ops.append({"addr": a * nb, "write": 0, "size": shift, "gap": 0})
        m = bench.add(AHBMaster(ab, ops, rng))
        ok = bench.run()
        ref = WindowRefMem(init)
        judge_ahb(m, ref, dw, errs, stats)
    elif d == "socbus":
        # the adapters SoCBusHandler.add_adapter inserts for a master / slaves whose standard and width differ from the SoC bus
        from litex.soc.integration.soc import SoCBusHandler, SoCRegion
        std, bdw, mtype, stype, sdw = cfg["std"], cfg["bdw"], cfg["mtype"], cfg["stype"], cfg["sdw"]
        base = 0                      # the slaves see absolute addresses: the window starts at 0, the decoy sits behind it
        bus = SoCBusHandler(standard=std, data_width=bdw, address_width=32, timeout=None, interconnect=cfg.get("ic", "shared"),
                            interconnect_register=(partner == "litex"))
        top.submodules.socbus = bus
        mk_if = {"wb": lambda w: wishbone.Interface(data_width=w, adr_width=32 - ((w // 8).bit_length() - 1)),
                 "axil": lambda w: axi.AXILiteInterface(data_width=w, address_width=32),
                 "axi": lambda w: axi.AXIInterface(data_width=w, address_width=32)}
        mbyte = mtype == "wb" and cfg.get("maddr") == "byte"
        mbus = mk_if[mtype](dw) if not mbyte else wishbone.Interface(data_width=dw, address_width=32, addressing="byte")
        bus.add_master("m", master=mbus)
        sb0, sb1 = mk_if[stype](sdw), mk_if[stype](sdw)
        size = WORDS * nb                                   # the window the master's script works in, in bytes
        saved = WORDS
        globals()["WORDS"] = size * 8 // sdw               # words of the slave's own width
        try:
            if stype == "wb":
                init, slv, smons = add_wb_backing(top, bench, rng, sb0, sdw, partner)
            else:
                init, slv, smons = add_axil_backing(top, bench, rng, sb0, sdw, partner, hostile)
        finally:
            globals()["WORDS"] = saved
        # a second slave of the same kind behind its own region (forces a decoder; must never be touched)
        decoy_init = [rng.getrandbits(sdw) for _ in range(16)]
        if stype == "wb":
            top.submodules.decoy = decoy = wishbone.SRAM(16 * sdw // 8, init=list(decoy_init), bus=sb1)
        else:
            top.submodules.decoy = decoy = axi.AXILiteSRAM(16 * sdw // 8, init=list(decoy_init), bus=sb1)
        bus.add_slave("s0", slave=sb0, region=SoCRegion(origin=base, size=size))
        bus.add_slave("s1", slave=sb1, region=SoCRegion(origin=0x20000, size=0x100))
        if mtype == "wb":
            ops = gen_wb_ops(rng, dw, base // nb, n * 2, byte_addressing=mbyte)
            m = bench.add(WBMaster(mbus, ops, "m", max_wait=3000))
        elif mtype == "axil":
            writes, reads = gen_axil_script(rng, dw, base, n)
            m = mk_axil_master(bench, rng, mbus, writes, reads, "litex", hostile)
        else:
            # full-width INCR bursts starting on a 64-bit boundary with an even number of 32-bit beats: what the AXI width
            # converters support (the rest is the listed axi_up / axi_down findings of C10)
            from props import c10
            writes, reads = c10.gen_aligned(rng, dw, 64 if dw == 32 else 32, n, WORDS)
            m = mk_axi_master(bench, rng, mbus, writes, reads, "litex", hostile)
        if mtype != "wb":
            mm = port_monitors(bench, mbus, "master-side", "responses")
            bench.add(ActivityWatch(list(mm.values()), hostile, quiet=400))
            smons = smons + list(mm.values())
        ok = bench.run()
        ref = WindowRefMem(init)
        if mtype == "wb":
            judge_wb(m, ops, ref, dw, errs, stats, False)
        elif mtype == "axil":
            judge_axil(m, ref, base, dw, errs, stats)
        else:
            judge_axi(m, ref, base, dw, errs, stats)
        # the decoy slave was never written
        arr = bench.sim.evaluator.replaced_memories.get(decoy.mem)
        if arr is not None and not errs:
            sv = bench.sim.evaluator.signal_values
            now = [sv.get(x, x.reset.value) for x in arr]
            if now != decoy_init:
                k = next(i for i, (x, y) in enumerate(zip(now, decoy_init)) if x != y)
                errs.append({"kind": "write-reached-another-slave", "decoy_word": k, "was": decoy_init[k], "now": now[k]})
    else:
        raise ValueError(d)
    stab = 0
    for mon in smons:
        if hasattr(mon, "stab_viol"):
            stab += mon.stalled_cycles
            for sv in mon.stab_viol[:1]:
                errs.append({"kind": "%s-%s" % (mon.name.split(".")[-1], sv["kind"]), "port": mon.name, "at": sv})
        else:
            stab += mon.req_cycles
            for sv in mon.viol[:1]:
                errs.append({"kind": "wishbone-%s" % sv["kind"], "port": mon.name, "at": sv})
    # error propagation: errors produced by the slave-side partner must surface at the master
    slave_w_errs = slave_r_errs = 0
    for a in bench.agents["sys"]:
        if isinstance(a, WBSlave):
            slave_w_errs += sum(1 for e in a.log if e["err"] and e["we"])
            slave_r_errs += sum(1 for e in a.log if e["err"] and not e["we"])
        elif isinstance(a, (AXILSlave, AXISlave)):
            slave_w_errs += sum(1 for e in a.log["b"] if e[1] != RESP_OKAY)
            slave_r_errs += sum(1 for e in a.log["r"] if e[1] != RESP_OKAY)
    slave_errs = slave_w_errs + slave_r_errs
    stats["slave_errs"] = slave_errs
    # master-side answers per direction, from the masters' complete logs (the byte-wise judge above stops at its first mismatch,
    # so its own error counters only cover the history up to there)
    ms = {"w": [], "r": []}                      # (done cycle, is error)
    for a in bench.agents["sys"]:
        if isinstance(a, AXIMaster):
            ms["w"] += [(e[0], e[1] != RESP_OKAY) for e in a.log["b"]]
            ms["r"] += [(bu[-1][0], any(x[1] != RESP_OKAY for x in bu)) for bu in a.r_bursts if bu]
        elif isinstance(a, AXILMaster):
            ms["w"] += [(e[0], e[1] != RESP_OKAY) for e in a.log["b"]]
            ms["r"] += [(e[0], e[1] != RESP_OKAY) for e in a.log["r"]]
        elif isinstance(a, WBMaster):
            for e in a.log:
                ms["w" if e["we"] else "r"].append((e["done"], bool(e["err"])))
        elif isinstance(a, AHBMaster):
            for e in a.log:
                ms["w" if e["write"] else "r"].append((e["done"], bool(e["resp"])))
    stats["err_w"] = sum(1 for _, x in ms["w"] if x)
    stats["err_r"] = sum(1 for _, x in ms["r"] if x)
    if partner.startswith("err"):
        # per direction: the slave refused several requests of that direction and not one error of that direction reached the
        # master. A later read mismatch (the master believes a refused write took place) is a consequence of the dropped
        # write error, which is the root cause
        w_dropped = slave_w_errs >= 3 and stats.get("err_w", 0) == 0
        r_dropped = slave_r_errs >= 3 and stats.get("err_r", 0) == 0
        w_maybe = slave_w_errs >= 1 and stats.get("err_w", 0) == 0
        r_maybe = slave_r_errs >= 1 and stats.get("err_r", 0) == 0
        if (w_dropped and r_maybe) or (r_dropped and w_maybe):
            kind = "slave-error-responses-not-propagated"             # both directions
        elif w_dropped:
            kind = "slave-write-error-responses-not-propagated"
        elif r_dropped:
            kind = "slave-read-error-responses-not-propagated"
        else:
            kind = None
        info = {"slave_side_write_errors": slave_w_errs, "slave_side_read_errors": slave_r_errs,
                "master_side_write_errors": stats.get("err_w", 0), "master_side_read_errors": stats.get("err_r", 0)}
        if not errs and kind:
            errs.append(dict(info, kind=kind))
        elif errs and w_maybe and all(e["kind"] == "read-returns-wrong-byte" for e in errs):
            k2 = kind or "slave-write-error-responses-not-propagated"
            errs[:] = [dict(info, kind=k2, first_consequence=errs[0])]
    # per request (partners with one outstanding request per direction only, so that responses pair with slave-side events by
    # time): an error answer needs a slave-side error of that direction since the previous answer; an OKAY answer must not
    # have one. Catches stale / spurious error responses and errors attributed to the wrong request.
    if partner == "err-simple" and not errs:
        sl = {"w": [], "r": []}
        for a in bench.agents["sys"]:
            if isinstance(a, WBSlave):
                for e in a.log:
                    if e["err"]:
                        sl["w" if e["we"] else "r"].append(e["done"])
            elif isinstance(a, (AXILSlave, AXISlave)):
                sl["w"] += [e[0] for e in a.log["b"] if e[1] != RESP_OKAY]
                sl["r"] += [e[0] for e in a.log["r"] if e[1] != RESP_OKAY]
        dropped_dir = {"w": slave_w_errs >= 1 and stats.get("err_w", 0) == 0, "r": slave_r_errs >= 1 and stats.get("err_r", 0) == 0}
        for d in ("w", "r"):
            prev = -1
            for k, (done, is_err) in enumerate(sorted(ms[d])):
                n = sum(1 for c in sl[d] if prev < c <= done)
                stats["err_pairings"] = stats.get("err_pairings", 0) + 1
                if is_err and n == 0:
                    errs.append({"kind": "error-response-without-slave-side-error", "direction": {"w": "write", "r": "read"}[d], "request": k,
                                 "answered_at": done, "previous_answer_at": prev, "slave_side_errors_at": sl[d][:12]})
                    break
                if not is_err and n > 0 and not dropped_dir[d]:
                    errs.append({"kind": "slave-side-error-not-reported-for-its-request", "direction": {"w": "write", "r": "read"}[d],
                                 "request": k, "answered_at": done, "previous_answer_at": prev, "slave_side_errors_at": sl[d][:12]})
                    break
                prev = done
    # mechanism tags (used to name root causes; derived from what the partners actually did in this history)
    tags = []
    for a in bench.agents["sys"]:
        if isinstance(a, (AXILMaster, AXIMaster)):
            # requests overlapped: a second address was visible before the previous response, or data before address
            ov = False
            for req, resp in (("aw", "b"), ("ar", "r")):
                offs = a.offered[req]
                resps = [e[0] for e in a.log[resp]] if not (isinstance(a, AXIMaster) and resp == "r") else [bu[-1][0] for bu in a.r_bursts]
                ov = ov or any(k + 1 < len(offs) and offs[k + 1] <= resps[k] for k in range(len(resps)))
            if not isinstance(a, AXIMaster):
                ov = ov or any(k < len(a.offered["aw"]) and a.offered["w"][k] < a.offered["aw"][k] for k in range(len(a.offered["w"])))
            if ov:
                tags.append("master-overlaps-requests")
        if isinstance(a, (AXILSlave, AXISlave)):
            ars = [e["cycle"] if isinstance(e, dict) else e[0] for e in a.log["ar"]]
            rs = [e[0] for e in a.log["r"]]
            if isinstance(a, AXILSlave) and any(k + 1 < len(ars) and ars[k + 1] <= rs[k] for k in range(len(rs))):
                tags.append("slave-queues-requests")
            aws = [e["cycle"] if isinstance(e, dict) else e[0] for e in a.log["aw"]]
            bs = [e[0] for e in a.log["b"]]
            if any(k + 1 < len(aws) and aws[k + 1] <= bs[k] for k in range(len(bs))):
                tags.append("slave-queues-requests")
    return {"errs": errs[:4], "stats": stats, "stab": stab, "capped": not ok, "cycles": bench.cycle["sys"],
            "ambiguous": 0, "tags": sorted(set(tags))}


def run_shard(shard):
    col = Collector(shard["cls"])
    for case in shard["cases"]:
        r = col.guard(case, run_case, case)
        if r is None:
            continue
        cfg = case["cfg"]
        st = r["stats"]
        col.ev("read_bytes_compared", st["bytes"])
        col.ev("reads", st["reads"])
        col.ev("writes", st["writes"])
        col.ev("error_responses_seen", st["err_resps"])
        col.ev("slave_side_errors_injected", st.get("slave_errs", 0))
        col.ev("error_answers_paired_with_slave_side", st.get("err_pairings", 0))
        col.ev("slave_side_stability_checks", r["stab"])
        col.ev("sim_cycles", r["cycles"])
        col.cov("configs", h({k: v for k, v in cfg.items() if k != "partner"}))
        col.cov("duts", cfg["dut"])
        if cfg["dut"] == "socbus":
            col.ev("socbus_histories", 1)
            col.cov("socbus_adapter_chains", "%s%d>%s%d>%s%d" % (cfg["mtype"], cfg["dw"], cfg["std"], cfg["bdw"], cfg["stype"], cfg["sdw"]))
        col.cov("partners", cfg["partner"])
        for e in r["errs"][:1]:
            tag = "+".join(r["tags"]) or "simple-timing"
            root = {"axi2axil": "slave-queues-requests", "axil_up": "master-overlaps-requests"}.get(cfg["dut"])
            # the two listed root causes are read-side (axi2axil: r.last / r.id taken from the command engine) resp. lane-select
            # defects: only the error kinds they can produce are attributed to them, anything else keeps the partner's name
            attributable = {"axi2axil": e["kind"].startswith(("r-", "read-", "more-r")),
                            "axil_up": True}.get(cfg["dut"], False)
            who = root if (root in r["tags"] and attributable) else "%s[%s]" % (cfg["partner"], tag)
            if e["kind"].endswith("error-responses-not-propagated"):
                who = "any-timing[%s]" % cfg["partner"]
            col.violation("%s/%s/%s" % (cfg["dut"], who, e["kind"]), case,
                          "%s: %s" % (cfg, e), {"errors": r["errs"], "partner_behaviour": r["tags"]})
        if r["capped"] and not r["errs"]:
            col.inconc(case, "cycle cap reached without a recorded error")
        col.case_done(case, st["reads"] >= 10 and st["writes"] >= 5,
                      sample={"case": case, "stats": st, "slave_side_stability_checks": r["stab"]})
    return col.result()
