"""C10 - AXI burst-to-beat expansion follows the AMBA address rules; AXI width converters move the
same bytes in the same order. Enumeration of the burst parameter space used as workload; the beat
stream is compared with an independent implementation of the AXI address equations."""
from migen import *

from litex.soc.interconnect import axi, stream
from litex.soc.interconnect.axi.axi_common import BURST_FIXED, BURST_INCR, BURST_WRAP
from litex.soc.interconnect.axi.axi_full import ax_description
from litex.soc.interconnect.axi.axi_stream import AXIStreamInterface

from lib.collect import Collector, rng_for, h
from lib.bench.kernel import Bench
from lib.bench.stream import SourceDriver, SinkDriver, EndpointMonitor, Scoreboard, make_sched, Then, ActivityWatch, Always
from lib.bench.axi import AXIMaster, AXISlave
from lib.bench.axil import port_monitors
from lib.models.refmem import WindowRefMem
from lib.models import axi as axm
from props import c09

LEVEL = "exploration"
RULE = ("burst2beat: every legal (address offset, size, burst type, len) tuple of a 32-bit and a 64-bit bus - offsets 0..63 (quick: "
        "0..15 and 8 random), size 0..log2(bus bytes), FIXED/INCR/WRAP, len in 0..15 and {31,63,127,255} (WRAP: 1,3,7,15, aligned; "
        "FIXED <= 16 beats; INCR inside 4 KB) - is expanded under several ready patterns; each beat's address is compared at "
        "transfer-size granularity with the AMBA equations, together with first/last, id and the single request handshake on the last "
        "beat. converters: AXIUp/Down/Converter ratios 2/4/8 between an AXI master BFM and an AXI memory BFM; class 'aligned' = "
        "full-width bursts aligned to the wide word with a beat count multiple of the ratio (what the code assumes, must be clean), "
        "class 'general' = narrow / unaligned / odd-length bursts. Non-trivial = burst with >= 2 beats (b2b) or >= 10 reads compared "
        "(converters); distinct = distinct parameter tuples / case digests")
ASSUMPTIONS = ["migen tracer shim (names only)", "addresses are compared at transfer-size granularity, as the property states",
               "converter reads overlapping writes in time may return either value"]
FLOORS = {"quick": {"bursts_expanded": 6000, "beats_checked": 100000, "n_burst_tuples": 2500, "converter_read_bytes": 30000,
                    "wrap_bursts": 300},
          "thorough": {"bursts_expanded": 60000, "beats_checked": 1200000, "n_burst_tuples": 9000, "converter_read_bytes": 600000,
                       "wrap_bursts": 3000}}
SHARD_TIMEOUT = {"quick": 900, "thorough": 3000}
EXHAUSTIVE = {"thorough": "all legal (offset 0..63, size, burst, len in 0..15+{31,63,127,255}) tuples of the 32- and 64-bit bus",
              "quick": ""}
N_SAMPLES = 3
LENS = list(range(16)) + [31, 63, 127, 255]


def tuples(bus_bytes, offsets):
    out = []
    smax = bus_bytes.bit_length() - 1
    for off in offsets:
        for size in range(smax + 1):
            for burst in (axm.FIXED, axm.INCR, axm.WRAP):
                for ln in LENS:
                    addr = 0x1000 * 3 + off if burst != axm.INCR or ln < 64 else 0x3000 + (off % (1 << size) if False else off)
                    if axm.legal(addr, ln, size, burst, bus_bytes):
                        out.append((addr, size, burst, ln))
    return out


def plan(tier, seed):
    rng = rng_for("%d/C10/plan" % seed)
    offs = list(range(64)) if tier == "thorough" else sorted(set(list(range(16)) + [rng.randrange(16, 64) for _ in range(8)]))
    cases = []
    for bb in (4, 8):
        tp = tuples(bb, offs)
        rng.shuffle(tp)
        chunk = 40
        for i in range(0, len(tp), chunk):
            cases.append({"kind": "b2b", "bus_bytes": bb, "tuples": tp[i:i + chunk], "seed": "%d/C10/b2b/%d/%d" % (seed, bb, i)})
            for rep in range(3 if tier == "thorough" else 0):
                # the complete tuple set again under other ready patterns and request gaps
                cases.append({"kind": "b2b", "bus_bytes": bb, "tuples": tp[i:i + chunk], "seed": "%d/C10/b2b/%d/%d/r%d" % (seed, bb, i, rep)})
    per = 4 if tier == "quick" else 50
    for d, dwf, dwt in [("down", 64, 32), ("down", 128, 32), ("down", 256, 32), ("up", 32, 64), ("up", 32, 128), ("up", 32, 256),
                        ("conv", 32, 32), ("conv", 64, 32), ("conv", 32, 64)]:
        # down-conversion of a WRAP burst is right as long as beats * ratio <= 16 (the narrow burst is a legal WRAP over the same
        # container): class 'wrapfit' must be clean, only 'wraplong' (a WRAP of more than 16 beats results) carries the listed finding
        down = dwf > dwt
        for cls in ("aligned",) + (("wrapfit", "wraplong") if down else ("wrap",)) + ("fixed", "narrow", "unaligned", "incr"):
            for k in range(per if cls in ("aligned", "wrapfit") else max(2, per // 2)):
                cases.append({"kind": "conv", "dut": d, "dwf": dwf, "dwt": dwt, "cls": cls,
                              "seed": "%d/C10/%s/%d/%d/%s/%d" % (seed, d, dwf, dwt, cls, k)})
    n = 64 if tier == "quick" else 192
    return [{"id": "ax%03d" % i, "cls": "axi", "cases": cases[i::n]} for i in range(n)]


# ------------------------------------------------------------------------------------ burst2beat
def run_b2b(case):
    rng = rng_for(case["seed"])
    bb = case["bus_bytes"]
    aw = 16
    top = Module()
    ax_burst = AXIStreamInterface(layout=ax_description(aw), id_width=4)
    ax_beat = AXIStreamInterface(layout=ax_description(aw), id_width=4)
    top.submodules.dut = axi.AXIBurst2Beat(ax_burst, ax_beat)
    pay = [s for s in ax_burst.payload.flatten()]
    names = [n for n, _ in ax_burst.description.payload_layout]
    toks = []
    for i, (addr, size, burst, ln) in enumerate(case["tuples"]):
        vals = {"addr": addr, "burst": burst, "len": ln, "size": size}
        toks.append({"first": 0, "last": 0, "pay": tuple(vals.get(n, 0) for n in names), "par": (i & 15, 0, 0)})
    nbeats = sum(t[3] + 1 for t in case["tuples"])
    hostile = rng.randint(50, max(60, nbeats))
    vs, vk = make_sched(rng)
    rs, rk = make_sched(rng)
    bench = Bench(top, cap=hostile + nbeats * 12 + 800)
    drv = bench.add(SourceDriver(ax_burst, toks, Then(vs, hostile), rng))
    bench.add(SinkDriver(ax_beat, Then(rs, hostile)))
    im = bench.add(EndpointMonitor(ax_burst, "ax_burst"))
    om = bench.add(EndpointMonitor(ax_beat, "ax_beat", check_stability=True))
    sb = bench.add(Scoreboard([drv], [im], [om], lambda: nbeats, coop_from=hostile + 2, stall_bound=40, runaway=64))
    ok = bench.run()
    ai = names.index("addr")
    errs = []
    k = 0
    checked = wraps = 0
    for bi, (addr, size, burst, ln) in enumerate(case["tuples"]):
        exp = axm.beat_addresses(addr, ln, size, burst)
        beats = om.log[k:k + ln + 1]
        if len(beats) < ln + 1:
            errs.append({"kind": "missing-beats", "burst": [addr, size, burst, ln], "delivered": len(beats)})
            break
        if burst == axm.WRAP:
            wraps += 1
        for j, (e, b) in enumerate(zip(exp, beats)):
            checked += 1
            got = b[3][ai]
            if (got >> size) != ((e & 0xffff) >> size):
                errs.append({"kind": "beat-address", "burst": {"addr": addr, "size": size, "type": burst, "len": ln}, "beat": j,
                             "expected": e, "got": got})
                break
            if b[1] != int(j == 0) or b[2] != int(j == ln):
                errs.append({"kind": "first-last-marker", "burst": {"addr": addr, "size": size, "type": burst, "len": ln}, "beat": j,
                             "first": b[1], "last": b[2]})
                break
            if b[4][0] != (bi & 15):
                errs.append({"kind": "beat-id", "burst": bi, "beat": j, "id": b[4][0]})
                break
        if errs:
            break
        # the request is consumed exactly once, in the cycle of the last beat
        if bi < len(im.log) and im.log[bi][0] != beats[-1][0]:
            errs.append({"kind": "request-handshake-not-on-last-beat", "burst": [addr, size, burst, ln], "request_cycle": im.log[bi][0],
                         "last_beat_cycle": beats[-1][0]})
            break
        k += ln + 1
    if not errs and len(om.log) != nbeats:
        errs.append({"kind": "beat-count", "expected": nbeats, "delivered": len(om.log)})
    if not errs and len(im.log) != len(toks):
        errs.append({"kind": "requests-consumed", "expected": len(toks), "consumed": len(im.log)})
    for sv in om.stab_viol[:1]:
        errs.append({"kind": "beat-" + sv["kind"], "at": sv})
    return {"errs": errs[:3], "bursts": len(im.log), "beats": checked, "wraps": wraps, "capped": not ok, "cycles": bench.cycle["sys"],
            "sched": [vk, rk], "conv_bytes": 0, "sample": {"burst(addr,size,type,len)": case["tuples"][0],
                                                           "beat_addresses": [b[3][ai] for b in om.log[:case["tuples"][0][3] + 1]][:8]}}


# ------------------------------------------------------------------------------------ converters
def gen_aligned(rng, dwf, dwt, n, words):
    nb = dwf // 8
    wide = max(dwf, dwt) // 8
    ratio = max(dwf, dwt) // min(dwf, dwt)
    smax = nb.bit_length() - 1
    writes, reads = [], []

    def ax():
        while True:
            nbeats = rng.choice([1, 2, 4]) * (ratio if dwt > dwf else 1)
            ln = nbeats - 1
            addr = (rng.randrange(words * nb) // wide) * wide
            if addr + nbeats * nb > words * nb or not axm.legal(addr, ln, smax, axm.INCR, nb):
                continue
            return addr, ln
    for i in range(n):
        addr, ln = ax()
        writes.append({"addr": addr, "len": ln, "size": smax, "burst": axm.INCR, "id": rng.getrandbits(1),
                       "beats": [(rng.getrandbits(dwf), rng.choice([(1 << nb) - 1, (1 << nb) - 1, rng.getrandbits(nb)])) for _ in range(ln + 1)]})
        addr, ln = ax()
        reads.append({"addr": addr, "len": ln, "size": smax, "burst": axm.INCR, "id": rng.getrandbits(1)})
    step = ratio if dwt > dwf else 1
    for a in range(0, words, 4 * step):
        reads.append({"addr": a * nb, "len": 4 * step - 1, "size": smax, "burst": axm.INCR, "id": 0})
    return writes, reads


def run_conv(case):
    rng = rng_for(case["seed"])
    dwf, dwt, d, cls = case["dwf"], case["dwt"], case["dut"], case["cls"]
    words = 64 if dwf <= 64 else 32
    aw = 16
    top = Module()
    mbus = axi.AXIInterface(data_width=dwf, address_width=aw)
    sbus = axi.AXIInterface(data_width=dwt, address_width=aw)
    top.submodules.dut = {"down": axi.AXIDownConverter, "up": axi.AXIUpConverter, "conv": axi.AXIConverter}[d](mbus, sbus)
    total = words * dwf // 8
    init = {a: rng.getrandbits(8) for a in range(total)}
    hostile = rng.randint(200, 600)
    n = rng.choice([8, 14])
    bench = Bench(top, cap=hostile + n * 900 + 6000)
    hard = rng.random() < 0.6
    slv = bench.add(AXISlave(sbus, rng, "mem", depth=4,
                             aw_sched=make_sched(rng)[0] if hard else Always(True), w_sched=make_sched(rng)[0] if hard else Always(True),
                             ar_sched=make_sched(rng)[0] if hard else Always(True), r_sched=make_sched(rng)[0] if hard else Always(True),
                             lat=rng.choice([(0, 0), (0, 4)]), mem=dict(init), coop_from=hostile))
    smons = list(port_monitors(bench, sbus, "slave-side", "requests").values())
    if cls == "aligned":
        writes, reads = gen_aligned(rng, dwf, dwt, n, words)
    else:
        # general bursts, restricted to the window
        c09.WORDS = words
        writes, reads = c09.gen_axi_script(rng, dwf, 0, n, feature=cls, ratio=max(1, dwf // dwt))
    if hard:
        m = bench.add(AXIMaster(mbus, writes, reads, rng, order=rng.choice(["together", "aw_first", "w_first"]), max_out=1,
                                p_aw=rng.choice([1.0, 0.5]), p_w=rng.choice([1.0, 0.5]), p_ar=rng.choice([1.0, 0.5]),
                                b_sched=make_sched(rng)[0], r_sched=make_sched(rng)[0], coop_from=hostile))
    else:
        m = bench.add(AXIMaster(mbus, writes, reads, rng, order="together", max_out=1))
    mm = port_monitors(bench, mbus, "master-side", "responses")
    bench.add(ActivityWatch(list(mm.values()), hostile, quiet=300))
    ok = bench.run()
    errs = []
    stats = {"writes": 0, "reads": 0, "bytes": 0, "err_resps": 0}
    ref = WindowRefMem(init)
    c09.judge_axi(m, ref, 0, dwf, errs, stats)
    for e in slv.illegal[:1]:
        errs.append(dict(e, kind="slave-side-" + e["kind"]))
    for mon in smons + list(mm.values()):
        for sv in mon.stab_viol[:1]:
            errs.append({"kind": "%s-%s" % (mon.name.split(".")[-1], sv["kind"]), "port": mon.name, "at": sv})
    return {"errs": errs[:3], "bursts": 0, "beats": 0, "wraps": 0, "capped": not ok, "cycles": bench.cycle["sys"],
            "conv_bytes": stats["bytes"], "reads": stats["reads"], "sample": {"first_write": {k: v for k, v in writes[0].items() if k != "beats"},
                                                                             "stats": stats}}


def run_case(case):
    return run_b2b(case) if case["kind"] == "b2b" else run_conv(case)


def run_shard(shard):
    col = Collector(shard["cls"])
    for case in shard["cases"]:
        r = col.guard(case, run_case, case)
        if r is None:
            continue
        col.ev("bursts_expanded", r["bursts"])
        col.ev("beats_checked", r["beats"])
        col.ev("wrap_bursts", r["wraps"])
        col.ev("converter_read_bytes", r["conv_bytes"])
        col.ev("sim_cycles", r["cycles"])
        if case["kind"] == "b2b":
            for t in case["tuples"]:
                col.cov("burst_tuples", "%d/%d/%d/%d/%d" % ((case["bus_bytes"],) + tuple(t)))
            key = "burst2beat"
        else:
            col.cov("converters", "%s/%d/%d/%s" % (case["dut"], case["dwf"], case["dwt"], case["cls"]))
            d = case["dut"]
            if d == "conv":
                d = "down" if case["dwf"] > case["dwt"] else ("up" if case["dwf"] < case["dwt"] else "same")
            key = "axi_%s/%s" % (d, case["cls"])
        for e in r["errs"][:1]:
            col.violation("%s/%s" % (key, e["kind"]), case, "%s: %s" % ({k: v for k, v in case.items() if k != "tuples"}, e),
                          {"errors": r["errs"]})
        if r["capped"] and not r["errs"]:
            col.inconc(case, "cycle cap reached without a recorded error")
        col.case_done(case, r["beats"] > 2 * r["bursts"] or r.get("reads", 0) >= 10,
                      sample={"case": {k: v for k, v in case.items() if k != "tuples"}, "observed": r["sample"]})
    return col.result()
