"""C11 - a silent or absent slave cannot hang the bus (fault enumeration: the instant at which a slave
goes mute is swept over every cycle of a short history, for every timeout value and bus standard)."""
from migen import *
from migen.fhdl.tools import list_targets

from litex.gen.genlib.misc import WaitTimer
from litex.soc.interconnect import wishbone, axi
from litex.soc.integration.soc import SoCController

from lib.collect import Collector, rng_for, h
from lib.bench.kernel import Bench
from lib.bench.stream import ActivityWatch, Always
from lib.bench.wb import WBMaster, WBSlave
from lib.bench.axil import AXILMaster, AXILSlave, port_monitors, RESP_SLVERR, RESP_OKAY
from lib.bench.axi import AXIMaster, AXISlave
from props.c06 import GrantMonitor

LEVEL = "fault_enumeration"
RULE = ("fault space = (bus standard, topology, timeout T in {1,2,3,5,8,16}, which slave is faulty, fault kind, fault instant). "
        "The fault instant (cycle from which the slave stays mute on the chosen channels: all / only responses / only address "
        "acceptance) is swept over every cycle of a short multi-master history; slow-but-healthy slaves answer at latencies "
        "T-2..T (incl. the very cycle the timer expires); unmapped addresses are issued where a timeout exists. Oracle: every "
        "request terminates exactly once; a timed-out one within T + c_bus cycles of being granted, with the bus's error "
        "indication (Wishbone: ack, all-ones data, error pulse; AXI: SLVERR, all-ones read data, last); an answered one "
        "unmodified; the history completes (recovery). Fault kind 'wfirst' (AXI-Lite, shared): masters present write data one to six "
        "cycles before the address (legal), idle address lines already carrying the target. Non-trivial = at least one request was terminated by the timeout "
        "or raced it (answered within 2 cycles of expiry); distinct = distinct (configuration, fault) digests")
ASSUMPTIONS = ["migen tracer shim (names only)", "a faulty slave stays mute for ever from the fault instant (a slave answering after "
               "its request was already terminated is outside the property)", "c_bus = 1 (Wishbone), 4 (AXI-Lite/AXI: WAIT->RESPOND hand-over + B/R handshake)"]
FLOORS = {"quick": {"timeouts_observed": 1200, "answered_in_time": 3000, "races_at_expiry": 100, "fault_instants": 900,
                    "waittimer_cycles": 3000, "error_pulses_counted": 200, "fault_instants_with_write_data_before_address": 30},
          "thorough": {"timeouts_observed": 20000, "answered_in_time": 40000, "races_at_expiry": 1500, "fault_instants": 15000,
                       "waittimer_cycles": 40000, "error_pulses_counted": 1500, "fault_instants_with_write_data_before_address": 500}}
SHARD_TIMEOUT = {"quick": 900, "thorough": 3000}
N_SAMPLES = 4
TS = [1, 2, 3, 5, 8, 16]


def plan(tier, seed):
    cases = []
    horizon = 36 if tier == "quick" else 90
    step = 3 if tier == "quick" else 1
    reps = 1 if tier == "quick" else 3
    for rep in range(reps):
        for T in TS:
            for std in ("wb", "axil", "axi"):
                for topo in ("shared", "alone", "crossbar"):
                    kinds = ["all"] if std == "wb" else ["all", "resp", "addr", "aw", "w"] + (["wfirst"] if std == "axil" and topo == "shared" else [])
                    for kind in kinds:
                        if topo == "crossbar" and kind != "all":
                            continue
                        for mf in range(0, horizon, (step if kind in ("all", "resp") else 2 * step) if topo != "crossbar" else 8 * step):
                            cases.append({"std": std, "topo": topo, "T": T, "kind": kind, "mute_from": mf,
                                          "seed": "%d/C11/%s/%s/%d/%s/%d/%d" % (seed, std, topo, T, kind, mf, rep)})
                    for lat in (T - 2, T - 1, T):
                        if lat < 1 or topo == "crossbar":
                            continue
                        for k in range(2 * reps):
                            cases.append({"std": std, "topo": topo, "T": T, "kind": "slow", "lat": lat,
                                          "seed": "%d/C11/%s/%s/%d/slow%d/%d/%d" % (seed, std, topo, T, lat, k, rep)})
    for k in range(30 if tier == "quick" else 300):
        cases.append({"std": "waittimer", "topo": "-", "T": 0, "kind": "-", "seed": "%d/C11/waittimer/%d" % (seed, k)})
    for k in range(30 if tier == "quick" else 240):
        cases.append({"std": "ctrl", "topo": "-", "T": TS[k % len(TS)], "kind": "-", "seed": "%d/C11/ctrl/%d" % (seed, k)})
    for T in TS:
        for skew in range(-3, 4):
            cases.append({"std": "ctrl-axil", "topo": "-", "T": T, "kind": "skew%+d" % skew if skew else "skew0", "skew": skew,
                          "seed": "%d/C11/ctrl-axil/%d/%d" % (seed, T, skew)})
    n = 64 if tier == "quick" else 192
    return [{"id": "to%03d" % i, "cls": "timeout", "cases": cases[i::n]} for i in range(n)]


# ------------------------------------------------------------------------------------ Wishbone
def run_wb(case, rng):
    T, topo = case["T"], case["topo"]
    nm = 1 if topo == "alone" else rng.choice([1, 2])
    ns = 1 if topo == "alone" else rng.choice([2, 3])
    regs = [(i * 64, 6) for i in range(ns)]                   # slave i: words [64 i, 64 i + 64)
    masters = [wishbone.Interface(data_width=32, adr_width=10) for _ in range(nm)]
    slaves = [wishbone.Interface(data_width=32, adr_width=10) for _ in range(ns)]
    decs = [((lambda a, o=o, k=k: a[k:] == (o >> k)), s) for (o, k), s in zip(regs, slaves)]
    top = Module()
    err_sig = None
    if topo == "shared":
        top.submodules.ic = ic = wishbone.InterconnectShared(masters, decs, register=rng.random() < 0.5, timeout_cycles=T)
        err_sig = ic.timeout.error
        arb = ic.arbiter
    elif topo == "alone":
        top.comb += masters[0].connect(slaves[0])
        top.submodules.to = to = wishbone.Timeout(masters[0], T)
        err_sig = to.error
        arb = None
    else:
        top.submodules.ic = ic = wishbone.Crossbar(masters, decs, timeout_cycles=T)
        arb = None
    faulty = rng.randrange(ns)
    nops = 10
    bench = Bench(top, cap=nops * nm * (T + 30) + case.get("mute_from", 0) + 400)
    mags, sags = [], []
    for mi, m in enumerate(masters):
        ops = []
        for i in range(nops):
            r = rng.random()
            if r < 0.15 and topo == "shared":
                adr = 64 * ns + rng.randrange(32)               # unmapped
            else:
                si = faulty if r < 0.6 else rng.randrange(ns)
                adr = regs[si][0] + rng.randrange(64)
            ops.append({"adr": adr, "we": rng.getrandbits(1), "sel": 0xf, "dat_w": (mi << 28) | (i << 16) | rng.getrandbits(16),
                        "gap": rng.choice([0, 0, 1, 3]), "hold": rng.random() < 0.3})
        mags.append(bench.add(WBMaster(m, ops, "m%d" % mi, max_wait=nops * nm * (T + 12) + 100)))
    for si, s in enumerate(slaves):
        def tagger(slv, adr, si=si):
            return ((si + 1) << 24) | ((len(slv.log) & 0xff) << 16) | (adr & 0xffff)
        if case["kind"] == "slow":
            lat = (case["lat"] - 1, case["lat"] - 1) if si == faulty else (0, 0)
            sags.append(bench.add(WBSlave(s, rng, "s%d" % si, lat=lat, tagger=tagger)))
        else:
            sags.append(bench.add(WBSlave(s, rng, "s%d" % si, lat=(0, min(2, max(0, T - 2))), tagger=tagger,
                                          mute_from=case["mute_from"] if si == faulty else None)))
    gm = bench.add(GrantMonitor(arb, "arb")) if arb is not None else None

    class ErrMon:
        def __init__(self):
            self.cycles = []

        def signals(self):
            return [err_sig] if err_sig is not None else []

        def step(self, v, c):
            if err_sig is not None and v[err_sig]:
                self.cycles.append(c)
    em = bench.add(ErrMon())
    ok = bench.run()
    errs = []
    by = {(si, e["done"]): e for si, s in enumerate(sags) for e in s.log}
    timeouts = intime = races = 0
    for mi, m in enumerate(mags):
        if m.hung:
            errs.append({"kind": "request-never-terminated", "master": mi, "at": m.hung, "op": m.ops[m.hung["op"]]})
        for e in m.log:
            tgt = [i for i, (o, k) in enumerate(regs) if o <= e["adr"] < o + 64]
            owned = e["issue"]
            if gm is not None:
                for c in range(e["issue"], min(e["done"] + 1, len(gm.hist))):
                    if gm.hist[c][0] == mi:
                        owned = c
                        break
            waited = e["done"] - owned
            se = by.get((tgt[0], e["done"])) if tgt else None
            if se is not None and waited < T:
                intime += 1
                if T - waited <= 2:
                    races += 1
                if (not e["we"] and e["dat_r"] != se["dat_r"]) or not e["ack"] or e["done"] in em.cycles:
                    errs.append({"kind": "in-time-response-disturbed", "master": mi, "op": e, "slave_gave": se, "waited": waited})
            else:
                # not answered by the slave (or answered in the expiry cycle itself): must be the timeout's termination
                timeouts += 1
                if se is not None:
                    races += 1
                if waited != T and not (se is not None and waited <= T):
                    errs.append({"kind": "termination-not-at-configured-timeout", "master": mi, "op": e, "waited": waited, "T": T})
                elif not e["ack"] or (se is None and e["dat_r"] != 0xffffffff):
                    errs.append({"kind": "timeout-termination-without-ack-and-all-ones", "master": mi, "op": e})
                elif se is None and e["done"] not in em.cycles:
                    errs.append({"kind": "timeout-without-error-pulse", "master": mi, "op": e, "error_cycles": em.cycles[:5]})
        for sp in m.spurious[:1]:
            errs.append({"kind": "termination-while-not-requesting", "master": mi, "at": sp})
    if len(em.cycles) > timeouts:
        errs.append({"kind": "more-error-pulses-than-timeouts", "pulses": len(em.cycles), "timeouts": timeouts})
    return {"errs": errs, "timeouts": timeouts, "intime": intime, "races": races, "capped": not ok,
            "sample": mags[0].log[:3], "cycles": bench.cycle["sys"]}


# ------------------------------------------------------------------------------------ AXI-Lite / AXI
def run_axi(case, rng, full):
    T, topo = case["T"], case["topo"]
    nm = 1 if topo == "alone" else rng.choice([1, 2])
    ns = 1 if topo == "alone" else rng.choice([2, 3])
    IF = axi.AXIInterface if full else axi.AXILiteInterface
    regs = [(i * 256, 8) for i in range(ns)]               # words
    slave_acc = None
    masters = [IF(data_width=32, address_width=14) for _ in range(nm)]
    slaves = [IF(data_width=32, address_width=14) for _ in range(ns)]
    decs = [((lambda a, o=o, k=k: a[k:] == (o >> k)), s) for (o, k), s in zip(regs, slaves)]
    top = Module()
    err_sig = None
    if topo == "shared":
        cls = axi.AXIInterconnectShared if full else axi.AXILiteInterconnectShared
        top.submodules.ic = ic = cls(masters, decs, timeout_cycles=T)
        err_sig = ic.timeout.error
    elif topo == "alone":
        top.comb += masters[0].connect(slaves[0])
        top.submodules.to = to = (axi.AXITimeout if full else axi.AXILiteTimeout)(masters[0], T)
        err_sig = to.error
    else:
        cls = axi.AXICrossbar if full else axi.AXILiteCrossbar
        top.submodules.ic = ic = cls(masters, decs, timeout_cycles=T)
    faulty = rng.randrange(ns)
    nw = nr = 5
    bench = Bench(top, cap=(nw + nr) * nm * (T + 40) + case.get("mute_from", 0) + 600)
    mags, sags, mmons = [], [], []
    for mi, m in enumerate(masters):
        def addr(i):
            r = rng.random()
            if r < 0.15 and topo == "shared":
                return (256 * ns + rng.randrange(64)) * 4
            si = faulty if r < 0.6 else rng.randrange(ns)
            return (regs[si][0] + rng.randrange(64)) * 4
        if full:
            writes = [{"addr": addr(i), "len": rng.choice([0, 1, 3]), "size": 2, "burst": 1, "id": 0} for i in range(nw)]
            for i, t in enumerate(writes):
                t["beats"] = [((mi << 28) | (i << 16) | (k << 12) | rng.getrandbits(12), 0xf) for k in range(t["len"] + 1)]
            reads = [{"addr": addr(i), "len": rng.choice([0, 1, 3]), "size": 2, "burst": 1, "id": 0} for i in range(nr)]
            mags.append(bench.add(AXIMaster(m, writes, reads, rng, order="together", max_out=1,
                                            p_aw=rng.choice([1.0, 0.5]), p_w=1.0, p_ar=rng.choice([1.0, 0.5]), name="m%d" % mi)))
        else:
            writes = [{"addr": addr(i), "data": (mi << 28) | (i << 16) | rng.getrandbits(16), "strb": 0xf, "prot": mi} for i in range(nw)]
            reads = [{"addr": addr(i), "prot": mi} for i in range(nr)]
            # 'wfirst': write data is presented before its address (legal); the idle AW address lines already carry the target, so that
            # the listed decoder finding (W routed by the idle AW address) is not what is being looked at
            mags.append(bench.add(AXILMaster(m, writes, reads, rng, order="w_first" if case["kind"] == "wfirst" else "together",
                                             hold_next_addr=(case["kind"] == "wfirst"), max_out=1,
                                             p_aw=rng.choice([1.0, 0.5]), p_w=1.0, p_ar=rng.choice([1.0, 0.5]), name="m%d" % mi)))
        mmons.append(port_monitors(bench, m, "m%d" % mi, "responses"))
    # 'addr': the slave stops accepting any request channel (address and data) but still answers what it accepted before;
    # address and data are presented together so that a request is never half accepted by a slave and half by the timeout
    # 'aw' / 'w': exactly one write request channel stalls for ever while the other one keeps accepting
    mk = {"all": "all", "resp": ("b", "r"), "addr": ("aw", "ar", "w"), "aw": ("aw",), "w": ("w",), "slow": None, "wfirst": "all"}[case["kind"]]
    for si, s in enumerate(slaves):
        kw = {}
        if case["kind"] == "slow" and si == faulty:
            L = case["lat"]
            kw["accept_lat"] = {"aw": L, "w": L, "ar": L}
        elif si == faulty:
            kw["mute_from"], kw["mute_kind"] = case["mute_from"], mk
        if full:
            def tagger(slv, a, n, k, si=si):
                return ((si + 1) << 24) | ((n & 0xff) << 16) | (k << 12) | (a["addr"] & 0xfff)
            sags.append(bench.add(AXISlave(s, rng, "s%d" % si, lat=(0, 1), tagger=tagger, **kw)))
        else:
            def tagger(slv, addr_, n, si=si):
                return ((si + 1) << 24) | ((n & 0xff) << 16) | (addr_ & 0xffff)
            sags.append(bench.add(AXILSlave(s, rng, "s%d" % si, lat=(0, 1), tagger=tagger, **kw)))
    aw_mon = bench.add(ActivityWatch([mon for pm in mmons for mon in pm.values()], 0, quiet=T + 50))

    class ErrMon:
        def __init__(self):
            self.cycles = []

        def signals(self):
            return [err_sig] if err_sig is not None else []

        def step(self, v, c):
            if err_sig is not None and v[err_sig]:
                self.cycles.append(c)
    em = bench.add(ErrMon())
    ok = bench.run()
    errs = []
    timeouts = intime = races = 0
    # slave responses by cycle
    sb, sr = {}, {}
    for si, s in enumerate(sags):
        for e in s.log["b"]:
            sb.setdefault(e[0], []).append((si, e))
        for e in s.log["r"]:
            sr.setdefault(e[0], []).append((si, e))
    # cycles at which some slave accepted an address / data beat
    s_acc = {"aw": set(), "w": set(), "ar": set()}
    for s in sags:
        for ch in s_acc:
            for e in s.log[ch]:
                s_acc[ch].add(e["cycle"] if isinstance(e, dict) else e[0])
    acc_missing = []
    for mi, m in enumerate(mags):
        if not m.done():
            # root cause: was the hung request accepted by a slave (address and data) and only its response is missing?
            nb, nr_ = len(m.log["b"]), (len(m.r_bursts) if full else len(m.log["r"]))
            w_hung = nb < len(m.writes)
            r_hung = nr_ < len(m.reads)
            w_acc = len(m.log["aw"]) > nb and m.log["aw"][nb][0] in s_acc["aw"]
            r_acc = len(m.log["ar"]) > nr_ and m.log["ar"][nr_][0] in s_acc["ar"]
            if (w_hung and w_acc) or (r_hung and r_acc):
                acc_missing.append((mi, "w" if (w_hung and w_acc) else "r"))
            errs.append({"kind": "request-never-terminated", "master": mi, "counts": {k: len(x) for k, x in m.log.items()},
                         "writes": len(m.writes), "reads": len(m.reads)})
        # writes: k-th B
        for k, e in enumerate(m.log["b"]):
            c, resp = e[0], e[1]
            if k >= len(m.log["aw"]):
                break
            req_c = min(m.log["aw"][k][0], m.log["w"][k][0] if not full and k < len(m.log["w"]) else m.log["aw"][k][0])
            hit = sb.get(c)
            if hit is not None:
                intime += 1
                if not any(resp == x[1][1] for x in hit):
                    errs.append({"kind": "in-time-b-disturbed", "master": mi, "k": k, "master_saw": resp, "slave_gave": hit})
            else:
                timeouts += 1
                if resp != RESP_SLVERR:
                    errs.append({"kind": "timeout-b-without-slverr", "master": mi, "k": k, "resp": resp})
        # reads
        if full:
            rb = m.r_bursts
        else:
            rb = [[e] for e in m.log["r"]]
        for k, burst in enumerate(rb):
            c = burst[-1][0]
            hit = sr.get(c)
            if hit is not None:
                intime += 1
                e = burst[-1]
                if not any((e[1], e[2]) == (x[1][1], x[1][2]) for x in hit):
                    errs.append({"kind": "in-time-r-disturbed", "master": mi, "k": k, "master_saw": e, "slave_gave": hit})
            else:
                timeouts += 1
                e = burst[-1]
                if e[1] != RESP_SLVERR or e[2] != 0xffffffff or (full and not e[3]):
                    errs.append({"kind": "timeout-r-without-slverr-ones-last", "master": mi, "k": k, "master_saw": e})
        # latency bound (single master only, so that arbitration does not enter): a timeout-generated response comes
        # within T + c_bus cycles of the last progress of that request (a token becoming visible, or a beat accepted by a slave)
        if nm == 1:
            resp_b = m.log["b"]
            for k, e in enumerate(resp_b):
                if sb.get(e[0]) is None and k < len(m.offered["aw"]):
                    wi = [i_ for i_, (cw, tok) in enumerate(m.log["w"])] if not full else None
                    prog = [m.offered["aw"][k]]
                    if k < len(m.log["aw"]) and m.log["aw"][k][0] in s_acc["aw"]:
                        prog.append(m.log["aw"][k][0])
                    if not full and k < len(m.offered["w"]):
                        prog.append(m.offered["w"][k])
                        if k < len(m.log["w"]) and m.log["w"][k][0] in s_acc["w"]:
                            prog.append(m.log["w"][k][0])
                    elif full:
                        prog += [c_ for c_ in m.offered["w"] if c_ <= e[0]][-1:]
                        prog += [c_ for c_, _ in m.log["w"] if c_ in s_acc["w"] and c_ <= e[0]][-1:]
                    if e[0] - max(prog) > T + 4:
                        errs.append({"kind": "timeout-response-later-than-T-plus-bus-latency", "dir": "write", "k": k, "T": T,
                                     "last_progress": max(prog), "response": e[0]})
            resp_r = [bu[-1] for bu in m.r_bursts] if full else m.log["r"]
            for k, e in enumerate(resp_r):
                if sr.get(e[0]) is None and k < len(m.offered["ar"]):
                    prog = [m.offered["ar"][k]]
                    if e[0] - max(prog) > T + 4:
                        errs.append({"kind": "timeout-response-later-than-T-plus-bus-latency", "dir": "read", "k": k, "T": T,
                                     "last_progress": max(prog), "response": e[0]})
    # write responses that a master received before the address of that write had been transferred (only possible when data is
    # presented before the address: the time-out absorbs the lone W and answers it at once)
    early_b = [(mi, k) for mi, m in enumerate(mags) for k, e in enumerate(m.log["b"])
               if k >= len(m.log["aw"]) or e[0] < m.log["aw"][k][0]] if not full else []
    # match every write response with an earlier, still unanswered address transfer (all masters share one write path): a
    # response that finds none came early and answers nothing; an address left unmatched at the end was never answered
    evs = sorted([(e[0], 0) for m in mags for e in m.log["aw"]] + [(e[0], 1) for m in mags for e in m.log["b"]]) if not full else []
    open_aw = 0
    for _, is_b in evs:
        open_aw = max(0, open_aw - 1) if is_b else open_aw + 1
    if early_b and open_aw > 0:
        # the address of a write that was answered early arrives later as a request of its own; it is then accepted by a live
        # slave, where it waits for data that were absorbed long ago, or swallowed by the time-out together with the next write's
        # address (one response for two addresses): a transferred address is never answered and the arbiter stays locked
        for e in errs:
            if e["kind"] == "request-never-terminated":
                e["kind"] = "early-write-response-then-a-transferred-address-is-never-answered"
                e["early_b(master,k)"], e["addresses_never_answered"] = early_b[:4], open_aw
    if acc_missing:
        # some request was accepted by a slave and its response never came: with the grant/select locked behind it every
        # other hang of this history is a consequence
        for e in errs:
            if e["kind"] == "request-never-terminated":
                e["kind"] = "accepted-request-whose-response-never-comes-is-not-timed"
                e["accepted_but_unanswered(master,dir)"] = acc_missing
    if em.cycles and timeouts == 0:
        errs.append({"kind": "error-pulse-without-timed-out-request", "cycles": em.cycles[:4]})
    for pm in mmons:
        for ch, mon in pm.items():
            for sv in mon.stab_viol[:1]:
                errs.append({"kind": "%s-%s" % (ch, sv["kind"]), "port": mon.name, "at": sv})
    if case["kind"] == "slow" and case["lat"] >= T - 1:
        races = intime + timeouts
    return {"errs": errs, "timeouts": timeouts, "intime": intime, "races": races, "capped": not ok, "early_b": len(early_b),
            "sample": {"b": mags[0].log["b"][:3], "r": mags[0].log["r"][:3], "error_pulses": em.cycles[:4]},
            "cycles": bench.cycle["sys"]}


# ------------------------------------------------------------------------------------ WaitTimer / controller
def run_waittimer(case, rng):
    t = rng.choice([1, 2, 3, 5, 8, 16, 31, 32, 100])
    dut = WaitTimer(t)
    n = 400
    bits = []
    while len(bits) < n:
        bits += [1] * rng.choice([1, 2, t - 1, t, t + 1, t + 5, 2 * t + 3]) + [0] * rng.choice([1, 1, 2, 5])
    bits = [b for b in bits][:n]

    class Drv:
        def __init__(self):
            self.errs, self.n = [], 0
            self.run = 0        # consecutive cycles with wait=1 up to and including the cycle that ended

        def signals(self):
            return [dut.wait, dut.done]

        def step(self, v, c):
            # reference: done is high in a cycle iff wait has been high for the t preceding cycles without a gap
            # (count t..0, one step per waiting cycle, reload when wait is low)
            exp_done = int(self.run >= t)
            if c > 0 and v[dut.done] != exp_done:
                self.errs.append({"cycle": c, "t": t, "waited": self.run, "done": v[dut.done], "expected": exp_done})
            self.n += 1
            self.run = self.run + 1 if v[dut.wait] else 0
            return {dut.wait: bits[c] if c < len(bits) else 0}

        def done(self):
            return self.n >= n
    d = Drv()
    b = Bench(dut, cap=n + 10)
    b.add(d)
    b.run()
    return {"errs": [dict(e, kind="waittimer-done-mismatch") for e in d.errs[:2]], "timeouts": 0, "intime": 0, "races": 0,
            "capped": False, "wt": d.n, "sample": {"t": t}, "cycles": d.n}


def run_ctrl(case, rng):
    """Wishbone shared interconnect with timeout wired to SoCController.bus_error exactly as SoC.finalize does:
    the error counter must increase by one per timed-out request and saturate."""
    T = case["T"]
    m = wishbone.Interface(data_width=32, adr_width=10)
    s = wishbone.Interface(data_width=32, adr_width=10)
    top = Module()
    top.submodules.ic = ic = wishbone.InterconnectShared([m], [((lambda a: a[6:] == 0), s)], timeout_cycles=T)
    top.submodules.ctrl = ctrl = SoCController()
    top.comb += ctrl.bus_error.eq(ic.timeout.error)
    ops = [{"adr": rng.choice([rng.randrange(64), 64 + rng.randrange(64)]), "we": rng.getrandbits(1), "sel": 15,
            "dat_w": rng.getrandbits(32), "gap": rng.choice([0, 1, 4])} for _ in range(16)]
    near_sat = rng.random() < 0.5
    bench = Bench(top, cap=16 * (T + 12) + 100, drain=4)
    mm = bench.add(WBMaster(m, ops))
    bench.add(WBSlave(s, rng, lat=(0, 0)))
    status = ctrl._bus_errors.status

    class Mon:
        def __init__(self):
            self.hist = []

        def signals(self):
            return [status]

        def step(self, v, c):
            self.hist.append(v[status] & 0xffffffff)
    mon = bench.add(Mon())
    if near_sat:
        def hook(sim, done=[False]):
            if not done[0]:
                done[0] = True
                for sg in list_targets(sim.fragment.sync):
                    if len(sg) == 32 and sg.backtrace and sg.backtrace[-1][0] == "bus_errors":
                        sim.evaluator.signal_values[sg] = 2**32 - 3
        bench.precommit_hooks = [hook]
    bench.run()
    n_to = sum(1 for e in mm.log if e["adr"] >= 64)
    start = mon.hist[2] if len(mon.hist) > 2 else 0
    end = mon.hist[-1]
    errs = []
    exp = min(start + n_to, 2**32 - 1)
    if near_sat and start < 2**32 - 3:
        return {"errs": [], "timeouts": 0, "intime": 0, "races": 0, "capped": False, "pulses": 0, "sample": {}, "cycles": 0,
                "inconc": "could not preset the error counter"}
    # a healthy slave answering in the very cycle the timer expires (T == its latency) also raises the error pulse
    ties = sum(1 for e in mm.log if e["adr"] < 64 and e["done"] - e["issue"] == T)
    if not (exp <= end <= min(exp + ties, 2**32 - 1)):
        errs.append({"kind": "bus-error-counter-wrong", "start": start, "timeouts": n_to, "ties": ties, "end": end, "expected": exp})
    if any(b < a for a, b in zip(mon.hist[2:], mon.hist[3:])):
        errs.append({"kind": "bus-error-counter-decreased"})
    return {"errs": errs, "timeouts": n_to, "intime": len(mm.log) - n_to, "races": 0, "capped": False, "pulses": n_to,
            "sample": {"start": start, "timeouts": n_to, "end": end}, "cycles": bench.cycle["sys"]}


def run_ctrl_axil(case, rng):
    """AXI-Lite shared interconnect with timeout, error wire to SoCController.bus_error as SoC.finalize does. A write and a read to a
    silent slave are started `skew` cycles apart, so that the write-side and the read-side time-outs expire `skew` cycles apart
    (adjacent cycles included): every SLVERR-terminated request is one bus error."""
    T, skew = case["T"], case["skew"]
    m = axi.AXILiteInterface(data_width=32, address_width=12)
    s = axi.AXILiteInterface(data_width=32, address_width=12)
    top = Module()
    top.submodules.ic = ic = axi.AXILiteInterconnectShared([m], [((lambda a: a[8:] == 0), s)], timeout_cycles=T)
    top.submodules.ctrl = ctrl = SoCController()
    top.comb += ctrl.bus_error.eq(ic.timeout.error)
    status = ctrl._bus_errors.status
    rounds = 6
    period = T + 14 + abs(skew)
    log = {"b": [], "r": [], "status": [], "err": []}

    class Drv:
        def __init__(self):
            self.aw = self.w = self.ar = False

        def signals(self):
            return [m.aw.ready, m.w.ready, m.ar.ready, m.b.valid, m.b.resp, m.r.valid, m.r.resp, m.r.data, status, ic.timeout.error]

        def step(self, v, c):
            log["status"].append(v[status] & 0xffffffff)
            if v[ic.timeout.error]:
                log["err"].append(c)
            if self.aw and v[m.aw.ready]:
                self.aw = False
            if self.w and v[m.w.ready]:
                self.w = False
            if self.ar and v[m.ar.ready]:
                self.ar = False
            if v[m.b.valid]:
                log["b"].append((c, v[m.b.resp]))
            if v[m.r.valid]:
                log["r"].append((c, v[m.r.resp], v[m.r.data] & 0xffffffff))
            k, ph = divmod(c + 1, period)
            if k < rounds:
                if ph == 4 + max(0, -skew):
                    self.aw = self.w = True
                if ph == 4 + max(0, skew):
                    self.ar = True
            return {m.aw.valid: int(self.aw), m.aw.addr: 0x10, m.w.valid: int(self.w), m.w.data: 0x1234, m.w.strb: 0xf,
                    m.ar.valid: int(self.ar), m.ar.addr: 0x20, m.b.ready: 1, m.r.ready: 1}

        def done(self):
            return False
    bench = Bench(top, cap=rounds * period + 20)
    bench.add(Drv())
    bench.run()
    errs = []
    n_slverr = sum(1 for _, r_ in log["b"] if r_ == RESP_SLVERR) + sum(1 for e in log["r"] if e[1] == RESP_SLVERR)
    start, end = log["status"][2], log["status"][-1]
    if len(log["b"]) != rounds or len(log["r"]) != rounds:
        errs.append({"kind": "request-never-terminated", "b": len(log["b"]), "r": len(log["r"]), "rounds": rounds})
    elif n_slverr != 2 * rounds or any(e[2] != 0xffffffff for e in log["r"]):
        errs.append({"kind": "termination-without-error-indication", "slverr": n_slverr, "expected": 2 * rounds})
    elif end - start != n_slverr:
        errs.append({"kind": "bus-error-counter-wrong", "skew": skew, "timed_out_requests": n_slverr, "counter_increase": end - start,
                     "error_pulse_cycles": log["err"][:6]})
    return {"errs": errs, "timeouts": n_slverr, "intime": 0, "races": 0, "capped": False, "pulses": len(log["err"]),
            "sample": {"skew": skew, "T": T, "timed_out": n_slverr, "counter_increase": end - start}, "cycles": bench.cycle["sys"]}


def run_case(case):
    rng = rng_for(case["seed"])
    if case["std"] == "ctrl-axil":
        return run_ctrl_axil(case, rng)
    if case["std"] == "wb":
        return run_wb(case, rng)
    if case["std"] == "axil":
        return run_axi(case, rng, False)
    if case["std"] == "axi":
        return run_axi(case, rng, True)
    if case["std"] == "waittimer":
        return run_waittimer(case, rng)
    return run_ctrl(case, rng)


def run_shard(shard):
    col = Collector(shard["cls"])
    for case in shard["cases"]:
        r = col.guard(case, run_case, case)
        if r is None:
            continue
        if r.get("inconc"):
            col.inconc(case, r["inconc"])
            continue
        col.ev("timeouts_observed", r["timeouts"])
        col.ev("answered_in_time", r["intime"])
        col.ev("races_at_expiry", r["races"])
        col.ev("waittimer_cycles", r.get("wt", 0))
        col.ev("error_pulses_counted", r.get("pulses", 0))
        col.ev("write_responses_before_their_address_observed", r.get("early_b", 0))
        col.ev("sim_cycles", r["cycles"])
        if "mute_from" in case:
            col.ev("fault_instants")
            if case["kind"] == "wfirst":
                col.ev("fault_instants_with_write_data_before_address")
            col.cov("fault_instants_swept", "%s/%s/%s/%d" % (case["std"], case["topo"], case["kind"], case["mute_from"]))
        col.cov("configs", "%s/%s/T%d/%s" % (case["std"], case["topo"], case["T"], case["kind"]))
        kinds = [e["kind"] for e in r["errs"]]
        for e in r["errs"][:1]:
            key = "%s-%s/%s/%s" % (case["std"], case["topo"], case["kind"] if case["kind"] in ("resp", "slow") else "mute", e["kind"])
            hang = e["kind"] in ("request-never-terminated", "accepted-request-whose-response-never-comes-is-not-timed")
            if case["std"] == "ctrl-axil":
                # the read-side and write-side error pulses share one wire: expiring in the same cycle (skew 0) they are one pulse
                key = "ctrl-axil/%s/%s" % ("same-cycle-read-and-write-timeouts" if case["skew"] == 0 else "timeouts-%d-cycles-apart" % abs(case["skew"]),
                                           e["kind"])
            elif case["topo"] == "crossbar" and (hang or e["kind"] == "termination-not-at-configured-timeout"):
                # (a request that a slow slave answers after more than T cycles is the same root cause: no timeout runs)
                # root cause: the crossbar classes accept timeout_cycles and never instantiate a timeout
                key = "%s-crossbar/timeout_cycles-ignored" % case["std"]
            elif hang and "accepted-request-whose-response-never-comes-is-not-timed" in kinds and case["std"] in ("axil", "axi"):
                # root cause (any master of this case): request accepted by the slave, B/R never comes, no timer runs;
                # other masters then hang behind the locked grant
                key = "%s-timeout/response-phase-not-timed" % case["std"]
            col.violation(key, case, "%s %s T=%d fault=%s@%s: %s" % (case["std"], case["topo"], case["T"], case["kind"],
                                                                    case.get("mute_from", case.get("lat")), e), {"errors": r["errs"][:3]})
        if r["capped"] and not r["errs"]:
            col.inconc(case, "cycle cap reached without a recorded error")
        col.case_done(case, r["timeouts"] > 0 or r["races"] > 0 or case["std"] in ("waittimer", "ctrl", "ctrl-axil"),
                      sample={"case": case, "timeouts": r["timeouts"], "answered_in_time": r["intime"], "observed": r["sample"]})
    return col.result()
