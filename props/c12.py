"""C12 - CSR banks: exact, side-effect-free register semantics. Every cycle the real bank array
(CSRBankArray + CSRBank + csr_bus.SRAM built from AutoCSR peripherals) is compared with a register
file model built from the declared register list and the documented address rule."""
from migen import *

from litex.soc.interconnect import csr, csr_bus
from litex.soc.interconnect.csr import CSR, CSRStorage, CSRStatus, CSRField, AutoCSR

from lib.collect import Collector, rng_for, h
from lib.bench.kernel import Bench, umask

LEVEL = "exploration"
RULE = ("one case = random peripherals with random register sets (CSRStorage +-atomic +-write_from_dev +-fields(offset, pulse, "
        "reset), CSRStatus +-fields, raw CSR, sizes 1..3 bus words + delta, fixed locations n=..., an optional CSR memory with "
        "sub-word staging / paging) x bus width 8/32 x big/little ordering x paging 0x400..0x1000, collected by the real "
        "CSRBankArray; one random bus history (reads, writes, idle, unmapped and foreign-page addresses) interleaved with device-"
        "side status changes and device writes. A register-file model built from the declaration predicts, for every cycle, dat_r, "
        "every storage, re/we strobes and field signals. Non-trivial = >= 100 bus accesses that hit a register; distinct = distinct case digests")
ASSUMPTIONS = ["migen tracer shim (names only; register names are given explicitly)",
               "a device write and a bus write to the same register never fall in the same cycle (their priority is not documented)",
               "we and re are never asserted together (no bridge does)",
               "CSRStorage.re is the strobe of the write to the register's last address, one cycle later (docstring: 'after or during')"]
FLOORS = {"quick": {"bus_writes_hit": 20000, "bus_reads_hit": 20000, "cycles_compared": 100000, "registers": 1000,
                    "atomic_commits": 300, "pulse_fields_seen": 200, "mem_accesses": 3000,
                    "device_update_coinciding_with_bus_write": 800, "auto_placed_fields": 80,
                    "overlapping_field_declarations_tried": 1000},
          "thorough": {"bus_writes_hit": 400000, "bus_reads_hit": 400000, "cycles_compared": 2000000, "registers": 25000,
                       "atomic_commits": 6000, "pulse_fields_seen": 4000, "mem_accesses": 60000,
                       "device_update_coinciding_with_bus_write": 16000, "auto_placed_fields": 1600,
                       "overlapping_field_declarations_tried": 20000}}
SHARD_TIMEOUT = {"quick": 900, "thorough": 3000}
N_SAMPLES = 3


def plan(tier, seed):
    n = 160 if tier == "quick" else 3000
    cases = []
    for k in range(n):
        cases.append({"dw": [8, 32][k % 2], "ordering": ["big", "little"][(k // 2) % 2], "paging": [0x400, 0x800, 0x1000][(k // 4) % 3],
                      "seed": "%d/C12/%d" % (seed, k)})
    ns = 48 if tier == "quick" else 160
    return [{"id": "csr%03d" % i, "cls": "bank", "cases": cases[i::ns]} for i in range(ns)]


# ------------------------------------------------------------------------------------ declaration
def gen_fields(rng, maxbits, allow_pulse):
    fields, off = [], 0
    i = 0
    gap = 0
    while off < maxbits and len(fields) < 5:
        size = rng.randint(1, min(6, maxbits - off))
        pulse = allow_pulse and size == 1 and rng.random() < 0.4
        # "auto": the field is declared without an offset and must be placed right behind the previous one (only drawn when it
        # follows its predecessor without a gap, so that the declared layout is the same either way)
        f = {"name": "f%d" % i, "size": size, "offset": off, "reset": 0 if pulse else rng.getrandbits(size), "pulse": pulse,
             "auto": gap == 0 and rng.random() < 0.5}
        fields.append(f)
        i += 1
        gap = rng.choice([0, 0, 1, 3])
        off += size + gap
    return fields


def gen_regs(rng, dw):
    regs = []
    nregs = rng.randint(2, 7)
    for i in range(nregs):
        kind = rng.choice(["storage", "storage", "storage", "status", "status", "csr"])
        size = rng.choice([1, dw - 1, dw, dw + 1, 2 * dw, 2 * dw + 3, 3 * dw, rng.randint(1, 3 * dw + 5)])
        r = {"kind": kind, "name": "r%d" % i, "size": size, "n": None}
        if kind == "csr":
            r["size"] = rng.randint(1, dw)
        elif kind == "storage":
            r["atomic"] = rng.random() < 0.4
            r["wfd"] = rng.random() < 0.3
            r["reset"] = rng.getrandbits(size)
            if rng.random() < 0.3:
                r["fields"] = gen_fields(rng, min(size, 24), True)
                r["size"] = r["fields"][-1]["offset"] + r["fields"][-1]["size"]
                r["reset"] = sum(f["reset"] << f["offset"] for f in r["fields"])
        else:
            r["reset"] = rng.getrandbits(size)
            r["writable"] = rng.random() < 0.3
            if rng.random() < 0.3:
                r["fields"] = gen_fields(rng, min(size, 24), False)
                r["size"] = r["fields"][-1]["offset"] + r["fields"][-1]["size"]
        regs.append(r)
    # fixed locations: some registers pinned to list positions (unique, may leave gaps filled by reserved CSRs)
    if rng.random() < 0.4:
        free = list(range(nregs + 2))
        rng.shuffle(free)
        for r in regs:
            if rng.random() < 0.4:
                r["n"] = free.pop()
    return regs


def build_periph(regs, mem_spec):
    class Periph(Module, AutoCSR):
        pass
    p = Periph()
    objs = {}
    for r in regs:
        kw = {"name": r["name"]}
        if r["n"] is not None:
            kw["n"] = r["n"]
        if r["kind"] == "csr":
            o = CSR(r["size"], **kw)
        elif r["kind"] == "storage":
            if r.get("fields"):
                o = CSRStorage(fields=[CSRField(f["name"], size=f["size"], offset=None if f.get("auto") else f["offset"], reset=f["reset"], pulse=f["pulse"])
                                       for f in r["fields"]], atomic_write=r["atomic"], write_from_dev=r["wfd"], **kw)
            else:
                o = CSRStorage(r["size"], reset=r["reset"], atomic_write=r["atomic"], write_from_dev=r["wfd"], **kw)
        else:
            if r.get("fields"):
                o = CSRStatus(fields=[CSRField(f["name"], size=f["size"], offset=None if f.get("auto") else f["offset"], reset=f["reset"])
                                      for f in r["fields"]], read_only=not r["writable"], **kw)
            else:
                o = CSRStatus(r["size"], reset=r["reset"], read_only=not r["writable"], **kw)
        setattr(p, "_" + r["name"], o)
        objs[r["name"]] = o
    if mem_spec:
        p.mem = Memory(mem_spec["width"], mem_spec["depth"], init=list(mem_spec["init"]), name="mem")
        p.specials += p.mem
    return p, objs


# ------------------------------------------------------------------------------------ model
def place(regs):
    """Documented placement: registers in creation order, fixed ones at list position n, gaps -> 1-word reserved CSR."""
    var = [r for r in regs if r["n"] is None]
    fixed = [r for r in regs if r["n"] is not None]
    length = len(regs)
    for r in fixed:
        if r["n"] >= length:
            length = r["n"] + 1
    slots = [None] * length
    for r in fixed:
        slots[r["n"]] = r
    for r in var:
        for i in range(length):
            if slots[i] is None:
                slots[i] = r
                break
    for i in range(length):
        if slots[i] is None:
            slots[i] = {"kind": "csr", "name": "reserved%d" % i, "size": 1, "n": None, "reserved": True}
    return slots


class BankModel:
    def __init__(self, slots, dw, ordering):
        self.dw, self.ordering = dw, ordering
        self.words = []          # address order: (reg, word index i, lo, nbits)
        self.regs = slots
        for r in slots:
            nw = (r["size"] + dw - 1) // dw if r["kind"] != "csr" else 1
            idx = list(reversed(range(nw))) if ordering == "big" else list(range(nw))
            r["_first"] = len(self.words)
            for i in idx:
                self.words.append((r, i, i * dw, min(r["size"] - i * dw, dw)))
            r["_last"] = len(self.words) - 1
            r["_nw"] = nw
            if r["kind"] == "storage":
                r["_val"] = r["reset"]
                r["_back"] = 0
            if r["kind"] == "status":
                r["_r"] = 0


def bits(x, lo, n):
    return (x >> lo) & ((1 << n) - 1)


# ------------------------------------------------------------------------------------ one case
def overlapping_fields_rejected(rng):
    """'fields sit at their declared offsets' includes that a declaration whose fields would share bits is refused: an explicitly
    placed field (leaving a gap) followed by a field declared at an offset inside it, or inside an automatically placed one"""
    a_off, a_size = rng.choice([1, 2, 4, 5]), rng.randint(2, 6)
    b_size = rng.randint(1, 4)
    variants = [[CSRField("a", size=a_size, offset=a_off), CSRField("b", size=b_size, offset=rng.randrange(a_off, a_off + a_size))],
                [CSRField("a", size=a_size, offset=a_off), CSRField("m", size=3), CSRField("b", size=b_size, offset=a_off + a_size + rng.randrange(3))]]
    out = []
    for fields in variants:
        try:
            o = CSRStorage(fields=fields, name="ovl")
            out.append({"fields": [(f.name, f.offset, f.size) for f in fields], "accepted_size": o.size})
        except ValueError:
            pass
    return out


def run_case(case):
    rng = rng_for(case["seed"])
    dw, ordering, paging = case["dw"], case["ordering"], case["paging"]
    ap = paging // 4
    nper = rng.randint(1, 3)
    top = Module()
    pers, models = [], []
    mem_owner = rng.randrange(nper) if rng.random() < 0.6 else None
    mem_spec = None
    for pi in range(nper):
        regs = gen_regs(rng, dw)
        ms = None
        if pi == mem_owner:
            width = rng.choice([dw, dw, 32]) if dw == 8 else 32
            depth = rng.choice([8, 16, 64])
            if rng.random() < 0.3:
                depth = 2 * ap // ((width + dw - 1) // dw)          # needs paging (two pages)
            ms = {"width": width, "depth": depth, "init": [rng.getrandbits(width) for _ in range(depth)]}
            mem_spec = ms
        p, objs = build_periph(regs, ms)
        setattr(top.submodules, "p%d" % pi, p)
        pers.append((regs, objs, p, ms))
    pages = {}

    def address_map(name, memory):
        key = (name, memory is not None)
        if key not in pages:
            pages[key] = len(pages)
        return pages[key]
    top.submodules.banks = banks = csr_bus.CSRBankArray(top, address_map, data_width=dw, address_width=14, paging=paging, ordering=ordering)
    master = csr_bus.Interface(data_width=dw, address_width=14)
    top.submodules.ic = csr_bus.Interconnect(master, banks.get_buses())
    # the SRAM's page register (if any) is an extra CSRStorage appended to the owner's register list by CSRBankArray
    sram = banks.srams[0][3] if banks.srams else None
    bank_models = {}
    errs = []
    for pi, (regs, objs, p, ms) in enumerate(pers):
        slots = place(list(regs))
        if ms and sram is not None and sram._page is not None:
            # the page register of a paged CSR memory is appended after the peripheral's own (sorted) registers
            slots.append({"kind": "storage", "name": "mem_page", "size": len(sram._page.storage), "n": None, "atomic": False,
                          "wfd": False, "reset": 0})
            objs["mem_page"] = sram._page
        bm = BankModel(slots, dw, ordering)
        bm.page = pages.get(("p%d" % pi, False))
        bm.objs = objs
        bank_models[pi] = bm
        # placement produced by LiteX (names in address order) vs documented rule
        got = None
        for name, csrs, mapaddr, rmap in banks.banks:
            if name == "p%d" % pi:
                got = [c.name for c in csrs]
        want = [r["name"] for r in slots]
        if got is not None and got != want:
            errs.append({"kind": "register-placement", "expected": want, "got": got})
    mem_page = pages.get(("p%d" % mem_owner, True)) if mem_owner is not None else None

    # ---- address pools
    hit_addrs = []
    for pi, bm in bank_models.items():
        if bm.page is not None:
            hit_addrs += [bm.page * ap + a for a in range(len(bm.words))]
    cpm = 1
    if mem_spec:
        cpm = (mem_spec["width"] + dw - 1) // dw
        hit_addrs_mem = [mem_page * ap + a for a in range(min(ap, mem_spec["depth"] * cpm))]
    else:
        hit_addrs_mem = []
    ncycles = case.get("cycles", 900)

    class TB:
        """drives the bus and the device side, samples everything, steps the model, compares"""
        def __init__(self):
            self.c = 0
            self.exp = None
            self.stats = {"wh": 0, "rh": 0, "cmp": 0, "atomic": 0, "pulse": 0, "mem": 0, "wfd_coinc": 0}
            self.sigs = [master.adr, master.we, master.re, master.dat_w, master.dat_r]
            self.regsigs = []
            for pi, bm in bank_models.items():
                for r in bm.regs:
                    if r.get("reserved"):
                        continue
                    o = bm.objs[r["name"]]
                    if r["kind"] == "storage":
                        s = [o.storage, o.re]
                        if r["wfd"]:
                            s += [o.we, o.dat_w]
                        for f in r.get("fields", []):
                            s.append(getattr(o.fields, f["name"]))
                    elif r["kind"] == "status":
                        s = [o.status, o.we, o.re] + ([o.r] if r["writable"] else [])
                        if r.get("fields"):
                            s += [getattr(o.fields, f["name"]) for f in r["fields"]]
                    else:
                        s = [o.re, o.r, o.we, o.w]
                    self.regsigs += s
            self.mem = list(mem_spec["init"]) if mem_spec else None
            self.wregs = [0] * max(0, cpm - 1)
            self.last_read = None
            self.prev_access = None     # (kind, adr) of the cycle before the one that just ended
            self.status_drive = {}

        def signals(self):
            return self.sigs + self.regsigs

        def done(self):
            return self.c >= ncycles

        def step(self, v, c):
            self.c = c
            adr, we, re, dat_w = v[master.adr], v[master.we], v[master.re], umask(master.dat_w, v[master.dat_w])
            page, idx = adr // ap, adr % ap
            st = self.stats
            # ------------ 1. compare what the model predicted for the cycle that just ended
            if self.exp is not None and len(errs) < 3:
                st["cmp"] += 1
                e = self.exp
                got_r = umask(master.dat_r, v[master.dat_r])
                if e["dat_r"] is not None and got_r != e["dat_r"]:
                    errs.append({"kind": "dat_r", "cycle": c, "expected": e["dat_r"], "got": got_r, "read_of": e["what"]})
                for (sig, val, what) in e["sigs"]:
                    g = umask(sig, v[sig])
                    if g != val:
                        errs.append({"kind": what[0], "cycle": c, "register": what[1], "expected": val, "got": g,
                                     "bus_in_previous_cycle": e["bus"]})
                        break
            # ------------ 2. same-cycle (combinational) strobes of raw CSRs and status.we
            for pi, bm in bank_models.items():
                for k, (r, i, lo, nb) in enumerate(bm.words):
                    if r.get("reserved"):
                        continue
                    o = bm.objs[r["name"]]
                    sel = bm.page is not None and page == bm.page and idx == k
                    if r["kind"] == "csr":
                        exp_re, exp_we = int(bool(sel and we)), int(bool(sel and re))
                        if (v[o.re], v[o.we]) != (exp_re, exp_we) and len(errs) < 3:
                            errs.append({"kind": "raw-csr-strobe", "cycle": c, "register": r["name"], "expected(re,we)": [exp_re, exp_we],
                                         "got": [v[o.re], v[o.we]], "bus": [adr, we, re]})
                        if exp_re and umask(o.r, v[o.r]) != bits(dat_w, 0, r["size"]) and len(errs) < 3:
                            errs.append({"kind": "raw-csr-r", "cycle": c, "register": r["name"]})
                    elif r["kind"] == "status" and k == r["_last"]:
                        exp_we = int(bool(sel and re))
                        if v[o.we] != exp_we and len(errs) < 3:
                            errs.append({"kind": "status-we-strobe", "cycle": c, "register": r["name"], "expected": exp_we, "got": v[o.we],
                                         "bus": [adr, we, re]})
            # ------------ 3. model step: inputs of the cycle that just ended -> expectations for the next cycle
            exp = {"dat_r": 0, "sigs": [], "what": None, "bus": {"adr": adr, "we": we, "re": re, "dat_w": dat_w}}
            for pi, bm in bank_models.items():
                selected = bm.page is not None and page == bm.page
                for r in bm.regs:
                    if r.get("reserved"):
                        continue
                    o = bm.objs[r["name"]]
                    if r["kind"] == "storage":
                        re_next = 0
                        if r["wfd"] and v[o.we]:
                            r["_val"] = umask(o.dat_w, v[o.dat_w])
                        if selected and we and r["_first"] <= idx <= r["_last"]:
                            _, i, lo, nb = bm.words[idx]
                            st["wh"] += 1
                            val = bits(dat_w, 0, nb)
                            if r["atomic"] and r["_nw"] > 1:
                                if idx == r["_last"]:
                                    # commit: the word written now together with the staged other words
                                    full = r["_back"] & ~(((1 << nb) - 1) << lo) | (val << lo)
                                    r["_val"] = full & ((1 << r["size"]) - 1)
                                    st["atomic"] += 1
                                else:
                                    r["_back"] = r["_back"] & ~(((1 << nb) - 1) << lo) | (val << lo)
                            else:
                                r["_val"] = r["_val"] & ~(((1 << nb) - 1) << lo) | (val << lo)
                            if idx == r["_last"]:
                                re_next = 1
                        exp["sigs"].append((o.storage, r["_val"], ("storage-value[atomic-multiword]" if r["atomic"] and r["_nw"] > 1
                                                                   else "storage-value", r["name"])))
                        exp["sigs"].append((o.re, re_next, ("storage-re-strobe", r["name"])))
                        for f in r.get("fields", []):
                            fv = bits(r["_val"], f["offset"], f["size"])
                            if f["pulse"]:
                                fv = fv if re_next else 0
                                if re_next and fv:
                                    st["pulse"] += 1
                            exp["sigs"].append((getattr(o.fields, f["name"]), fv, ("field-value", r["name"] + "." + f["name"])))
                    elif r["kind"] == "status":
                        re_next = 0
                        if r["writable"] and selected and we and r["_first"] <= idx <= r["_last"]:
                            _, i, lo, nb = bm.words[idx]
                            st["wh"] += 1
                            r["_r"] = r["_r"] & ~(((1 << nb) - 1) << lo) | (bits(dat_w, 0, nb) << lo)
                            if idx == r["_last"]:
                                re_next = 1
                        if r["writable"]:
                            exp["sigs"].append((o.r, r["_r"], ("status-r-value", r["name"])))
                            exp["sigs"].append((o.re, re_next, ("status-re-strobe", r["name"])))
                if selected:
                    if idx < len(bm.words):
                        r, i, lo, nb = bm.words[idx]
                        exp["what"] = [r["name"], i]
                        if r.get("reserved"):
                            exp["dat_r"] = None
                        elif r["kind"] == "storage":
                            # value visible during the access cycle (before this cycle's write takes effect)
                            exp["dat_r"] = bits(umask(bm.objs[r["name"]].storage, v[bm.objs[r["name"]].storage]), lo, nb)
                            st["rh"] += int(bool(re))
                        elif r["kind"] == "status":
                            exp["dat_r"] = bits(umask(bm.objs[r["name"]].status, v[bm.objs[r["name"]].status]), lo, nb)
                            st["rh"] += int(bool(re))
                        else:
                            exp["dat_r"] = bits(umask(bm.objs[r["name"]].w, v[bm.objs[r["name"]].w]), 0, r["size"])
                            st["rh"] += int(bool(re))
            if mem_spec and page == mem_page:
                pvbits = len(sram._page.storage) if sram._page is not None else 0
                pg = v[sram._page.storage] if pvbits else 0
                word_bits = (cpm - 1).bit_length()
                mw = ((adr >> word_bits) & ((1 << (nadr - pvbits)) - 1)) | (pg << (nadr - pvbits))
                sub = idx & (cpm - 1)
                if mw < mem_spec["depth"]:
                    st["mem"] += 1
                    mv = self.mem[mw]
                    # big-endian sub-words: sub-word 0 is the most significant chunk
                    chunk = (mv >> (dw * (cpm - 1 - sub))) & ((1 << dw) - 1)
                    # on a write cycle the (write-first) memory port already shows the new word: nobody consumes
                    # dat_r after a write, so it is only predicted for reads / idle cycles
                    exp["dat_r"] = None if we else (exp["dat_r"] or 0) | chunk
                    exp["what"] = ["mem", mw, sub]
                    if we:
                        if sub == cpm - 1:
                            nv = dat_w
                            for k_ in range(cpm - 1):
                                nv |= self.wregs[k_] << (dw * (cpm - 1 - k_))
                            self.mem[mw] = nv & ((1 << mem_spec["width"]) - 1)
                        else:
                            self.wregs[sub] = dat_w
                else:
                    exp["dat_r"] = None
            elif mem_spec and we and cpm > 1:
                pass
            self.exp = exp
            # ------------ 4. drive next cycle
            w = {}
            r_ = rng.random()
            if r_ < 0.3:
                w[master.we], w[master.re] = 0, 0
                w[master.adr] = rng.choice(hit_addrs + [rng.getrandbits(14)]) if rng.random() < 0.5 else adr
                w[master.dat_w] = rng.getrandbits(dw)
            else:
                pool = rng.random()
                if pool < 0.7 and hit_addrs:
                    a = rng.choice(hit_addrs)
                elif pool < 0.9 and hit_addrs_mem:
                    a = rng.choice(hit_addrs_mem)
                elif pool < 0.95:
                    a = rng.getrandbits(14)
                else:
                    a = (rng.choice(hit_addrs) + rng.choice([ap, 2 * ap, len(pages) * ap])) & 0x3fff if hit_addrs else 0
                iswrite = rng.random() < 0.5
                w[master.adr], w[master.we], w[master.re] = a, int(iswrite), int(not iswrite)
                w[master.dat_w] = rng.choice([rng.getrandbits(dw), (1 << dw) - 1, 0, 1 << rng.randrange(dw)])
            # device side
            for pi, bm in bank_models.items():
                for r in bm.regs:
                    if r.get("reserved"):
                        continue
                    o = bm.objs[r["name"]]
                    if r["kind"] == "status" and not r.get("fields") and rng.random() < 0.2:
                        w[o.status] = rng.getrandbits(r["size"])
                    elif r["kind"] == "status" and r.get("fields") and rng.random() < 0.2:
                        for f in r["fields"]:
                            w[getattr(o.fields, f["name"])] = rng.getrandbits(f["size"])
                    elif r["kind"] == "csr" and rng.random() < 0.2:
                        w[o.w] = rng.getrandbits(r["size"])
                    elif r["kind"] == "storage" and r["wfd"]:
                        bus_hits_me = (w[master.we] and bm.page is not None and w[master.adr] // ap == bm.page
                                       and r["_first"] <= w[master.adr] % ap <= r["_last"])
                        # a device update may coincide with a bus write of the same register: the bus write still changes the
                        # addressed bits (the statement is unconditional), the device update the others
                        fire = rng.random() < (0.5 if bus_hits_me else 0.1)
                        if fire and bus_hits_me:
                            st["wfd_coinc"] += 1
                        w[o.we] = int(fire)
                        w[o.dat_w] = rng.getrandbits(r["size"])
            return w
    nadr = max(1, (mem_spec["depth"] - 1).bit_length()) if mem_spec else 0      # address bits of the memory port
    tb = TB()
    bench = Bench(top, cap=ncycles + 50)
    bench.add(tb)
    bench.run()
    # ---- address uniqueness (model)
    for pi, bm in bank_models.items():
        seen = {}
        for k, (r, i, lo, nb) in enumerate(bm.words):
            seen.setdefault(k, []).append(r["name"])
    nreg = sum(len([r for r in bm.regs if not r.get("reserved")]) for bm in bank_models.values())
    nauto = sum(1 for bm in bank_models.values() for r in bm.regs for f in (r.get("fields") or []) if f.get("auto"))
    return {"errs": errs[:3], "stats": tb.stats, "registers": nreg, "cycles": tb.c, "auto_fields": nauto,
            "decl": [[{k: v for k, v in r.items() if not k.startswith("_") and k != "fields"} for r in bm.regs] for bm in bank_models.values()][:1],
            "mem": {k: v for k, v in (mem_spec or {}).items() if k != "init"}}


def run_shard(shard):
    col = Collector(shard["cls"])
    for case in shard["cases"]:
        r = col.guard(case, run_case, case)
        if r is None:
            continue
        from lib.collect import rng_for as _rf
        for k in range(4):
            bad = col.guard(case, overlapping_fields_rejected, _rf(case["seed"], "overlap%d" % k))
            col.ev("overlapping_field_declarations_tried", 2)
            for b in bad or []:
                col.violation("csr/fields/overlapping-declaration-accepted", case, "fields %s accepted (register size %d)" % (
                    b["fields"], b["accepted_size"]), b)
        st = r["stats"]
        col.ev("auto_placed_fields", r.get("auto_fields", 0))
        col.ev("bus_writes_hit", st["wh"])
        col.ev("device_update_coinciding_with_bus_write", st["wfd_coinc"])
        col.ev("bus_reads_hit", st["rh"])
        col.ev("cycles_compared", st["cmp"])
        col.ev("atomic_commits", st["atomic"])
        col.ev("pulse_fields_seen", st["pulse"])
        col.ev("mem_accesses", st["mem"])
        col.ev("registers", r["registers"])
        col.cov("bus_configs", "dw%d/%s/paging%x" % (case["dw"], case["ordering"], case["paging"]))
        for e in r["errs"][:1]:
            col.violation("csr/%s/%s" % (case["ordering"], e["kind"]), case, "dw=%d %s paging=0x%x: %s" % (
                case["dw"], case["ordering"], case["paging"], e), {"errors": r["errs"], "declaration": r["decl"], "mem": r["mem"]})
        col.case_done(case, st["wh"] + st["rh"] >= 100, sample={"case": case, "first_bank_declaration": r["decl"], "memory": r["mem"], "stats": st})
    return col.result()
