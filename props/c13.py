"""C13 - SoC resource allocation never hands out overlapping or out-of-range resources.

Runtime monitoring: the REAL SoCBusHandler / SoCRegion.decoder / SoCCSRHandler / SoCIRQHandler /
ConstraintManager (through GenericPlatform) are driven with hostile randomized call histories while
icontract invariants and post-conditions (props/c13mon.py) observe every accepted request. A request
that raises is a rejection; an accepted state that breaks an invariant is the violation."""
import io
import contextlib

from lib import env
from lib.collect import Collector, rng_for
from props import c13mon as mon

LEVEL = "exploration"
RULE = ("one case = one call history on a fresh handler, generated adaptively from the case seed (the concrete calls are recorded "
        "and stored as the replayable witness). bus: handler (standard x data width 32/64/128 x address width 32/64 x "
        "shared/crossbar), 4..16 add_region/add_slave/add_master/alloc_region calls with fixed and automatic origins, power-of-two "
        "and odd sizes, origins at 0 / top of the address space / abutting / overlapping / misaligned, cached/uncached/IO/linker/"
        "decode=False mixes, reused names, then the real bus.finalize(); every decoder handed to the interconnect is evaluated on "
        "boundary and random addresses. loc: SoCCSRHandler/SoCIRQHandler histories with fixed (boundary -1, 0, n_locs-1, n_locs, "
        "n_locs+1), automatic, reused names/numbers and exhaustion. platform: GenericPlatform request/request_all/"
        "request_remaining/lookup_request/add_extension histories on random resource descriptions, then get_sig_constraints. "
        "non-trivial = at least 3 accepted requests; distinct = distinct concrete histories")
ASSUMPTIONS = [
    "migen tracer shim (names only)",
    "finalization check = the real SoCBusHandler.finalize() (do_finalize builds the interconnect and calls region.decoder(bus) for "
    "every slave, which is where LiteX rejects origins that are not aligned on the decoded size); overlap/disjointness is judged "
    "after every accepted call, alignment and decoder exactness only for regions whose decoder was really built at finalize",
    "SoCError is fatal in a LiteX flow; a rejected call may leave the tables half-updated (add_region registers the region before "
    "the overlap test). The harness models 'the designer removes the offending call' by restoring regions/io_regions/masters/"
    "slaves/locs to their value before the rejected call and continues the history",
    "a decoder is exact at the resolution of the bus: it must accept a bus word iff the word intersects [origin, origin+size_pow2); "
    "decode=False regions and the single-region point-to-point interconnect are exempt (no decoder by request/design)",
    "linker regions are excluded from disjointness (as the property says) and are never given to slaves by the generator",
    "an uncached automatically allocated region must lie inside the DECLARED extent [origin, origin+size) of an IO region "
    "(the extent check_region_is_in and the CPUs use), not merely inside its power-of-two rounded window",
    "duplicate (name, number) platform resources added by add_extension are a supported override mechanism (prepend=): in the "
    "'platform-override' class only identity based invariants are judged and same-id grants are counted as observations",
    "any exception other than a monitor violation is a rejection; its type is recorded in reject_kinds",
    "migen's tracer name tables are cleared between cases (they grow without bound and are searched linearly; names only)",
]
FLOORS = {
    "quick": {"histories_bus": 2000, "histories_loc": 2000, "histories_platform": 1000, "requests_accepted": 40000, "requests_rejected": 18000,
              "inv_bus_regions_disjoint": 25000, "inv_bus_io_regions_disjoint": 25000, "post_add_region": 7000, "post_alloc_region": 2800,
              "post_add_slave": 2700, "post_add_master": 1400, "auto_regions_accepted": 2000, "fixed_regions_accepted": 3000,
              "finalize_accepted": 1200, "finalize_rejected": 60, "post_region_decoder": 1500, "decoder_evaluations": 150000,
              "cross_slave_addresses": 30000, "inv_locs_in_range": 40000, "inv_locs_unique": 40000, "post_loc_add": 12000,
              "post_loc_alloc": 11000, "loc_boundary_requests": 4000, "loc_last_legal_index_granted": 400, "loc_exhaustion_rejected": 1000,
              "inv_cm_available_xor_matched": 20000, "post_cm_request": 5000, "post_cm_lookup": 2000, "lookups_found": 1500,
              "constraint_entries_checked": 6000, "soc_finalized": 1, "n_bus_configs": 20, "n_boundary_kinds": 40, "n_reject_kinds": 10,
              "n_interconnects": 8, "n_anchor_lines_hit": 280},
    "thorough": {"histories_bus": 30000, "histories_loc": 28000, "histories_platform": 15000, "requests_accepted": 500000,
                 "requests_rejected": 220000, "inv_bus_regions_disjoint": 330000, "inv_bus_io_regions_disjoint": 330000,
                 "post_add_region": 90000, "post_alloc_region": 35000, "post_add_slave": 35000, "post_add_master": 18000,
                 "auto_regions_accepted": 27000, "fixed_regions_accepted": 40000, "finalize_accepted": 15000, "finalize_rejected": 1000,
                 "post_region_decoder": 19000, "decoder_evaluations": 1900000, "cross_slave_addresses": 400000, "inv_locs_in_range": 490000,
                 "inv_locs_unique": 490000, "post_loc_add": 150000, "post_loc_alloc": 140000, "loc_boundary_requests": 50000,
                 "loc_last_legal_index_granted": 6000, "loc_exhaustion_rejected": 16000, "inv_cm_available_xor_matched": 260000,
                 "post_cm_request": 60000, "post_cm_lookup": 27000, "lookups_found": 20000, "constraint_entries_checked": 85000,
                 "soc_finalized": 10, "n_bus_configs": 30, "n_boundary_kinds": 45, "n_reject_kinds": 10, "n_interconnects": 10,
                 "n_anchor_lines_hit": 300},
}
SHARD_TIMEOUT = {"quick": 900, "thorough": 3000}
N_SAMPLES = 8

N_CASES = {"quick": {"bus": 2000, "bus-subword": 250, "bus-io-odd": 500, "bus-io-tight": 700, "bus-p2p": 150, "loc": 1800, "loc-edge": 600, "platform": 1100, "platform-override": 200, "soc": 8},
           "thorough": {"bus": 27000, "bus-subword": 3000, "bus-io-odd": 5000, "bus-io-tight": 7000, "bus-p2p": 1500, "loc": 22000, "loc-edge": 8000, "platform": 14000, "platform-override": 2000, "soc": 48}}
N_SHARDS = {"quick": 16, "thorough": 64}


def plan(tier, seed):
    counts = N_CASES[tier]
    cases = []
    for cls, n in counts.items():
        for k in range(n):
            cases.append({"seed": "%d/C13/%s/%d" % (seed, cls, k), "cls": cls, "tier": tier})
    ns = N_SHARDS[tier]
    shards = []
    for i in range(ns):
        cs = cases[i::ns]
        if cs:
            shards.append({"id": "h%03d" % i, "cls": "mixed", "cases": cs})
    return shards


CASE_WALL_CAP = 60


class AnchorCov:
    """Lines of the anchor functions that the workload really executed (sys.monitoring, each line reports once)."""
    TOOL = 3

    def __init__(self, M):
        import sys
        S, GP = M["S"], M["GP"]
        fns = [S.SoCBusHandler.add_region, S.SoCBusHandler.alloc_region, S.SoCBusHandler.check_regions_overlap,
               S.SoCBusHandler.check_region_is_in, S.SoCBusHandler.check_region_is_io, S.SoCBusHandler.add_slave,
               S.SoCBusHandler.add_master, S.SoCBusHandler.do_finalize, getattr(S.SoCRegion.decoder, "__wrapped__", S.SoCRegion.decoder),
               S.SoCLocHandler.add, S.SoCLocHandler.alloc, S.SoCCSRHandler.address_map, S.SoCIRQHandler.add,
               GP.ConstraintManager.request, GP.ConstraintManager.request_all, GP.ConstraintManager.request_remaining,
               GP.ConstraintManager.lookup_request, GP.ConstraintManager.get_sig_constraints, GP._lookup]
        self.hits = set()
        self.codes = {}
        self.mon = getattr(sys, "monitoring", None)
        if self.mon is None:
            return
        for f in fns:
            code = getattr(f, "__code__", None)
            if code is not None:
                self.codes[code] = "%s:%s" % (code.co_filename.split("/")[-1], code.co_qualname)
        try:
            self.mon.use_tool_id(self.TOOL, "verif-c13")
        except ValueError:
            self.mon = None
            return
        self.mon.register_callback(self.TOOL, self.mon.events.LINE, self._line)
        for code in self.codes:
            self.mon.set_local_events(self.TOOL, code, self.mon.events.LINE)

    def _line(self, code, line):
        n = self.codes.get(code)
        if n is not None:
            self.hits.add("%s:%d" % (n, line))
        return self.mon.DISABLE

    def report(self, col):
        if self.mon is None:
            return
        for h in self.hits:
            col.cov("anchor_lines_hit", h)
        for code, n in self.codes.items():
            for _, _, ln in code.co_lines():
                if ln is not None and ln != code.co_firstlineno:
                    col.cov("anchor_lines_executable", "%s:%d" % (n, ln))
        self.mon.free_tool_id(self.TOOL)


def _on_alarm(signum, frame):
    raise HarnessTimeout()


def run_shard(shard):
    import signal
    col = Collector(shard["cls"], max_samples=8)
    signal.signal(signal.SIGALRM, _on_alarm)
    with contextlib.redirect_stdout(io.StringIO()):
        M = mon.build()
        cov = AnchorCov(M)
        col.sampled = set()
        for case in shard["cases"]:
            col.cls = case.get("cls", shard["cls"])
            signal.setitimer(signal.ITIMER_REAL, CASE_WALL_CAP)
            try:
                col.guard(case, run_case, col, M, case)
            except HarnessTimeout:
                col.inconc(case, "case exceeded the %d s wall-clock cap (cost only, never a verdict)" % CASE_WALL_CAP)
            finally:
                signal.setitimer(signal.ITIMER_REAL, 0)
            env.restore_stderr()
            _flush_counters(col)
        cov.report(col)
    return col.result()


def _flush_counters(col):
    for k, v in mon.EV.items():
        col.ev(k, v)
    mon.EV.clear()
    for k, v in mon.OBS.items():
        col.ev(k, v)
    mon.OBS.clear()


def _reset_tracer():
    """migen's tracer keeps every object ever traced in per-class lists and searches them linearly: clear them between cases
    (they only feed signal back-trace names, which C13 does not look at)."""
    import migen.fhdl.tracer as t
    t.classname_to_objs.clear()
    t.name_to_idx.clear()


def run_case(col, M, case):
    _reset_tracer()
    cls = case["cls"]
    rng = rng_for(case["seed"])
    mon.reset_case(rng_for(case["seed"], "probe"))
    if cls in BUS_CLASSES:
        return run_bus(col, M, case, rng)
    if cls in ("loc", "loc-edge"):
        return run_loc(col, M, case, rng)
    if cls in ("platform", "platform-override"):
        return run_platform(col, M, case, rng)
    if cls == "soc":
        return run_soc(col, M, case, rng)
    raise ValueError("unknown class %r" % cls)


# ------------------------------------------------------------------------------------------------
# common: apply one call, classify the outcome
# ------------------------------------------------------------------------------------------------

# exception types with which LiteX (or the Python it runs on) refuses a request; anything else is treated as a harness problem
REJECTIONS = ("SoCError", "ConstraintError", "ValueError", "AssertionError", "TypeError", "KeyError", "IndexError", "AttributeError")
META_OPS = ("create", "finalize", "get_sig_constraints", "create_soc", "soc.finalize")


class HarnessTimeout(BaseException):
    """Wall-clock cap of one case (only ever 'inconclusive'); BaseException so that it is never taken for a rejection."""


class History:
    """Concrete calls of one case with their outcome; it is the replayable witness."""

    def __init__(self, col, case, params):
        self.col = col
        self.case = case
        self.params = params
        self.ops = []
        self.accepted = 0
        self.rejected = 0
        self.violated = False
        self.keys = set()
        self.replay = list(case["history"]["ops"]) if "history" in case else None

    def next_op(self, make):
        """Replay the stored concrete call if the case carries one, else generate it."""
        if self.replay is not None:
            return self.replay.pop(0) if self.replay else None
        return make()

    def witness_case(self):
        c = {k: v for k, v in self.case.items() if k != "history"}
        c["history"] = {"params": self.params, "ops": [{k: v for k, v in o.items() if k not in ("outcome", "result")} for o in self.ops
                                                       if o["op"] not in META_OPS]}
        return c

    def apply(self, op, fn, save=None, restore=None):
        """Run one request against the real object. Returns (accepted, result)."""
        col = self.col
        self.ops.append(op)
        st = save() if save else None
        try:
            r = fn()
        except mon.MonitorViolation:
            env.restore_stderr()
            d = dict(mon.DETAIL)
            op["outcome"] = "ACCEPTED-IN-VIOLATION:" + str(d.get("key"))
            col.ev("requests_accepted_in_violation")
            if d.get("key") not in self.keys:                     # one witness per mechanism and history
                self.keys.add(d.get("key"))
                col.violation(d.get("key", "unclassified"), self.witness_case(), d.get("what"),
                              {"detail": d.get("witness"), "params": self.params, "history": self.ops[-24:]})
            if restore:
                restore(st)                                       # take the offending grant back and go on with the history
            else:
                self.violated = True
            return False, None
        except mon.MonitorError:
            raise
        except Exception as e:                                   # a LiteX exception: the request was rejected
            env.restore_stderr()
            kind = type(e).__name__
            if kind not in REJECTIONS:
                raise mon.MonitorError("unexpected exception type %s in %r: %r" % (kind, op, e)) from e
            op["outcome"] = "rejected:" + kind
            self.rejected += 1
            col.ev("requests_rejected")
            col.cov("reject_kinds", "%s:%s" % (op["op"], kind))
            if restore:
                restore(st)
            return False, None
        op["outcome"] = "accepted"
        self.accepted += 1
        col.ev("requests_accepted")
        return True, r

    def sample(self, extra=None):
        if self.case["cls"] in self.col.sampled:
            return None
        self.col.sampled.add(self.case["cls"])
        s = {"cls": self.case["cls"], "seed": self.case["seed"], "params": self.params, "accepted": self.accepted, "rejected": self.rejected,
             "history": self.ops[:14]}
        if extra:
            s.update(extra)
        return s


def hx(v):
    return None if v is None else hex(v)


# ------------------------------------------------------------------------------------------------
# bus histories
# ------------------------------------------------------------------------------------------------

BUS_CLASSES = ("bus", "bus-subword", "bus-io-odd", "bus-io-tight", "bus-p2p")
# DESIGN 3.4: 'bus' cannot produce the features of the hostile classes and must be violation-free outright:
#   bus-subword : regions smaller than one bus word          bus-io-odd : IO regions whose size is not a power of two
#   bus-io-tight: small IO regions with odd sizes / unaligned origins that automatic uncached allocations fill up to their end
#   bus-p2p     : 1 master + 1 slave designs in which the first declared region is not the slave's region
POW2_SIZES = [0x100, 0x400, 0x1000, 0x1000, 0x2000, 0x10000, 0x10000, 0x100000, 0x1000000, 0x10000000, 0x20000000, 0x40000000, 0x80000000]
ODD_SIZES = [0x1800, 0x3000, 0x1001, 0xfff, 0x12345, 0x30000, 0x5000000, 0x18000000, 0x60000000, 0x7fffffff, 0x80000001, 0xc0, 0x28]
SUBWORD_SIZES = [1, 2, 3, 4, 6, 8, 12]


def gen_bus_params(rng, cls):
    std = rng.choices(["wishbone", "axi-lite", "axi"], [5, 3, 2])[0]
    dw = rng.choices([32, 64, 128], [5, 4, 1])[0]
    if cls == "bus-subword":
        dw = rng.choice([32, 64, 64, 128])
    aw = rng.choices([32, 64], [8, 2])[0]
    return {"standard": std, "data_width": dw, "address_width": aw, "interconnect": rng.choices(["shared", "crossbar"], [8, 2])[0],
            "hostility": rng.choices([0.03, 0.15, 0.5], [5, 3, 2])[0], "n_ops": rng.randint(4, 16),
            "finalize": rng.random() < 0.97}


def pick_size(rng, params, cls, top):
    if cls == "bus-subword" and rng.random() < 0.6:
        return rng.choice(SUBWORD_SIZES)
    r = rng.random()
    if r < 0.55:
        s = rng.choice(POW2_SIZES)
    elif r < 0.9:
        s = rng.choice(ODD_SIZES)
    elif r < 0.95:
        s = rng.choice([top, top//2, top - 0x1000, top//4 + 1])
    else:
        s = rng.randrange(params["data_width"]//8, 0x4000000)
    return max(1, s)


def pick_origin(rng, col, bus, params, size, want_io):
    """Origin for a fixed region: mostly aligned and free (so that designs reach finalize), hostile with probability `hostility`."""
    top = 2**params["address_width"]
    p2 = 1 << (size - 1).bit_length()
    word = params["data_width"]//8
    existing = [r for r in bus.regions.values() if isinstance(r.origin, int)]
    ios = list(bus.io_regions.values())
    hostile = rng.random() < params["hostility"]
    kinds = ["zero", "top-aligned", "top-by-size", "abut-above-window", "abut-above-size", "abut-below-window", "abut-below-size",
             "misaligned", "overlap-inside", "beyond-space", "same-origin", "io-start", "io-end-by-size", "io-end-window", "aligned-random"]
    if hostile:
        kind = rng.choice(kinds)
    else:
        kind = rng.choices(["aligned-random", "abut-above-window", "abut-below-window", "zero", "top-aligned", "io-start"], [10, 4, 2, 1, 1, 2])[0]
    o = None
    ref = rng.choice(existing) if existing else None
    io_r = rng.choice(ios) if ios else None
    if kind == "zero":
        o = 0
    elif kind == "top-aligned":
        o = top - p2
    elif kind == "top-by-size":
        o = top - size
    elif kind == "abut-above-window" and ref:
        o = ref.origin + ref.size_pow2
        if not hostile and o % p2:
            o += p2 - o % p2
    elif kind == "abut-above-size" and ref:
        o = ref.origin + ref.size
    elif kind == "abut-below-window" and ref:
        o = ref.origin - p2
        if not hostile and o % p2:
            o -= o % p2
    elif kind == "abut-below-size" and ref:
        o = ref.origin - size
    elif kind == "misaligned":
        o = rng.randrange(0, max(1, top//p2))*p2 + word*rng.randint(1, 64)
    elif kind == "overlap-inside" and ref:
        o = ref.origin + rng.randrange(0, ref.size_pow2)
        o -= o % word
    elif kind == "beyond-space":
        o = top + rng.choice([0, p2, -word])
    elif kind == "same-origin" and ref:
        o = ref.origin
    elif kind == "io-start" and io_r:
        o = io_r.origin
    elif kind == "io-end-by-size" and io_r:
        o = io_r.origin + io_r.size - size
    elif kind == "io-end-window" and io_r:
        o = io_r.origin + io_r.size_pow2 - p2
    if o is None or o < 0:
        kind = "aligned-random"
        lo, hi = 0, top
        if want_io and io_r is not None:
            lo, hi = io_r.origin, io_r.origin + io_r.size
        elif (not want_io) and ios and rng.random() < 0.9:
            # stay below the lowest IO region most of the time
            hi = max(p2, min(i.origin for i in ios))
        n = max(1, (hi - lo)//p2)
        o = lo - (lo % p2) + rng.randrange(0, n)*p2
        if o < lo:
            o += p2
    col.cov("boundary_kinds", "origin:" + kind)
    return max(0, o), kind


def make_interface(rng, params, role):
    from litex.soc.interconnect import wishbone, axi
    std = params["standard"]
    if rng.random() < 0.06:
        std = rng.choice(["wishbone", "axi-lite", "axi"])
    dw = params["data_width"] if rng.random() < 0.85 else rng.choice([32, 64])
    return {"std": std, "dw": dw, "addressing": "word" if (std == "wishbone" and rng.random() < 0.9) else "byte"}


def build_interface(spec, params):
    from litex.soc.interconnect import wishbone, axi
    aw = params["address_width"]
    if spec["std"] == "wishbone":
        return wishbone.Interface(data_width=spec["dw"], address_width=aw, addressing=spec["addressing"])
    if spec["std"] == "axi-lite":
        return axi.AXILiteInterface(data_width=spec["dw"], address_width=aw)
    return axi.AXIInterface(data_width=spec["dw"], address_width=aw)


def gen_region_spec(rng, col, bus, params, cls, allow_linker=True, for_slave=False):
    top = 2**params["address_width"]
    size = pick_size(rng, params, cls, top)
    ios = list(bus.io_regions.values())
    auto = rng.random() < (0.6 if cls == "bus-io-odd" else 0.35)
    want_io = bool(ios) and rng.random() < (0.8 if cls == "bus-io-odd" else 0.4)
    if cls == "bus-io-odd" and ios and rng.random() < 0.6:
        i = rng.choice(ios)
        size = max(params["data_width"]//8, rng.choice([i.size//2, i.size//3, i.size//4, i.size - i.size_pow2//2, i.size_pow2//4, i.size//8]))
    spec = {"size": size, "linker": False, "decode": True}
    if size & (size - 1):
        col.cov("boundary_kinds", "size:non-pow2")
    if size < params["data_width"]//8:
        col.cov("boundary_kinds", "size:sub-word")
    if size >= top//2:
        col.cov("boundary_kinds", "size:half-space-or-more")
    if auto:
        spec["size"] = size = cap_alloc_size(bus, size)
        spec["origin"] = None
        spec["cached"] = not want_io if rng.random() < 0.9 else rng.random() < 0.5
        col.cov("boundary_kinds", "origin:auto-" + ("cached" if spec["cached"] else "uncached"))
    else:
        o, kind = pick_origin(rng, col, bus, params, size, want_io)
        spec["origin"] = o
        # cached flag consistent with the IO map most of the time, inverted sometimes
        inside = any(i.origin <= o and o + size <= i.origin + i.size for i in ios)
        spec["cached"] = (not inside) if rng.random() < 0.92 else inside
        if allow_linker and not for_slave and rng.random() < 0.08:
            spec["linker"] = True
            col.cov("boundary_kinds", "flag:linker")
        if rng.random() < 0.02:
            spec["decode"] = False
            col.cov("boundary_kinds", "flag:decode-false")
    return spec


def cap_alloc_size(bus, size, cap=6000):
    """alloc_region walks through occupied windows in steps of `size`: keep the walk below `cap` candidates (cost, not verdict)."""
    occupied = sum(r.size_pow2 for r in bus.regions.values() if isinstance(r.origin, int))
    occupied += sum(r.origin for r in bus.io_regions.values() if False)
    if occupied // max(1, size) > cap:
        size = occupied // cap + 1
    return size


def build_region(S, spec, io=False):
    if io:
        return S.SoCIORegion(origin=spec["origin"], size=spec["size"], cached=False)
    return S.SoCRegion(origin=spec["origin"], size=spec["size"], cached=spec["cached"], linker=spec.get("linker", False),
                       decode=spec.get("decode", True))


def gen_bus_op(rng, col, bus, params, cls, counter):
    top = 2**params["address_width"]
    names = list(bus.regions) + list(bus.io_regions)
    r = rng.random()
    k = counter[0]
    counter[0] += 1

    def name(prefix, pool):
        if pool and rng.random() < 0.08:
            col.cov("boundary_kinds", "name:reused")
            return rng.choice(pool)
        return "%s%d" % (prefix, k)

    if cls == "bus-io-tight":
        ios = list(bus.io_regions.values())
        if not ios or r < 0.08:
            s = rng.choice([0x2800, 0x3000, 0x5000, 0xbfff, 0x18000, 0x6000, 0x14000, 0x4000, 0x10000, 0x2400, 0x7000])
            p2 = 1 << (s - 1).bit_length()
            o = rng.randrange(1, max(2, min(top, 2**32)//p2 - 1))*p2 + rng.choice([0, 0, 0x1000, 0x800, 0x400, p2//2])
            col.cov("boundary_kinds", "io:tight")
            return {"op": "add_io", "name": name("io", names), "origin": o, "size": s}
        i = rng.choice(ios)
        word = params["data_width"]//8
        if r < 0.2:
            # a fixed region somewhere inside the IO region (what the automatic allocations have to step over)
            sz = max(word, rng.choice([0x400, 0x800, 0x1000, i.size//8]))
            o = i.origin + rng.randrange(0, max(1, i.size//sz))*sz
            return {"op": "add_region", "name": name("r", names),
                    "region": {"size": sz, "origin": o, "cached": False, "linker": False, "decode": True}}
        sz = max(word, rng.choice([i.size//2, i.size//3, i.size//4, i.size//5, 0x1000, 0x2000, 0x800, 0x5000, i.size - i.size_pow2//2, i.size//2 + 0x400]))
        col.cov("boundary_kinds", "origin:auto-uncached-tight")
        return {"op": "alloc_region", "name": "a%d" % k, "size": sz, "cached": False}
    if r < 0.13 or (k == 0 and rng.random() < 0.6):
        # IO region
        choice = rng.random()
        if choice < 0.45 and params["address_width"] == 32:
            o, s = rng.choice([(0x80000000, 0x80000000), (0xf0000000, 0x10000000), (0x80000000, 0x40000000), (0xe0000000, 0x20000000)])
        elif choice < 0.75:
            s = rng.choice([0x10000000, 0x30000000, 0x1000000, 0x3000, 0x18000000, 0x100000, 0x5000, 0x70000000] if cls == "bus-io-odd"
                           else [0x10000000, 0x20000000, 0x1000000, 0x4000, 0x100000, 0x8000])
            p2 = 1 << (s - 1).bit_length()
            o = rng.randrange(0, max(1, top//p2))*p2
            if rng.random() < 0.3:
                o += rng.choice([0x1000, 0x100000, s])
                col.cov("boundary_kinds", "io:unaligned-origin")
        else:
            s = rng.choice([top//2, top//4, top - 0x10000] if cls == "bus-io-odd" else [top//2, top//4, top//8])
            o = top - s if rng.random() < 0.7 else 0
        if s & (s - 1):
            col.cov("boundary_kinds", "io:non-pow2-size")
        if o + s > top:
            if cls == "bus-io-odd":
                col.cov("boundary_kinds", "io:beyond-address-space")
            else:
                o = top - s                 # IO regions that leave the address space only in the hostile class
        return {"op": "add_io", "name": name("io", names), "origin": o, "size": s}
    if r < 0.45:
        return {"op": "add_region", "name": name("r", names), "region": gen_region_spec(rng, col, bus, params, cls)}
    if r < 0.78:
        op = {"op": "add_slave", "name": name("s", names), "region": gen_region_spec(rng, col, bus, params, cls, for_slave=True),
              "if": make_interface(rng, params, "slave")}
        q = rng.random()
        cands = [n for n, x in bus.regions.items() if not x.linker]     # linker regions are never given to slaves (ASSUMPTIONS)
        if q < 0.06 and cands:
            # slave on an already declared region, by name only
            op["name"] = rng.choice(cands)
            op["region"] = None
            col.cov("boundary_kinds", "slave:by-region-name")
        elif q < 0.09:
            op["name"] = None
            col.cov("boundary_kinds", "slave:unnamed")
        return op
    if r < 0.9:
        op = {"op": "add_master", "name": name("m", list(bus.masters)) if rng.random() < 0.8 else None, "if": make_interface(rng, params, "master"),
              "region": None}
        if rng.random() < 0.12:
            s = rng.choice(POW2_SIZES)
            op["region"] = {"origin": rng.randrange(0, max(1, top//s))*s, "size": s, "cached": True}
            col.cov("boundary_kinds", "master:remapped")
        return op
    if r < 0.98:
        return {"op": "alloc_region", "name": "a%d" % k, "size": cap_alloc_size(bus, pick_size(rng, params, cls, top)), "cached": rng.random() < 0.5}
    return {"op": "add_controller", "name": "c%d" % k, "if": make_interface(rng, params, "master")}


def bus_save(bus):
    return dict(bus.regions), dict(bus.io_regions), dict(bus.masters), dict(bus.slaves)


def bus_restore(bus, st):
    bus.regions, bus.io_regions, bus.masters, bus.slaves = (dict(x) for x in st)


def exec_bus_op(col, M, h, bus, params, op):
    """Apply one concrete call to the real (monitored) bus handler."""
    S = M["S"]
    kind = op["op"]
    if kind == "add_io":
        fn = lambda: bus.add_region(op["name"], S.SoCIORegion(origin=op["origin"], size=op["size"], cached=False))
    elif kind == "add_region":
        fn = lambda: bus.add_region(op["name"], build_region(S, op["region"]))
    elif kind == "add_slave":
        fn = lambda: bus.add_slave(name=op["name"], slave=build_interface(op["if"], params),
                                   region=None if op["region"] is None else build_region(S, op["region"]))
    elif kind == "add_master":
        fn = lambda: bus.add_master(name=op["name"], master=build_interface(op["if"], params),
                                    region=None if op["region"] is None else build_region(S, op["region"]))
    elif kind == "alloc_region":
        fn = lambda: bus.alloc_region(op["name"], op["size"], op["cached"])
    elif kind == "add_controller":
        fn = lambda: bus.add_controller(name=op["name"], controller=build_interface(op["if"], params))
    else:
        raise ValueError(kind)
    ok, r = h.apply(op, fn, lambda: bus_save(bus), lambda st: bus_restore(bus, st))
    if ok:
        if kind in ("add_region", "add_slave") and op.get("region") and op["region"]["origin"] is None:
            nm = op["name"] if op["name"] is not None else list(bus.slaves)[-1]
            op["result"] = {"allocated_origin": hx(bus.regions[nm].origin)}
        if kind == "alloc_region":
            op["result"] = {"allocated_origin": hx(r.origin)}
        if kind in ("add_region", "add_slave") and op.get("region") and op["region"]["origin"] is not None:
            reg = op["region"]
            if reg["origin"] + reg["size"] > 2**params["address_width"]:
                col.ev("obs_fixed_region_beyond_address_space_accepted")
            if reg["origin"] % (1 << (reg["size"] - 1).bit_length()):
                col.ev("obs_misaligned_fixed_region_accepted_until_finalize")
    return ok


def p2p_shape(bus):
    """1 master + 1 slave whose region is not the first declared one while the first one has origin 0."""
    if len(bus.masters) != 1 or len(bus.slaves) != 1 or not bus.regions:
        return False
    first = next(iter(bus.regions.values()))
    reg = bus.regions.get(next(iter(bus.slaves)))
    return reg is not None and first is not reg and first.origin == 0 and reg.origin != 0


def gen_p2p_script(rng, col, params):
    """bus-p2p: small 1 master / 1 slave designs; in 60% a slave-less region at origin 0 is declared before the slave's region."""
    top = 2**params["address_width"]
    itf = {"std": params["standard"], "dw": params["data_width"], "addressing": "word" if params["standard"] == "wishbone" else "byte"}
    ops = []
    size = rng.choice([0x1000, 0x10000, 0x1000000, 0x1800])
    if rng.random() < 0.6:
        ops.append({"op": "add_region", "name": "first", "region": {"origin": rng.choice([0, None]), "size": rng.choice([0x1000, 0x100000, 0x3000]),
                                                                      "cached": True, "linker": rng.random() < 0.2, "decode": True}})
        p2 = 1 << (size - 1).bit_length()
        o = rng.choice([top - p2, 0x10000000, 0x40000000, rng.randrange(1, top//p2)*p2, None])
        col.cov("boundary_kinds", "p2p:first-region-is-not-the-slaves")
    else:
        o = 0
        col.cov("boundary_kinds", "p2p:slave-region-first-at-0")
    ops.append({"op": "add_slave", "name": "s", "region": {"origin": o, "size": size, "cached": True, "linker": False, "decode": True}, "if": itf})
    ops.append({"op": "add_master", "name": "m", "region": None, "if": itf})
    if rng.random() < 0.3:
        ops.append({"op": "add_region", "name": "later", "region": {"origin": None, "size": 0x2000, "cached": True, "linker": False, "decode": True}})
    if rng.random() < 0.5:
        ops.insert(rng.randrange(len(ops)), ops.pop())       # master first / last
    return ops


def run_bus(col, M, case, rng):
    cls = case["cls"]
    params = case["history"]["params"] if "history" in case else gen_bus_params(rng, cls)
    h = History(col, case, params)
    col.ev("histories_bus")
    col.cov("bus_configs", "%s/%d/%d/%s" % (params["standard"], params["data_width"], params["address_width"], params["interconnect"]))
    ok, bus = h.apply({"op": "create"}, lambda: M["MonBus"](standard=params["standard"], data_width=params["data_width"],
                                                            address_width=params["address_width"], interconnect=params["interconnect"]))
    if not ok:
        col.case_done(case, False)
        return
    counter = [0]
    script = gen_p2p_script(rng, col, params) if (cls == "bus-p2p" and h.replay is None) else None
    n = len(h.replay) if h.replay is not None else (len(script) if script is not None else params["n_ops"])
    for _ in range(n):
        op = h.next_op((lambda: script.pop(0)) if script is not None else (lambda: gen_bus_op(rng, col, bus, params, cls, counter)))
        if op is None:
            break
        exec_bus_op(col, M, h, bus, params, op)
        if h.violated:
            break
    fin = None
    if not h.violated and (params["finalize"] or h.replay is not None or cls == "bus-p2p"):
        if cls != "bus-p2p" and h.replay is None and p2p_shape(bus):
            # keep the point-to-point shape of class bus-p2p out of the other classes (DESIGN 3.4): a second master forces a decoder
            exec_bus_op(col, M, h, bus, params, {"op": "add_master", "name": "m_extra", "region": None,
                                                 "if": {"std": params["standard"], "dw": params["data_width"],
                                                        "addressing": "word" if params["standard"] == "wishbone" else "byte"}})
        fin = finalize_bus(col, M, h, bus, params, cls)
    col.case_done(case, h.accepted >= 3, digest=h.ops, sample=h.sample({"finalize": fin}))


def finalize_bus(col, M, h, bus, params, cls):
    """The finalization check: the real bus.finalize(); then judge what was built."""
    del mon.DECODERS[:]
    op = {"op": "finalize"}
    ok, _ = h.apply(op, lambda: bus.finalize())
    if h.violated:
        return "violated"
    if not ok:
        col.ev("finalize_rejected")
        return op["outcome"]
    col.ev("finalize_accepted")
    ic = getattr(bus, "_interconnect", None)
    if ic is None:
        col.cov("interconnects", "none")
        return "accepted:nothing-built"
    icname = type(ic).__name__
    col.cov("interconnects", icname)
    word = params["data_width"]//8
    if "PointToPoint" in icname:
        sname = next(iter(bus.slaves))
        reg = bus.regions[sname]
        col.ev("p2p_built")
        if reg.origin != 0 and reg.decode:
            h.violated = True
            col.violation("finalize/point-to-point-chosen-by-first-region-not-slave-region", h.witness_case(),
                          "1 master + 1 slave: InterconnectPointToPoint (no decoder) was built because the FIRST declared region has "
                          "origin 0, but the slave's own region %r is at 0x%x: the slave is selected for every address" % (sname, reg.origin),
                          {"slave": sname, "slave_region": mon.rdesc(reg), "first_region": next(iter(bus.regions)),
                           "regions": {n: mon.rdesc(x) for n, x in bus.regions.items()}, "params": params, "history": h.ops[-24:]})
            return "violated"
        return "accepted:" + icname
    decs = list(mon.DECODERS)
    slaves = list(bus.slaves)
    if len(decs) != len(slaves) or any(d[0] is not bus.regions[n] for d, n in zip(decs, slaves)):
        h.violated = True
        col.violation("finalize/slave-without-its-region-decoder", h.witness_case(),
                      "%d decoders built for %d slaves (or not from the slave's region)" % (len(decs), len(slaves)),
                      {"params": params, "history": h.ops[-24:]})
        return "violated"
    if len(bus.regions) > 1 and any(not bus.regions[n].decode for n in slaves):
        h.violated = True
        col.violation("finalize/undecoded-region-among-several-accepted", h.witness_case(),
                      "a decode=False slave region was built next to other regions", {"params": params, "history": h.ops[-24:]})
        return "violated"
    # alignment of every decoded region (the deferred check of the property)
    for n in slaves:
        reg = bus.regions[n]
        col.ev("decoded_regions_checked")
        if reg.decode and reg.origin % reg.size_pow2:
            h.violated = True
            col.violation("finalize/misaligned-origin-accepted", h.witness_case(),
                          "slave region %r origin 0x%x is not aligned on its decoded size 0x%x and was built" % (n, reg.origin, reg.size_pow2),
                          {"region": mon.rdesc(reg), "params": params, "history": h.ops[-24:]})
            return "violated"
    # no address selects two slaves: all decoders on the union of all probe addresses
    pr = mon.DecoderProbe.get(bus)
    exprs = [(n, bus.regions[n], pr.build(fn)) for n, (_, _, fn) in zip(slaves, decs)]
    addrs = mon.probe_addresses([r for _, r, _ in exprs], params["address_width"], word, mon.RNG[0], n_random=3)
    for a in addrs:
        col.ev("cross_slave_addresses")
        sel = [n for n, r, e in exprs if pr.accept(e, a)]
        exp = [n for n, r, e in exprs if (not r.decode) or mon.expected_accept(r, a, word)]
        if len(sel) > 1:
            sub = any(bus.regions[n].size_pow2 < word for n in sel)
            h.violated = True
            col.violation("decoder/sub-word-regions-share-a-bus-word" if sub else "decoder/address-selects-two-slaves", h.witness_case(),
                          "address 0x%x selects slaves %r" % (a, sel),
                          {"address": hex(a), "selected": sel, "regions": {n: mon.rdesc(bus.regions[n]) for n in sel}, "params": params,
                           "history": h.ops[-24:]})
            return "violated"
        if sel != exp:
            h.violated = True
            col.violation("decoder/selection-differs-from-windows", h.witness_case(),
                          "address 0x%x selects %r, windows say %r" % (a, sel, exp),
                          {"address": hex(a), "selected": sel, "expected": exp, "params": params, "history": h.ops[-24:]})
            return "violated"
    return "accepted:%s:%d-decoders" % (icname, len(decs))


# ------------------------------------------------------------------------------------------------
# CSR / IRQ location histories
# ------------------------------------------------------------------------------------------------

def gen_loc_params(rng, edge=True):
    if rng.random() < 0.5:
        aw = rng.choices([14, 15, 16, 17, 18], [6, 2, 1, 1, 1])[0]
        paging = rng.choices([0x400, 0x800, 0x1000, 0x2000, 0x4000], [1, 4, 2, 2, 4])[0]
        p = {"kind": "csr", "data_width": rng.choice([8, 32]), "address_width": aw, "paging": paging, "alignment": 32, "reserved": {}}
        if rng.random() < 0.04:
            p[rng.choice(["data_width", "address_width", "paging", "alignment"])] = rng.choice([16, 13, 0x600, 64])
        n_locs = 4*(2**p["address_width"])//p["paging"] if isinstance(p["paging"], int) and p["paging"] else 0
    else:
        n = rng.choices([1, 2, 3, 4, 8, 16, 31, 32, 33], [1, 1, 1, 2, 2, 2, 2, 6, 1])[0]
        p = {"kind": "irq", "n_irqs": n, "enable": rng.random() < 0.96, "reserved": {}}
        n_locs = n
    if rng.random() < (0.15 if p["kind"] == "csr" else 0.03):
        p["reserved"] = {"res%d" % i: rng.choice([0, 1, n_locs - 1, n_locs if edge else n_locs + 1, i]) for i in range(rng.randint(1, 3))}
    p["n_ops"] = rng.choice([rng.randint(4, 16), rng.randint(10, 40), min(n_locs + 3, 80)])
    p["fill"] = rng.random() < 0.15
    return p


def gen_loc_op(rng, col, hd, params, k, edge=True):
    n_locs = hd.n_locs
    names = list(hd.locs)
    used = list(hd.locs.values())
    free = [i for i in range(min(n_locs, 4096)) if i not in used]

    def name():
        if names and rng.random() < 0.12:
            col.cov("boundary_kinds", "loc:name-reused")
            return rng.choice(names)
        return "p%d" % k

    if params["fill"]:
        r = 0.3 + 0.45*rng.random()
    else:
        r = rng.random()
    if r < 0.42:
        kinds = ["n_locs-1", "n_locs", "n_locs+1", "-1", "0", "used", "free", "free", "2*n_locs", "-n_locs", "1", "n_locs-2"]
        if not edge:
            kinds.remove("n_locs")          # class 'loc' must be violation-free outright (DESIGN 3.4): the known off-by-one needs n == n_locs
        kind = rng.choice(kinds)
        n = {"n_locs-1": n_locs - 1, "n_locs": n_locs, "n_locs+1": n_locs + 1, "-1": -1, "0": 0, "2*n_locs": 2*n_locs, "-n_locs": -n_locs,
             "1": 1, "n_locs-2": n_locs - 2,
             "used": rng.choice(used) if used else 0, "free": rng.choice(free) if free else n_locs - 1}[kind]
        if not edge and n == n_locs:
            n = n_locs + 1
        col.cov("boundary_kinds", "loc:" + kind)
        if kind in ("n_locs-1", "n_locs", "n_locs+1", "-1", "0", "used"):
            col.ev("loc_boundary_requests")
        return {"op": "add", "name": name(), "n": n, "use_loc_if_exists": rng.random() < 0.15}
    if r < 0.78:
        return {"op": "add", "name": name(), "n": None, "use_loc_if_exists": rng.random() < 0.25}
    if r < 0.9:
        return {"op": "alloc", "name": "q%d" % k}
    if params["kind"] == "csr":
        return {"op": "address_map", "name": name(), "memory": None}
    return {"op": "add", "name": name(), "n": None, "use_loc_if_exists": True}


def run_loc(col, M, case, rng):
    params = case["history"]["params"] if "history" in case else gen_loc_params(rng, edge=(case["cls"] == "loc-edge"))
    h = History(col, case, params)
    col.ev("histories_loc")
    if params["kind"] == "csr":
        mk = lambda: M["MonCSR"](data_width=params["data_width"], address_width=params["address_width"], alignment=params["alignment"],
                                 paging=params["paging"], reserved_csrs=dict(params["reserved"]))
    else:
        def mk():
            hd = M["MonIRQ"](n_irqs=params["n_irqs"], reserved_irqs=dict(params["reserved"]))
            if params["enable"]:
                hd.enable()
            return hd
    ok, hd = h.apply({"op": "create"}, mk)
    if not ok:
        col.case_done(case, False, digest=h.ops, sample=None)
        return
    col.cov("loc_configs", "%s/%d" % (params["kind"], hd.n_locs))
    n = params["n_ops"] if h.replay is None else len(h.replay)
    for k in range(n):
        op = h.next_op(lambda: gen_loc_op(rng, col, hd, params, k, edge=(case["cls"] == "loc-edge")))
        if op is None:
            break
        if op["op"] == "create":
            continue
        if op["op"] == "add":
            fn = lambda: hd.add(op["name"], n=op["n"], use_loc_if_exists=op["use_loc_if_exists"])
        elif op["op"] == "alloc":
            fn = lambda: hd.alloc(op["name"])
        else:
            fn = lambda: hd.address_map(op["name"], op["memory"])
        ok, r = h.apply(op, fn, lambda: dict(hd.locs), lambda st: setattr(hd, "locs", dict(st)))
        if h.violated:
            break
        if ok:
            op["result"] = hd.locs.get(op["name"]) if op["op"] != "alloc" else r
            if op["op"] == "add" and op["n"] is not None and op["n"] == hd.n_locs - 1:
                col.ev("loc_last_legal_index_granted")
        elif op["op"] == "add" and op["n"] is None and len(hd.locs) >= hd.n_locs:
            col.ev("loc_exhaustion_rejected")
    col.case_done(case, h.accepted >= 3, digest=h.ops, sample=h.sample({"n_locs": hd.n_locs, "locs": dict(hd.locs)}))


# ------------------------------------------------------------------------------------------------
# platform histories
# ------------------------------------------------------------------------------------------------

RES_NAMES = ["clk100", "serial", "user_led", "user_btn", "spiflash", "sdram", "eth", "i2c", "gpio", "vga"]
SUB_NAMES = ["tx", "rx", "clk", "cs_n", "mosi", "miso", "dq", "a", "we_n"]


def gen_platform_desc(rng, override):
    conns = []
    for c in range(rng.randint(0, 2)):
        conns.append(["pmod%d" % c, " ".join("P%d_%d" % (c, i) for i in range(8))])
    pin_no = [0]

    def pins(n):
        out = []
        for _ in range(n):
            if conns and rng.random() < 0.25:
                c = rng.choice(conns)
                out.append("%s:%d" % (c[0], rng.randrange(8)))
            else:
                pin_no[0] += 1
                out.append("A%d" % pin_no[0])
        return out

    def resource(name, number):
        r = {"name": name, "number": number, "iostd": rng.choice([None, "LVCMOS33", "LVCMOS18"]), "inverted": rng.random() < 0.1,
             "info": rng.choice([None, None, "x"])}
        if rng.random() < 0.6:
            r["pins"] = pins(rng.choice([1, 1, 1, 2, 4, 8]))
            r["subs"] = None
        else:
            r["pins"] = None
            subs = rng.sample(SUB_NAMES, rng.randint(1, 4))
            r["subs"] = [{"name": s, "pins": pins(rng.choice([1, 1, 2, 4])), "inverted": rng.random() < 0.1} for s in subs]
        return r

    ios = []
    for name in rng.sample(RES_NAMES, rng.randint(2, 7)):
        nums = list(range(rng.choice([1, 1, 2, 3, 5])))
        if len(nums) > 2 and rng.random() < 0.3:
            nums.remove(rng.choice(nums[1:-1]) if len(nums) > 2 else nums[-1])      # a gap: request_all stops there
        for n in nums:
            ios.append(resource(name, n))
    rng.shuffle(ios)
    return {"io": ios, "connectors": conns, "override": override}, resource


def build_io(GP, specs):
    out = []
    for r in specs:
        t = [r["name"], r["number"]]
        if r["subs"] is None:
            t.append(GP.Pins(" ".join(r["pins"])))
        else:
            for s in r["subs"]:
                c = [GP.Pins(" ".join(s["pins"]))]
                if s["inverted"]:
                    c.append(GP.Inverted())
                t.append(GP.Subsignal(s["name"], *c))
        if r["iostd"]:
            t.append(GP.IOStandard(r["iostd"]))
        if r["inverted"] and r["subs"] is None:
            t.append(GP.Inverted())
        if r["info"]:
            t.append(GP.PlatformInfo(r["info"]))
        out.append(tuple(t))
    return out


def gen_platform_op(rng, col, cm, desc, mkres, k, known):
    ids = sorted(set(known))
    names = sorted({n for n, _ in ids})
    granted = [mon.res_id(r) for r, _ in cm.matched]
    avail = [mon.res_id(r) for r in cm.available]
    r = rng.random()

    def pick_id():
        q = rng.random()
        if q < 0.45 and avail:
            col.cov("boundary_kinds", "platform:request-available")
            return rng.choice(avail)
        if q < 0.8 and granted:
            col.cov("boundary_kinds", "platform:request-already-granted")
            return rng.choice(granted)
        col.cov("boundary_kinds", "platform:request-missing")
        return (rng.choice(names + ["nosuch"]), rng.choice([0, 1, 7]))

    if r < 0.45:
        n, num = pick_id()
        if rng.random() < 0.25:
            num = None
        return {"op": "request", "name": n, "number": num, "loose": rng.random() < 0.25}
    if r < 0.55:
        col.cov("boundary_kinds", "platform:request_all")
        return {"op": "request_all", "name": rng.choice(names + ["nosuch"])}
    if r < 0.63:
        col.cov("boundary_kinds", "platform:request_remaining")
        return {"op": "request_remaining", "name": rng.choice(names + ["nosuch"])}
    if r < 0.93:
        q = rng.random()
        if q < 0.5 and granted:
            n, num = rng.choice(granted)
            col.cov("boundary_kinds", "platform:lookup-granted")
        elif q < 0.85 and avail:
            n, num = rng.choice(avail)
            col.cov("boundary_kinds", "platform:lookup-not-granted")
        else:
            n, num = rng.choice(names + ["nosuch"]), rng.choice([0, 3])
        if rng.random() < 0.2:
            num = None
        if rng.random() < 0.2:
            subs = [s["name"] for res in desc["io"] if res["name"] == n and res["subs"] for s in res["subs"]]
            if subs:
                n = n + ":" + rng.choice(subs)
                col.cov("boundary_kinds", "platform:lookup-subsignal")
        return {"op": "lookup", "name": n, "number": num, "loose": rng.random() < 0.3}
    # extension
    if desc["override"] and ids and rng.random() < 0.7:
        n, num = rng.choice(ids)
        col.cov("boundary_kinds", "platform:extension-same-id")
    else:
        n, num = "ext%d" % k, rng.choice([0, 0, 1])
    return {"op": "add_extension", "io": [mkres(n, num)], "prepend": rng.random() < 0.4}


def run_platform(col, M, case, rng):
    GP = M["GP"]
    override = case["cls"] == "platform-override"
    if "history" in case:
        desc, mkres = case["history"]["params"], None
    else:
        desc, mkres = gen_platform_desc(rng, override)
    h = History(col, case, {"io": list(desc["io"]), "connectors": desc["connectors"], "override": desc["override"]})
    desc = dict(desc)
    col.ev("histories_platform")
    io_tuples = build_io(GP, desc["io"])
    conns = [tuple(c) for c in desc["connectors"]]
    saved = GP.ConstraintManager
    GP.ConstraintManager = M["MonCM"]               # GenericPlatform looks the class up at construction time
    try:
        ok, plat = h.apply({"op": "create"}, lambda: GP.GenericPlatform("verif-device", io_tuples, conns, name="verif"))
    finally:
        GP.ConstraintManager = saved
    if not ok:
        col.case_done(case, False)
        return
    cm = plat.constraint_manager
    if type(cm) is not M["MonCM"]:
        raise RuntimeError("platform did not pick up the monitored ConstraintManager")
    known = [(r["name"], r["number"]) for r in desc["io"]]
    grants = {}                                     # id(obj) -> (name, number) as handed to the clients
    n = rng.randint(5, 30) if h.replay is None else len(h.replay)
    for k in range(n):
        op = h.next_op(lambda: gen_platform_op(rng, col, cm, desc, mkres, k, known))
        if op is None:
            break
        kind = op["op"]
        if kind == "create":
            continue
        before = len(cm.matched)
        if kind == "request":
            fn = lambda: plat.request(op["name"], op["number"], op["loose"])
        elif kind == "request_all":
            fn = lambda: plat.request_all(op["name"])
        elif kind == "request_remaining":
            fn = lambda: plat.request_remaining(op["name"])
        elif kind == "lookup":
            fn = lambda: plat.lookup_request(op["name"], op["number"], op["loose"])
        else:
            ext = build_io(GP, op["io"])
            fn = lambda: plat.add_extension(ext, prepend=op["prepend"])
        ok, r = h.apply(op, fn)
        if h.violated:
            break
        if kind == "add_extension" and ok:
            known += [(x["name"], x["number"]) for x in op["io"]]
            desc["io"] = desc["io"] + op["io"]
        # what the clients now hold (also after a request_all that ended in an exception the grants stay)
        for res, obj in cm.matched[before:]:
            if id(obj) in grants:
                h.violated = True
                col.violation("platform/same-object-for-two-resources", h.witness_case(), "object granted twice", {"history": h.ops[-20:]})
                break
            grants[id(obj)] = mon.res_id(res)
            col.ev("platform_grants")
        if ok and kind in ("request_all", "request_remaining"):
            op["result"] = {"granted": len(cm.matched) - before}
        if ok and kind == "request":
            op["result"] = None if r is None else "granted"
        if ok and kind == "lookup":
            op["result"] = None if r is None else "found"
            if r is not None:
                col.ev("lookups_found")
    if not h.violated:
        judge_constraints(col, M, h, cm, desc, override)
    col.case_done(case, h.accepted >= 3, digest=h.ops, sample=h.sample({"granted": sorted(set(grants.values()))[:12]}))


def resolve_pin(p, conns):
    seen = 0
    while ":" in p and seen < 8:
        c, n = p.split(":")
        p = conns[c][int(n)]
        seen += 1
    return p


def judge_constraints(col, M, h, cm, desc, override):
    """One constraint entry per granted signal, right pins, ids granted once."""
    from migen.fhdl.structure import Signal
    ok, entries = h.apply({"op": "get_sig_constraints"}, lambda: cm.get_sig_constraints())
    if not ok:
        return
    conns = {c[0]: c[1].split() for c in desc["connectors"]}
    ids = [mon.res_id(r) for r, _ in cm.matched]
    if len(set(ids)) != len(ids):
        if override:
            col.ev("obs_same_resource_id_granted_twice_through_extension")
        else:
            dup = sorted({i for i in ids if ids.count(i) > 1})
            h.violated = True
            col.violation("platform/resource-id-granted-twice", h.witness_case(), "resource id %r granted to two clients" % (dup[:1],),
                          {"ids": dup, "history": h.ops[-20:]})
            return
    expected = []
    for res, obj in cm.matched:
        spec_pins = {}
        top = [e for e in res[2:] if isinstance(e, M["GP"].Pins)]
        subs = [e for e in res[2:] if isinstance(e, M["GP"].Subsignal)]
        if subs:
            for s in subs:
                p = [c for c in s.constraints if isinstance(c, M["GP"].Pins)][0]
                expected.append((getattr(obj, s.name), [resolve_pin(x, conns) for x in p.identifiers], (res[0], res[1], s.name)))
        else:
            expected.append((obj, [resolve_pin(x, conns) for x in top[0].identifiers], (res[0], res[1], None)))
    got = {}
    for sig, pins, others, ident in entries:
        col.ev("constraint_entries_checked")
        if id(sig) in got:
            h.violated = True
            col.violation("platform/two-constraint-entries-for-one-signal", h.witness_case(), "signal of %r constrained twice" % (ident,),
                          {"ident": ident, "history": h.ops[-20:]})
            return
        got[id(sig)] = (pins, ident)
    for sig, pins, ident in expected:
        g = got.pop(id(sig), None)
        if g is None:
            h.violated = True
            col.violation("platform/granted-signal-without-constraint-entry", h.witness_case(), "no constraint entry for %r" % (ident,),
                          {"ident": ident, "history": h.ops[-20:]})
            return
        if list(g[0]) != pins or tuple(g[1]) != ident or len(pins) != len(sig):
            h.violated = True
            col.violation("platform/constraint-entry-differs-from-resource", h.witness_case(),
                          "entry for %r has pins %r, resource says %r (signal width %d)" % (ident, g[0], pins, len(sig)),
                          {"ident": ident, "got": g, "expected": pins, "history": h.ops[-20:]})
            return
    if got:
        h.violated = True
        col.violation("platform/constraint-entry-for-ungranted-signal", h.witness_case(), "%d constraint entries belong to no granted resource" % len(got),
                      {"idents": [v[1] for v in got.values()], "history": h.ops[-20:]})
        return
    ios = cm.get_io_signals()
    flat = set()
    for sig, _, _ in expected:
        flat.add(sig)
    if ios != flat:
        h.violated = True
        col.violation("platform/io-signals-differ-from-granted", h.witness_case(), "get_io_signals() has %d signals, %d granted" % (len(ios), len(flat)),
                      {"history": h.ops[-20:]})


# ------------------------------------------------------------------------------------------------
# a real SoC finalized end to end (CPU-less SoCCore): the deferred checks as LiteX really runs them
# ------------------------------------------------------------------------------------------------

def run_soc(col, M, case, rng):
    S = M["S"]
    from migen import Signal, ClockDomain, Module
    from litex.soc.integration import soc_core
    from litex.soc.interconnect import wishbone
    from litex.build.generic_platform import GenericPlatform, Pins
    params = case["history"]["params"] if "history" in case else {
        "bus_standard": rng.choice(["wishbone", "wishbone", "axi-lite"]), "bus_data_width": rng.choice([32, 32, 64]),
        "csr_address_width": rng.choice([14, 14, 15]), "csr_paging": rng.choice([0x800, 0x1000, 0x4000]),
        "sram": rng.choice([0x1000, 0x2000, 0x1800]), "rom": rng.choice([0, 0x8000, 0x6000]),
        "extra": [{"name": "x%d" % i, "size": rng.choice([0x1000, 0x3000, 0x10000, 0x100]),
                   "origin": rng.choice([None, 0x30000000 + 0x100000*i, 0x30000000 + 0x100000*i, 0x90000000 + 0x10000*i, 0x90000000 + 0x10000*i,
                                         0x50000000, 0x30000800 if rng.random() < 0.3 else 0x60000000 + 0x1000000*i]),
                   "cached": rng.random() < 0.5} for i in range(rng.randint(1, 4))],
        "csr_locs": [{"name": "u%d" % i, "n": rng.choice([None, 5, 30, 31])} for i in range(rng.randint(0, 3))],
    }
    h = History(col, case, params)
    col.ev("histories_soc")
    saved = (S.SoCBusHandler, S.SoCCSRHandler, S.SoCIRQHandler)
    S.SoCBusHandler, S.SoCCSRHandler, S.SoCIRQHandler = M["MonBus"], M["MonCSR"], M["MonIRQ"]
    try:
        def mk():
            plat = GenericPlatform("verif-device", [("clk", 0, Pins("A1"))], name="verif")
            soc = soc_core.SoCCore(plat, clk_freq=int(50e6), cpu_type=None, bus_standard=params["bus_standard"],
                                   bus_data_width=params["bus_data_width"], csr_address_width=params["csr_address_width"],
                                   csr_paging=params["csr_paging"], integrated_rom_size=params["rom"],
                                   integrated_sram_size=params["sram"], with_uart=False, with_timer=True, with_ctrl=True,
                                   ident="", ident_version=False)
            soc.clock_domains.cd_sys = ClockDomain("sys")
            soc.bus.add_master("verif", wishbone.Interface(data_width=32, address_width=32))
            return soc
        ok, soc = h.apply({"op": "create_soc"}, mk)
        if ok and type(soc.bus) is not M["MonBus"]:
            raise RuntimeError("SoC did not pick up the monitored handlers")
        if ok:
            for x in params["extra"]:
                op = {"op": "add_slave", "name": x["name"], "region": {"origin": x["origin"], "size": x["size"], "cached": x["cached"]}}
                h.apply(op, lambda: soc.bus.add_slave(x["name"], wishbone.Interface(data_width=32, address_width=32),
                                                      S.SoCRegion(origin=x["origin"], size=x["size"], cached=x["cached"])),
                        lambda: bus_save(soc.bus), lambda st: bus_restore(soc.bus, st))
                if h.violated:
                    break
            for x in params["csr_locs"]:
                if h.violated:
                    break
                h.apply({"op": "csr.add", "name": x["name"], "n": x["n"]}, lambda: soc.csr.add(x["name"], n=x["n"]),
                        lambda: dict(soc.csr.locs), lambda st: setattr(soc.csr, "locs", dict(st)))
            if not h.violated:
                del mon.DECODERS[:]
                ok, _ = h.apply({"op": "soc.finalize"}, lambda: soc.finalize())
                if ok:
                    col.ev("soc_finalized")
                    col.cov("interconnects", "soc:" + type(soc.bus._interconnect).__name__)
                    # every CSR bank must sit inside the CSR window of the bus
                    csr = soc.bus.regions["csr"]
                    for name, reg in soc.csr.regions.items():
                        col.ev("soc_csr_regions_checked")
                        if not (csr.origin <= reg.origin < csr.origin + csr.size):
                            h.violated = True
                            col.violation("soc/csr-bank-outside-csr-window", h.witness_case(),
                                          "CSR region %r at 0x%x lies outside the CSR bus window 0x%x..0x%x" % (name, reg.origin, csr.origin,
                                                                                                                 csr.origin + csr.size),
                                          {"params": params, "history": h.ops})
                            break
                else:
                    col.ev("soc_finalize_rejected")
    finally:
        S.SoCBusHandler, S.SoCCSRHandler, S.SoCIRQHandler = saved
    col.case_done(case, h.accepted >= 3, digest=h.ops, sample=None)
