"""C13 monitors: runtime contracts (icontract) put around the REAL LiteX allocation classes from the
harness (no repository edit).

* SoCBusHandler   -> subclass MonBus with class invariants (decoded windows disjoint, regions well
                     formed) and post-conditions on add_region / alloc_region / add_slave / add_master
* SoCRegion.decoder -> patched in place with a post-condition that evaluates the returned predicate
                     for real (migen expression on the address signal of an interface of the bus
                     standard/width, evaluated by the repository's Evaluator) on boundary + random addresses
* SoCCSRHandler / SoCIRQHandler -> subclasses with invariants on `locs` and post-conditions on add/alloc
* ConstraintManager -> subclass with invariants on available/matched and post-conditions on
                     request / lookup_request

Every condition is a named function, every contract has an explicit error class, every evaluation is
counted in EV (zero evaluations => the check exits inconclusive through FLOORS). A condition that
fails describes the mechanism in DETAIL (key, what, witness); the harness turns it into col.violation.
A request that raises is a rejection: icontract evaluates post-conditions/invariants only after a
normal return, which is exactly "an ACCEPTED state that breaks an invariant is the violation".
"""
import math
import random

import icontract

EV = {}          # contract evaluation counters (moved into col.ev by the harness)
OBS = {}         # observations that are not violations (moved into col.ev "obs_*")
DETAIL = {}      # description of the last failed condition
DECODERS = []    # (region, bus, predicate) seen by the contract on SoCRegion.decoder
RNG = [random.Random(0)]   # per-case RNG for the random probe addresses (set by the harness)


def _ev(name, n=1):
    EV[name] = EV.get(name, 0) + n


def _obs(name, n=1):
    OBS[name] = OBS.get(name, 0) + n


def _fail(key, what, **witness):
    DETAIL.clear()
    DETAIL.update(key=key, what=what, witness=witness)
    return False


def reset_case(rng):
    DETAIL.clear()
    del DECODERS[:]
    RNG[0] = rng


class MonitorViolation(Exception):
    """Raised by icontract when a monitored condition is false (never a LiteX exception)."""


class MonitorError(Exception):
    """An exception inside a monitor condition: a harness problem => inconclusive, never a verdict."""


def guard(fn):
    """Keep the condition's signature (icontract binds arguments by name) and turn its own exceptions into MonitorError."""
    import functools

    @functools.wraps(fn)
    def g(*a, **k):
        try:
            return fn(*a, **k)
        except Exception as e:
            import traceback
            raise MonitorError("%s: %s" % (fn.__name__, traceback.format_exc()[-1500:])) from e
    return g


class BusInvariantBroken(MonitorViolation): pass
class AllocPostBroken(MonitorViolation): pass
class AddRegionPostBroken(MonitorViolation): pass
class AddSlavePostBroken(MonitorViolation): pass
class AddMasterPostBroken(MonitorViolation): pass
class DecoderPostBroken(MonitorViolation): pass
class LocInvariantBroken(MonitorViolation): pass
class LocAddPostBroken(MonitorViolation): pass
class LocAllocPostBroken(MonitorViolation): pass
class PlatformInvariantBroken(MonitorViolation): pass
class RequestPostBroken(MonitorViolation): pass
class LookupPostBroken(MonitorViolation): pass


# ------------------------------------------------------------------------------------------------
# helpers
# ------------------------------------------------------------------------------------------------

def rdesc(r):
    return {"origin": None if r.origin is None else hex(r.origin), "size": hex(r.size), "size_pow2": hex(r.size_pow2),
            "cached": r.cached, "linker": r.linker, "decode": r.decode, "io": type(r).__name__ == "SoCIORegion"}


def window(r):
    return r.origin, r.origin + r.size_pow2


def first_overlap(named):
    """named: list of (name, region) with integer origins. Returns an overlapping pair of names or None.
    Independent of check_regions_overlap: sort by origin and sweep with the running maximum end."""
    items = sorted(named, key=lambda x: x[1].origin)
    best_end, best_name = None, None
    for n, r in items:
        lo, hi = window(r)
        if best_end is not None and lo < best_end:
            return best_name, n
        if best_end is None or hi > best_end:
            best_end, best_name = hi, n
    return None


def inside_declared(r, io):
    return io.origin <= r.origin and r.origin + r.size <= io.origin + io.size


def inside_window(r, io):
    return io.origin <= r.origin and r.origin + r.size <= io.origin + io.size_pow2


def is_pow2(x):
    return x >= 1 and (x & (x - 1)) == 0


# ------------------------------------------------------------------------------------------------
# SoCBusHandler
# ------------------------------------------------------------------------------------------------

@guard
def bus_regions_wellformed(self):
    _ev("inv_bus_regions_wellformed")
    for n, r in list(self.regions.items()) + list(self.io_regions.items()):
        if not isinstance(r.origin, int) or r.origin < 0:
            return _fail("bus/region-without-integer-origin-registered", "region %r registered with origin %r" % (n, r.origin),
                         name=n, region=rdesc(r))
        if not isinstance(r.size, int) or r.size <= 0 or not is_pow2(r.size_pow2) or r.size_pow2 < r.size or r.size_pow2 >= 2*r.size:
            return _fail("bus/region-size-not-rounded-to-next-pow2", "region %r size %r decoded size %r" % (n, r.size, r.size_pow2),
                         name=n, region=rdesc(r))
    return True


@guard
def bus_regions_disjoint(self):
    _ev("inv_bus_regions_disjoint")
    named = [(n, r) for n, r in self.regions.items() if not r.linker and isinstance(r.origin, int)]
    ov = first_overlap(named)
    if ov is not None:
        a, b = ov
        return _fail("bus/overlapping-regions-accepted",
                     "decoded windows of accepted regions %r and %r overlap" % (a, b),
                     a=a, b=b, region_a=rdesc(self.regions[a]), region_b=rdesc(self.regions[b]))
    return True


@guard
def bus_io_regions_disjoint(self):
    _ev("inv_bus_io_regions_disjoint")
    named = [(n, r) for n, r in self.io_regions.items() if not r.linker and isinstance(r.origin, int)]
    ov = first_overlap(named)
    if ov is not None:
        a, b = ov
        return _fail("bus/overlapping-io-regions-accepted", "accepted IO regions %r and %r overlap" % (a, b),
                     a=a, b=b, region_a=rdesc(self.io_regions[a]), region_b=rdesc(self.io_regions[b]))
    return True


@guard
def snap_bus_state(self):
    return dict(self.regions), dict(self.io_regions), dict(self.masters), dict(self.slaves)


@guard
def alloc_result_legal(self, size, cached, result):
    _ev("post_alloc_region")
    r = result
    if not isinstance(r.origin, int):
        return _fail("alloc/no-origin", "alloc_region returned origin %r" % (r.origin,), region=rdesc(r))
    p2 = r.size_pow2
    wit = dict(request={"size": hex(size), "cached": cached}, result=rdesc(r), address_width=self.address_width,
               regions={n: rdesc(x) for n, x in self.regions.items()}, io_regions={n: rdesc(x) for n, x in self.io_regions.items()})
    if r.size != size or bool(r.cached) != bool(cached):
        return _fail("alloc/request-not-honoured", "allocated region differs from the request", **wit)
    if r.origin % p2:
        return _fail("alloc/origin-not-aligned-on-decoded-size", "allocated origin 0x%x not aligned on 0x%x" % (r.origin, p2), **wit)
    if r.origin < 0 or r.origin + p2 > 2**self.address_width:
        return _fail("alloc/outside-address-space", "allocated window 0x%x..0x%x leaves the %d-bit address space"
                     % (r.origin, r.origin + p2, self.address_width), **wit)
    for n, o in self.regions.items():
        if o.linker or not isinstance(o.origin, int):
            continue
        if first_overlap([(n, o), ("<allocated>", r)]) is not None:
            return _fail("alloc/overlaps-existing-region", "allocated window overlaps accepted region %r" % n, other=n, **wit)
    ios = list(self.io_regions.values())
    if not cached:
        if not any(inside_declared(r, io) for io in ios):
            if any(inside_window(r, io) for io in ios):
                return _fail("alloc/uncached-beyond-declared-io-size",
                             "uncached region allocated at 0x%x (size 0x%x): beyond the declared size of every IO region, "
                             "inside an IO region only if its size is rounded up to a power of two" % (r.origin, r.size), **wit)
            return _fail("alloc/uncached-outside-io-region", "uncached region allocated at 0x%x outside every IO region" % r.origin, **wit)
    else:
        if any(inside_declared(r, io) for io in ios):
            _obs("obs_cached_region_allocated_inside_io_region")
    return True


@guard
def add_region_post(self, name, region, OLD):
    _ev("post_add_region")
    old_r, old_io, _, _ = OLD.state
    tname = type(region).__name__
    if name in old_r or name in old_io:
        return _fail("bus/duplicate-region-name-accepted", "add_region(%r) accepted although the name was already granted" % name, name=name)
    new = [k for k in self.regions if k not in old_r] + [k for k in self.io_regions if k not in old_io]
    if new != [name]:
        return _fail("bus/add_region-registered-wrong-names", "add_region(%r) registered %r" % (name, new), name=name, new=new)
    for k, v in old_r.items():
        if self.regions.get(k) is not v:
            return _fail("bus/add_region-changed-other-region", "add_region(%r) replaced/removed region %r" % (name, k), name=name, other=k)
    for k, v in old_io.items():
        if self.io_regions.get(k) is not v:
            return _fail("bus/add_region-changed-other-region", "add_region(%r) replaced/removed IO region %r" % (name, k), name=name, other=k)
    if tname == "SoCIORegion":
        if name not in self.io_regions:
            return _fail("bus/io-region-not-registered", "IO region %r not in io_regions" % name, name=name)
        return True
    reg = self.regions.get(name)
    if reg is None:
        return _fail("bus/region-not-registered", "region %r not in regions" % name, name=name)
    if region.origin is None:
        _ev("auto_regions_accepted")
        # allocated: alloc_result_legal already judged the candidate; it must be what got registered
        if reg.size != region.size or bool(reg.cached) != bool(region.cached) or not isinstance(reg.origin, int):
            return _fail("alloc/request-not-honoured", "registered region differs from the request", name=name, region=rdesc(reg))
        return True
    _ev("fixed_regions_accepted")
    if reg is not region:
        return _fail("bus/region-not-registered", "a different object was registered for %r" % name, name=name)
    if self.io_regions_check:
        is_io = any(inside_declared(reg, io) for io in self.io_regions.values())
        if is_io and reg.cached:
            return _fail("bus/cached-region-inside-io-region-accepted", "cached region %r accepted inside an IO region" % name,
                         name=name, region=rdesc(reg))
        if (not is_io) and (not reg.cached):
            return _fail("bus/uncached-region-outside-io-region-accepted", "uncached region %r accepted outside every IO region" % name,
                         name=name, region=rdesc(reg), io_regions={n: rdesc(x) for n, x in self.io_regions.items()})
    return True


@guard
def add_slave_post(self, name, slave, region, OLD):
    _ev("post_add_slave")
    _, _, _, old_s = OLD.state
    new = [k for k in self.slaves if k not in old_s]
    if len(new) != 1:
        return _fail("bus/add_slave-registered-wrong-names", "add_slave(%r) registered %r" % (name, new), name=name, new=new)
    n = new[0]
    if name is not None and n != name:
        return _fail("bus/add_slave-registered-wrong-names", "add_slave(%r) registered %r" % (name, new), name=name, new=new)
    if name is not None and name in old_s:
        return _fail("bus/duplicate-slave-name-accepted", "add_slave(%r) accepted twice" % name, name=name)
    for k, v in old_s.items():
        if self.slaves.get(k) is not v:
            return _fail("bus/add_slave-changed-other-slave", "add_slave(%r) replaced slave %r" % (name, k), name=name, other=k)
    if n not in self.regions:
        return _fail("bus/slave-without-region-accepted", "slave %r accepted without a region of that name" % n, name=n)
    return True


@guard
def add_master_post(self, name, master, region, OLD):
    _ev("post_add_master")
    _, _, old_m, _ = OLD.state
    new = [k for k in self.masters if k not in old_m]
    if len(new) != 1 or (name is not None and new[0] != name):
        return _fail("bus/duplicate-master-name-accepted" if name in old_m else "bus/add_master-registered-wrong-names",
                     "add_master(%r) registered %r" % (name, new), name=name, new=new)
    for k, v in old_m.items():
        if self.masters.get(k) is not v:
            return _fail("bus/add_master-changed-other-master", "add_master(%r) replaced master %r" % (name, k), name=name, other=k)
    return True


# ------------------------------------------------------------------------------------------------
# SoCRegion.decoder evaluated for real
# ------------------------------------------------------------------------------------------------

class DecoderProbe:
    """Address signal of a real interface of the bus standard/widths + the repository's Evaluator."""
    _cache = {}

    def __init__(self, standard, data_width, address_width):
        from litex.soc.interconnect import wishbone, axi
        from litex.gen.sim.core import Evaluator
        self.shift = int(math.log2(data_width//8))
        self.address_width = address_width
        if standard == "wishbone":
            itf = wishbone.Interface(data_width=data_width, address_width=address_width, addressing="word")
            self.sig = itf.adr
            self.arg = itf.adr                       # what wishbone.Decoder passes: master.adr (word address)
            self.to_sig = self._word
        elif standard == "axi-lite":
            itf = axi.AXILiteInterface(data_width=data_width, address_width=address_width)
            self.sig = itf.aw.addr
            self.arg = itf.aw.addr[self.shift:]      # what AXILiteDecoder passes
            self.to_sig = self._byte
        else:
            itf = axi.AXIInterface(data_width=data_width, address_width=address_width)
            self.sig = itf.aw.addr
            self.arg = itf.aw.addr[self.shift:]      # what AXIDecoder passes
            self.to_sig = self._byte
        self.itf = itf
        self.ev = Evaluator({}, {})

    def _word(self, a):
        return a >> self.shift

    def _byte(self, a):
        return a

    @classmethod
    def get(cls, bus):
        k = (bus.standard, bus.data_width, bus.address_width)
        if k not in cls._cache:
            cls._cache[k] = cls(*k)
        return cls._cache[k]

    def build(self, fn):
        return fn(self.arg)

    def accept(self, expr, byte_addr):
        _ev("decoder_evaluations")
        if isinstance(expr, (bool, int)):
            return bool(expr)
        self.ev.signal_values[self.sig] = self.to_sig(byte_addr) & (2**len(self.sig) - 1)
        return bool(self.ev.eval(expr))


def probe_addresses(regions, address_width, word, rng, n_random=6):
    top = 2**address_width
    s = {0, top - 1, top - word, rng.randrange(top), rng.randrange(top)}
    for r in regions:
        lo, hi = window(r)
        for a in (lo - 1, lo, lo + word - 1, lo + word, hi - word, hi - 1, hi, hi + word - 1, lo + r.size - 1, lo + r.size,
                  (lo + hi)//2, lo - word, lo ^ (r.size_pow2 if r.size_pow2 < top else 0), lo + 2*r.size_pow2, lo | (top >> 1), lo & ~(top >> 1)):
            s.add(a)
        for _ in range(n_random):
            s.add(lo + rng.randrange(max(1, r.size_pow2)))
            s.add(rng.randrange(top))
            # same offset in a window that differs in exactly one high address bit (catches dropped compare bits)
            s.add((lo + rng.randrange(max(1, r.size_pow2))) ^ (1 << rng.randrange(address_width)))
    return sorted(a for a in s if 0 <= a < top)


def expected_accept(r, a, word):
    """Window at the resolution of the bus: the bus word containing `a` intersects [origin, origin+size_pow2)."""
    lo, hi = window(r)
    w0 = (a // word) * word
    return (w0 < hi) and (w0 + word > lo)


@guard
def decoder_accepts_exactly_window(self, bus, result):
    _ev("post_region_decoder")
    DECODERS.append((self, bus, result))
    pr = DecoderProbe.get(bus)
    word = bus.data_width//8
    expr = pr.build(result)
    if not self.decode:
        _ev("decoders_disabled_by_request")
        return True     # decode=False: the design asked for "always selected"
    if self.origin & (self.size_pow2 - 1):
        return _fail("decoder/misaligned-origin-decoded", "decoder built for origin 0x%x not aligned on 0x%x" % (self.origin, self.size_pow2),
                     region=rdesc(self))
    for a in probe_addresses([self], bus.address_width, word, RNG[0]):
        got = pr.accept(expr, a)
        exp = expected_accept(self, a, word)
        if got != exp:
            return _fail("decoder/accepts-address-outside-window" if got else "decoder/rejects-address-inside-window",
                         "decoder of window 0x%x..0x%x %s address 0x%x" % (self.origin, self.origin + self.size_pow2,
                                                                           "accepts" if got else "rejects", a),
                         region=rdesc(self), address=hex(a), accepted=got, bus={"standard": bus.standard, "data_width": bus.data_width,
                                                                                 "address_width": bus.address_width})
    return True


# ------------------------------------------------------------------------------------------------
# SoCLocHandler (CSR pages, IRQ numbers)
# ------------------------------------------------------------------------------------------------

def loc_key(n, n_locs):
    if not isinstance(n, int) or isinstance(n, bool):
        return "lochandler/non-integer-number-accepted"
    if n < 0:
        return "lochandler/negative-number-accepted"
    if n == n_locs:
        return "lochandler/number-equals-n_locs-accepted"
    if n > n_locs:
        return "lochandler/number-above-n_locs-accepted"
    return None


@guard
def locs_in_range(self):
    _ev("inv_locs_in_range")
    for name, n in self.locs.items():
        k = loc_key(n, self.n_locs)
        if k is not None:
            return _fail(k, "%s location %r granted to %r, legal range is 0..%d" % (self.name, n, name, self.n_locs - 1),
                         handler=type(self).__mro__[1].__name__, n_locs=self.n_locs, name=name, n=n, locs=dict(self.locs))
    return True


@guard
def locs_unique(self):
    _ev("inv_locs_unique")
    seen = {}
    for name, n in self.locs.items():
        if n in seen:
            return _fail("lochandler/number-granted-twice", "%s location %r granted to %r and %r" % (self.name, n, seen[n], name),
                         n_locs=self.n_locs, n=n, names=[seen[n], name], locs=dict(self.locs))
        seen[n] = name
    return True


@guard
def snap_locs(self):
    return dict(self.locs)


@guard
def loc_add_post(self, name, n, use_loc_if_exists, OLD):
    _ev("post_loc_add")
    old = OLD.locs
    wit = dict(name=name, n=n, use_loc_if_exists=use_loc_if_exists, before=old, after=dict(self.locs), n_locs=self.n_locs)
    if name in old:
        if not use_loc_if_exists:
            return _fail("lochandler/duplicate-name-accepted", "%s name %r granted a second time" % (self.name, name), **wit)
        if self.locs != old:
            return _fail("lochandler/existing-location-changed", "add(%r, use_loc_if_exists=True) changed the table" % name, **wit)
        return True
    if name not in self.locs:
        return _fail("lochandler/accepted-but-not-registered", "add(%r) returned without registering the name" % name, **wit)
    got = self.locs[name]
    if n is not None and got != n:
        return _fail("lochandler/other-number-than-requested", "add(%r, %r) registered %r" % (name, n, got), **wit)
    if got in old.values():
        return _fail("lochandler/number-granted-twice", "%s location %r granted to a second client %r" % (self.name, got, name), **wit)
    rest = dict(self.locs)
    del rest[name]
    if rest != old:
        return _fail("lochandler/add-changed-other-entries", "add(%r) changed other entries" % name, **wit)
    k = loc_key(got, self.n_locs)
    if k is not None:
        return _fail(k, "%s location %r granted to %r, legal range is 0..%d" % (self.name, got, name, self.n_locs - 1), **wit)
    return True


@guard
def loc_alloc_post(self, name, result):
    _ev("post_loc_alloc")
    if result in self.locs.values():
        return _fail("lochandler/alloc-returned-used-number", "alloc(%r) returned %r which is in use" % (name, result),
                     result=result, locs=dict(self.locs), n_locs=self.n_locs)
    k = loc_key(result, self.n_locs)
    if k is not None:
        return _fail(k.replace("-accepted", "-allocated"), "alloc(%r) returned %r, legal range 0..%d" % (name, result, self.n_locs - 1),
                     result=result, n_locs=self.n_locs)
    return True


# ------------------------------------------------------------------------------------------------
# ConstraintManager
# ------------------------------------------------------------------------------------------------

def res_id(resource):
    return (resource[0], resource[1])


@guard
def cm_available_xor_matched(self):
    _ev("inv_cm_available_xor_matched")
    av = [id(r) for r in self.available]
    ma = [id(r) for r, _ in self.matched]
    if len(set(ma)) != len(ma):
        dup = [res_id(r) for r, _ in self.matched if ma.count(id(r)) > 1]
        return _fail("platform/resource-granted-twice", "resource entry %r is in matched more than once" % (dup[:1],), ids=dup)
    both = set(av) & set(ma)
    if both:
        ids = [res_id(r) for r, _ in self.matched if id(r) in both]
        return _fail("platform/resource-both-available-and-matched", "resource %r is granted and still available" % (ids[:1],), ids=ids)
    return True


@guard
def cm_granted_objects_distinct(self):
    _ev("inv_cm_granted_objects_distinct")
    objs = [id(o) for _, o in self.matched]
    if len(set(objs)) != len(objs):
        return _fail("platform/same-object-for-two-resources", "two granted resources share one signal object")
    return True


@guard
def cm_conservation(self):
    _ev("inv_cm_conservation")
    tot = getattr(self, "_verif_total", None)
    if tot is not None and len(self.available) + len(self.matched) != tot:
        return _fail("platform/resource-lost-or-duplicated", "available(%d)+matched(%d) != %d resources declared"
                     % (len(self.available), len(self.matched), tot))
    return True


@guard
def snap_cm(self):
    return [id(r) for r in self.available], [(id(r), id(o)) for r, o in self.matched]


@guard
def cm_request_post(self, name, number, loose, result, OLD):
    _ev("post_cm_request")
    old_av, old_ma = OLD.cm
    av = [id(r) for r in self.available]
    ma = [(id(r), id(o)) for r, o in self.matched]
    if result is None:
        if not loose:
            return _fail("platform/request-returned-none", "request(%r,%r) returned None without loose" % (name, number))
        if av != old_av or ma != old_ma:
            return _fail("platform/failed-request-changed-state", "request(%r,%r) returned None but changed the tables" % (name, number))
        return True
    if ma[:len(old_ma)] != old_ma or len(ma) != len(old_ma) + 1:
        return _fail("platform/request-did-not-record-grant", "request(%r,%r): matched table not extended by exactly one entry" % (name, number),
                     matched_before=len(old_ma), matched_after=len(ma))
    res, obj = self.matched[-1]
    if obj is not result:
        return _fail("platform/request-did-not-record-grant", "request(%r,%r): returned object is not the recorded one" % (name, number))
    if res[0] != name or (number is not None and res[1] != number):
        return _fail("platform/wrong-resource-granted", "request(%r,%r) granted %r" % (name, number, res_id(res)), granted=res_id(res))
    if id(res) not in old_av:
        return _fail("platform/granted-resource-was-not-available", "request(%r,%r) granted a resource that was not available" % (name, number),
                     granted=res_id(res))
    if id(res) in av:
        return _fail("platform/resource-both-available-and-matched", "request(%r,%r): granted resource is still available" % (name, number),
                     ids=[res_id(res)])
    if sorted(av + [id(res)]) != sorted(old_av):
        return _fail("platform/request-changed-other-resources", "request(%r,%r) changed other available entries" % (name, number))
    return True


@guard
def cm_lookup_post(self, name, number, loose, result, OLD):
    _ev("post_cm_lookup")
    old_av, old_ma = OLD.cm
    if [id(r) for r in self.available] != old_av or [(id(r), id(o)) for r, o in self.matched] != old_ma:
        return _fail("platform/lookup-changed-state", "lookup_request(%r,%r) changed the tables" % (name, number))
    base, sub = (name.split(":") + [None])[:2] if ":" in name else (name, None)
    cands = [o for r, o in self.matched if r[0] == base and (number is None or r[1] == number)]
    if result is None:
        if cands or not loose:
            return _fail("platform/lookup-misses-granted-resource", "lookup_request(%r,%r) returned None, %d granted candidates"
                         % (name, number, len(cands)))
        return True
    owners = [o for o in cands if (o is result if sub is None else getattr(o, sub, None) is result)]
    if not owners:
        return _fail("platform/lookup-returned-ungranted-resource",
                     "lookup_request(%r,%r) returned an object that belongs to no granted resource of that name" % (name, number))
    return True


# ------------------------------------------------------------------------------------------------
# building the monitored classes
# ------------------------------------------------------------------------------------------------

_built = {}


def build():
    """Create the monitored subclasses once per process and patch SoCRegion.decoder in place."""
    if _built:
        return _built
    from litex.soc.integration import soc as S
    from litex.build import generic_platform as GP

    # the real classes, bound now: the harness later points the module attributes at the monitored subclasses
    BaseBus, BaseCM = S.SoCBusHandler, GP.ConstraintManager

    # -- bus handler -------------------------------------------------------------------------------
    class MonBus(BaseBus):
        @icontract.snapshot(snap_bus_state, name="state")
        @icontract.ensure(add_region_post, error=AddRegionPostBroken)
        def add_region(self, name, region):
            return BaseBus.add_region(self, name, region)

        @icontract.ensure(alloc_result_legal, error=AllocPostBroken)
        def alloc_region(self, name, size, cached=True):
            return BaseBus.alloc_region(self, name, size, cached)

        @icontract.snapshot(snap_bus_state, name="state")
        @icontract.ensure(add_slave_post, error=AddSlavePostBroken)
        def add_slave(self, name=None, slave=None, region=None):
            return BaseBus.add_slave(self, name, slave, region)

        @icontract.snapshot(snap_bus_state, name="state")
        @icontract.ensure(add_master_post, error=AddMasterPostBroken)
        def add_master(self, name=None, master=None, region=None):
            return BaseBus.add_master(self, name, master, region)

    for cond in (bus_regions_wellformed, bus_regions_disjoint, bus_io_regions_disjoint):
        MonBus = icontract.invariant(cond, error=BusInvariantBroken)(MonBus)

    # -- region decoder (patched in place: do_finalize looks it up on the instance) ----------------
    if not getattr(S.SoCRegion.decoder, "__verif_wrapped__", False):
        orig = S.SoCRegion.decoder
        wrapped = icontract.ensure(decoder_accepts_exactly_window, error=DecoderPostBroken)(orig)
        wrapped.__verif_wrapped__ = True
        S.SoCRegion.decoder = wrapped

    # -- location handlers -------------------------------------------------------------------------
    def mon_loc(base, clsname):
        class Mon(base):
            @icontract.snapshot(snap_locs, name="locs")
            @icontract.ensure(loc_add_post, error=LocAddPostBroken)
            def add(self, name, n=None, use_loc_if_exists=False):
                return base.add(self, name, n=n, use_loc_if_exists=use_loc_if_exists)

            @icontract.ensure(loc_alloc_post, error=LocAllocPostBroken)
            def alloc(self, name):
                return base.alloc(self, name)
        Mon.__name__ = Mon.__qualname__ = clsname
        for cond in (locs_in_range, locs_unique):
            Mon = icontract.invariant(cond, error=LocInvariantBroken)(Mon)
        return Mon

    MonCSR = mon_loc(S.SoCCSRHandler, "MonCSR")
    MonIRQ = mon_loc(S.SoCIRQHandler, "MonIRQ")
    assert S.SoCCSRHandler is not MonCSR

    # -- constraint manager ------------------------------------------------------------------------
    class MonCM(BaseCM):
        def __init__(self, io, connectors):
            BaseCM.__init__(self, io, connectors)
            self._verif_total = len(self.available)

        def add_extension(self, io, prepend=False):
            io = list(io)
            r = BaseCM.add_extension(self, io, prepend)
            self._verif_total += len(io)
            return r

        @icontract.snapshot(snap_cm, name="cm")
        @icontract.ensure(cm_request_post, error=RequestPostBroken)
        def request(self, name, number=None, loose=False):
            return BaseCM.request(self, name, number, loose)

        @icontract.snapshot(snap_cm, name="cm")
        @icontract.ensure(cm_lookup_post, error=LookupPostBroken)
        def lookup_request(self, name, number=None, loose=False):
            return BaseCM.lookup_request(self, name, number, loose)

    for cond in (cm_available_xor_matched, cm_granted_objects_distinct, cm_conservation):
        MonCM = icontract.invariant(cond, error=PlatformInvariantBroken)(MonCM)

    _built.update(S=S, GP=GP, MonBus=MonBus, MonCSR=MonCSR, MonIRQ=MonIRQ, MonCM=MonCM)
    return _built
