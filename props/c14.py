"""C14 - exported software maps tell the truth about the hardware. A CPU-less SoCCore is finalised, all
exporters are run (directly and through Builder), the published addresses and the bodies of the generated
accessors are replayed access by access through a bus master on the simulated SoC, and what the registers /
memories really did is observed on their own signals."""
import os
import re
import json
import shutil
import tempfile
import xml.etree.ElementTree as ET

from migen import *

from litex.build.generic_platform import GenericPlatform
from litex.soc.integration.soc_core import SoCCore
from litex.soc.integration.builder import Builder
from litex.soc.integration import export
from litex.soc.integration.common import get_mem_data
from litex.soc.interconnect import wishbone
from litex.soc.integration.soc import SoCError
from litex.soc.interconnect.csr import CSRConstant, CSRField, CSRStorage, CSRStatus, AutoCSR
from litex.soc.interconnect.csr_eventmanager import EventManager, EventSourcePulse
from litex.soc.cores import cpu as cpu_mod

from lib import env
from lib.collect import Collector, rng_for, h
from lib.bench.kernel import Bench, umask
from lib.bench.wb import WBScript

LEVEL = "exploration"
RULE = ("one case = one CPU-less SoCCore configuration (bus standard wishbone/axi-lite/axi x bus width 32/64 x shared/crossbar x CSR "
        "data width 8/32 x big/little ordering x paging x address width; random peripherals with storages/statuses of 1..160 bits (those above 64 bits have no C accessor and are walked from the published address), a CSR "
        "memory, integrated ROM/SRAM/main RAM with random init at random sizes). The exported JSON, CSV, C header (addresses AND accessor "
        "bodies), SVD and mem header are parsed; every published register is written/read exactly as its accessor does through a bus "
        "master added with bus.add_master, and the register's own storage/status signal, all other registers and the Memory arrays are "
        "observed. Memory images: get_mem_data on random files at data widths 32/64 and both endiannesses, loaded into a Wishbone SRAM and "
        "read back byte-lane-wise. Non-trivial = >= 8 registers replayed; distinct = distinct case digests")
ASSUMPTIONS = ["migen tracer shim (names only)", "the bus master is a 32-bit Wishbone port (adapters inserted by SoCBusHandler.add_adapter are part of the path)",
               "csr_read_simple/csr_write_simple are 32-bit accesses at the given address (hw/common.h)", "ctrl_reset is not written (it resets the SoC)"]
FLOORS = {"quick": {"registers_replayed": 600, "accessor_reads": 600, "accessor_writes": 300, "socs_built": 40, "mem_region_words_checked": 200,
                    "cross_format_entries_compared": 2000, "image_bytes_checked": 12000, "registers_wider_than_64_bits": 40, "interrupts_raised_and_located": 40,
                    "fields_located": 250, "field_accessor_writes_replayed": 120,
                    "other_memories_checked_after_region_write": 400, "ram_image_words_read_back": 150, "oversize_images_offered": 15, "declared_constants_compared": 60, "extra_ram_requests_inside_a_neighbours_window_refused": 6},
          "thorough": {"registers_replayed": 9000, "accessor_reads": 9000, "accessor_writes": 4500, "socs_built": 600,
                       "mem_region_words_checked": 3000, "cross_format_entries_compared": 30000, "image_bytes_checked": 300000,
                       "registers_wider_than_64_bits": 600, "interrupts_raised_and_located": 500,
                       "fields_located": 4000, "field_accessor_writes_replayed": 2000,
                       "other_memories_checked_after_region_write": 6000, "ram_image_words_read_back": 2500, "oversize_images_offered": 250, "declared_constants_compared": 1000, "extra_ram_requests_inside_a_neighbours_window_refused": 90}}
SHARD_TIMEOUT = {"quick": 1500, "thorough": 3400}
N_SAMPLES = 2


def plan(tier, seed):
    n = 128 if tier == "quick" else 1280
    cases = []
    k = 0
    for i in range(n):
        cases.append({"kind": "soc", "standard": ["wishbone", "axi-lite", "axi"][i % 3], "bus_dw": [32, 32, 64][(i // 3) % 3],
                      "interconnect": ["shared", "crossbar"][(i // 9) % 2], "csr_dw": [32, 32, 8][(i // 2) % 3],
                      "ordering": ["big", "big", "little"][(i // 6) % 3], "paging": [0x800, 0x400, 0x1000][(i // 5) % 3],
                      "seed": "%d/C14/soc/%d" % (seed, i)})
        if i % 4 == 3 or i % 16 == 6:
            # a SoC with a (core-less) CPU: enables the IRQ handler, the CPU's IO-region rules and memory map
            cases[-1]["cpu"] = True
    for i in range(800 if tier == "quick" else 15000):
        cases.append({"kind": "image", "dw": [32, 64][i % 2], "endianness": ["little", "big"][(i // 2) % 2],
                      "seed": "%d/C14/image/%d" % (seed, i)})
    ns = 48 if tier == "quick" else 160
    return [{"id": "soc%03d" % i, "cls": "soc", "cases": cases[i::ns]} for i in range(ns)]


class _Platform(GenericPlatform):
    def __init__(self):
        GenericPlatform.__init__(self, "sim", [])


class VerifCPU(cpu_mod.CPU):
    """A CPU with no core: interrupt vector, reset and two idle Wishbone masters - what SoC.add_cpu needs to enable the IRQ handler and
    wire ev.irq lines to numbered interrupt inputs (the real CPU wrappers need vendor sources that are not installed)."""
    category, family, name, human_name = "softcore", "verif", "verifcpu", "VerifCPU"
    variants = ["standard"]
    data_width, endianness = 32, "little"
    gcc_triple, gcc_flags, linker_output_format = ("none",), "", "elf32-little"
    nop = "nop"
    io_regions = {0x80000000: 0x80000000}
    mem_map = {"rom": 0x00000000, "sram": 0x10000000, "main_ram": 0x40000000, "csr": 0xf0000000}
    interrupts = {}
    reset_address_check = False

    def __init__(self, platform, variant="standard"):
        self.platform, self.variant = platform, variant
        self.reset = Signal()
        self.interrupt = Signal(32)
        self.ibus = wishbone.Interface(data_width=32, address_width=32, addressing="word")
        self.dbus = wishbone.Interface(data_width=32, address_width=32, addressing="word")
        self.periph_buses = [self.ibus, self.dbus]
        self.memory_buses = []
        self.interrupts = {"resv": VerifCPU.reserved_n}
        self.reset_address = 0

    def set_reset_address(self, reset_address):
        self.reset_address = reset_address


VerifCPU.reserved_n = 0
cpu_mod.CPUS["verifcpu"] = VerifCPU


def gen_periph_specs(rng, nper, with_irq=False):
    specs = []
    for pi in range(nper):
        regs = []
        for i in range(rng.randint(2, 8)):
            kind = rng.choice(["storage", "storage", "status"])
            size = rng.choice([1, 7, 8, 9, 16, 31, 32, 33, 40, 48, 63, 64, rng.randint(1, 64)])
            if rng.random() < 0.12:
                # wider than any C accessor type: no <reg>_read()/_write() is generated, the address cursor must still advance
                size = rng.choice([65, 96, 128, rng.randint(65, 160)])
            regs.append({"kind": kind, "name": "r%d" % i, "size": size, "atomic": kind == "storage" and rng.random() < 0.3,
                         "reset": rng.getrandbits(size)})
            if kind == "storage" and rng.random() < 0.3:
                # a register made of fields (with gaps between them): the published field offsets / sizes / accessors are judged
                fields, off = [], rng.choice([0, 0, 1, 3])
                for fi in range(rng.randint(1, 4)):
                    fs = rng.choice([1, 1, 2, 3, 5, 8])
                    if off + fs > 32:
                        break
                    fields.append({"name": "f%d" % fi, "offset": off, "size": fs, "reset": rng.getrandbits(fs)})
                    off += fs + rng.choice([0, 0, 1, 4])
                if fields:
                    regs[-1].update({"fields": fields, "size": fields[-1]["offset"] + fields[-1]["size"], "atomic": False})
                    regs[-1]["reset"] = sum(f["reset"] << f["offset"] for f in fields)
        # names before and after the SoC's own "ctrl", and (20%) a CSR location fixed by the designer: listing order (by name) and
        # address order (by location) of the CSR regions then differ
        specs.append({"name": "%s%d" % (rng.choice(["per", "per", "aux", "zed", "bank"]), pi),
                      "csr_loc": rng.choice([None, None, None, None, rng.randint(4, 24)]), "regs": regs, "mem": ({"width": 32, "depth": rng.choice([8, 32])} if rng.random() < 0.35 else None)})
        if with_irq and rng.random() < 0.75:
            # an EventManager with 1..3 pulse sources; interrupt number fixed by the designer (30%) or allocated
            specs[-1]["ev"] = {"n": rng.randint(1, 3), "irq": rng.choice([None, None, None, rng.randint(1, 31)])}
    return specs


def build_soc(case, rng, specs, init_files):
    plat = _Platform()
    rom_size = rng.choice([0, 0x100, 0x400])
    sram_size = rng.choice([0x100, 0x400, 0x1000])
    main_size = rng.choice([0, 0x200, 0x800])
    VerifCPU.reserved_n = rng.choice([0, 0, 5, 31])
    kw = dict(cpu_type="verifcpu" if case.get("cpu") else None, with_uart=False, with_timer=False, ident="", with_ctrl=True,
              integrated_rom_size=rom_size, integrated_rom_init=init_files.get("rom", []),
              integrated_sram_size=sram_size, integrated_main_ram_size=main_size,
              csr_data_width=case["csr_dw"], csr_ordering=case["ordering"], csr_paging=case["paging"],
              bus_standard=case["standard"], bus_data_width=case["bus_dw"], bus_interconnect=case["interconnect"], bus_timeout=128)
    soc = SoCCore(plat, 1e6, **kw)
    # extra RAMs of sizes that are not powers of two, each requested right behind the previous one's declared end, i.e. inside the
    # previous one's decoded (power-of-two) window: LiteX has to refuse that request (the harness then asks for the next free
    # aligned place). A region accepted there answers together with its neighbour, which the memory-region replay sees.
    soc.declared_constants = {}
    for k_ in range(rng.choice([0, 1, 3])):
        # ... and by the designer (SoC.add_constant): numbers, strings, flags without value
        cn, cv = "VERIF_CONST%d" % k_, rng.choice([None, 0, 42, rng.getrandbits(20), "text%d" % k_])
        soc.add_constant(cn, cv)
        soc.declared_constants[cn] = cv
    soc.main_ram_image = False
    soc.oversize = None
    if main_size and rng.random() < 0.4:
        # an image that does not fit (one to three bus words too long) has to be refused: its last bytes have no place to go
        nbw = case["bus_dw"] // 8
        nwords = main_size // nbw + rng.choice([1, 2, 3])
        try:
            soc.init_ram("main_ram", contents=[rng.getrandbits(case["bus_dw"]) for _ in range(nwords)])
            soc.oversize = {"accepted": True, "image_bytes": nwords * nbw, "memory_bytes": main_size, "bus_data_width": case["bus_dw"]}
            soc.main_ram.mem.init = []
        except SoCError:
            env.restore_stderr()
            soc.oversize = {"accepted": False}
    if main_size and init_files.get("main_ram") and 4 * len(init_files["main_ram"]) <= main_size and rng.random() < 0.7:
        soc.init_ram("main_ram", contents=init_files["main_ram"])
        soc.main_ram_image = True
    soc.extra_rams = []
    soc.extra_ram_refusals = 0
    if rng.random() < 0.6:
        nxt = 0x20000000
        for i in range(rng.choice([2, 2, 3])):
            name = "xram%d" % i
            size = rng.choice([0x140, 0x180, 0x300, 0x500, 0x600, 0x200])
            p2 = 1 << (size - 1).bit_length()
            nxt = (nxt + p2 - 1) & ~(p2 - 1)          # aligned on its own decoded size (anything else is refused at finalize anyway)
            try:
                soc.add_ram(name, origin=nxt, size=size)
            except SoCError:
                env.restore_stderr()
                soc.extra_ram_refusals += 1
                for d_ in (soc.bus.slaves, soc.bus.regions):
                    d_.pop(name, None)
                nxt = (nxt + 0xfff) & ~0xfff
                soc.add_ram(name, origin=nxt, size=size)
            soc.extra_rams.append(name)
            nxt = soc.bus.regions[name].origin + size
    objs = {}
    for sp in specs:
        class Per(Module, AutoCSR):
            pass
        p = Per()
        for r in sp["regs"]:
            if r["kind"] == "storage" and r.get("fields"):
                o = CSRStorage(fields=[CSRField(f["name"], size=f["size"], offset=f["offset"], reset=f["reset"]) for f in r["fields"]],
                               name=r["name"])
            elif r["kind"] == "storage":
                o = CSRStorage(r["size"], reset=r["reset"], atomic_write=r["atomic"], name=r["name"])
            else:
                o = CSRStatus(r["size"], reset=r["reset"], name=r["name"])
            setattr(p, "_" + r["name"], o)
            objs[sp["name"] + "_" + r["name"]] = (r, o)
        if sp["mem"]:
            p.mem = Memory(sp["mem"]["width"], sp["mem"]["depth"], init=[rng.getrandbits(sp["mem"]["width"]) for _ in range(sp["mem"]["depth"])],
                           name="mem")
            p.specials += p.mem
            objs[sp["name"] + "_mem"] = ({"kind": "mem"}, p.mem)
        if sp.get("ev"):
            p.submodules.ev = EventManager()
            p.triggers = []
            for j in range(sp["ev"]["n"]):
                src = EventSourcePulse(name="e%d" % j)
                setattr(p.ev, "e%d" % j, src)
                p.triggers.append(src.trigger)
            p.ev.finalize()
            objs[sp["name"] + "_ev"] = ({"kind": "ev", "n": sp["ev"]["n"]}, p)
        if rng.random() < 0.4:
            # a constant published by the peripheral (CSRConstant) ...
            kv = rng.choice([0, 1, 7, 255, rng.getrandbits(16), rng.getrandbits(31)])
            p.kconst = CSRConstant(kv, name="k0")
            soc.declared_constants[(sp["name"] + "_k0").upper()] = kv
        setattr(soc.submodules, sp["name"], p)
        if sp.get("csr_loc") is not None:
            try:
                soc.csr.add(sp["name"], n=sp["csr_loc"])
            except Exception:
                env.restore_stderr()          # taken: the allocator will place it
        if sp.get("ev") and soc.irq.enabled:
            try:
                if sp["ev"]["irq"] is not None:
                    soc.irq.add(sp["name"], n=sp["ev"]["irq"])
                else:
                    soc.irq.add(sp["name"], use_loc_if_exists=True)
            except Exception:
                # the designer's fixed number was refused (taken / reserved): let the handler allocate
                env.restore_stderr()
                soc.irq.add(sp["name"], use_loc_if_exists=True)
    tb = wishbone.Interface(data_width=32, address_width=32, addressing="word")
    soc.bus.add_master("tb", master=tb)
    soc.finalize()
    env.restore_stderr()
    return soc, tb, objs


# ------------------------------------------------------------------------------------ parsing
def parse_header(text):
    """{'defines': {name: value}, 'read': {reg: [(addr, shift_before)...]}, 'write': {reg: [(shift, addr)...]}, 'ctype': {reg: bits}}"""
    defs = {}
    m = re.search(r"#define CSR_BASE (0x[0-9a-fA-F]+)L", text)
    base = int(m.group(1), 16) if m else 0
    for m in re.finditer(r"#define (CSR_\w+_(?:ADDR|SIZE|BASE)) (.+)", text):
        val = m.group(2).strip()
        mm = re.match(r"\(CSR_BASE \+ (0x[0-9a-fA-F]+)L\)", val)
        if mm:
            defs[m.group(1)] = base + int(mm.group(1), 16)
        elif re.match(r"^(0x[0-9a-fA-F]+)L?$", val):
            defs[m.group(1)] = int(val.rstrip("L"), 16)
        elif val.isdigit():
            defs[m.group(1)] = int(val)
    reads, writes, ctype = {}, {}, {}
    for m in re.finditer(r"static inline (uint\d+_t) (\w+)_read\(void\) \{\n(.*?)\n\}", text, re.S):
        body = m.group(3)
        seq, shift = [], 0
        for line in body.split("\n"):
            s = re.search(r"r <<= (\d+);", line)
            if s:
                shift = int(s.group(1))
            a = re.search(r"csr_read_simple\(\(CSR_BASE \+ (0x[0-9a-fA-F]+)L\)\)", line)
            if a:
                seq.append((base + int(a.group(1), 16), shift))
                shift = 0
        if seq:
            reads[m.group(2)] = seq
            ctype[m.group(2)] = int(re.search(r"\d+", m.group(1)).group(0))
    for m in re.finditer(r"static inline void (\w+)_write\((uint\d+_t) v\) \{\n(.*?)\n\}", text, re.S):
        seq = []
        for line in m.group(3).split("\n"):
            a = re.search(r"csr_write_simple\(v(?: >> (\d+))?, \(CSR_BASE \+ (0x[0-9a-fA-F]+)L\)\)", line)
            if a:
                seq.append((int(a.group(1) or 0), base + int(a.group(2), 16)))
        if seq:
            writes[m.group(1)] = seq
    fdefs = {}
    for m in re.finditer(r"#define CSR_(\w+)_(OFFSET|SIZE) (\d+)\n", text):
        if not m.group(1).endswith(("_ADDR", "_BASE")):
            fdefs.setdefault(m.group(1).lower(), {})[m.group(2)] = int(m.group(3))
    facc = {}
    for m in re.finditer(r"static inline uint32_t (\w+)_replace\(uint32_t oldword, uint32_t plain_value\) \{\n\tuint32_t mask = 0x([0-9a-f]+);\n"
                         r"\treturn \(oldword & \(~\(mask << (\d+)\)\)\) \| \(\(mask & plain_value\) << (\d+)\);", text):
        facc[m.group(1)] = {"mask": int(m.group(2), 16), "clear_shift": int(m.group(3)), "set_shift": int(m.group(4))}
    for m in re.finditer(r"static inline uint32_t (\w+)_extract\(uint32_t oldword\) \{\n\tuint32_t mask = 0x([0-9a-f]+);\n"
                         r"\treturn \(\(oldword >> (\d+)\) & mask\);", text):
        facc.setdefault(m.group(1), {}).update({"xmask": int(m.group(2), 16), "xshift": int(m.group(3))})
    return {"defines": defs, "read": reads, "write": writes, "ctype": ctype, "csr_base": base, "field_defines": fdefs, "field_accessors": facc}


def export_all(soc, use_builder, tmpdir):
    out = {}
    if use_builder:
        b = Builder(soc, output_dir=tmpdir, compile_software=False, compile_gateware=False,
                    csr_json=os.path.join(tmpdir, "csr.json"), csr_csv=os.path.join(tmpdir, "csr.csv"), csr_svd=os.path.join(tmpdir, "csr.svd"))
        b._prepare_rom_software = lambda *a, **k: None
        os.makedirs(b.include_dir, exist_ok=True)
        os.makedirs(b.generated_dir, exist_ok=True)
        b._generate_includes(with_bios=False)
        b._generate_csr_map()
        env.restore_stderr()
        out["json"] = open(os.path.join(tmpdir, "csr.json")).read()
        out["csv"] = open(os.path.join(tmpdir, "csr.csv")).read()
        out["svd"] = open(os.path.join(tmpdir, "csr.svd")).read()
        out["header"] = open(os.path.join(b.generated_dir, "csr.h")).read()
        out["mem_header"] = open(os.path.join(b.generated_dir, "mem.h")).read()
        out["soc_header"] = open(os.path.join(b.generated_dir, "soc.h")).read()
    else:
        out["json"] = export.get_csr_json(soc.csr_regions, soc.constants, soc.mem_regions)
        out["csv"] = export.get_csr_csv(soc.csr_regions, soc.constants, soc.mem_regions)
        out["svd"] = export.get_csr_svd(soc)
        out["header"] = export.get_csr_header(soc.csr_regions, soc.constants, soc.mem_regions["csr"].origin,
                                              with_fields_access_functions=True)
        out["soc_header"] = export.get_soc_header(soc.constants)
        out["mem_header"] = export.get_mem_header(soc.mem_regions)
    return out


# ------------------------------------------------------------------------------------ one SoC
def run_soc(case):
    rng = rng_for(case["seed"])
    nper = rng.randint(2, 4)
    specs = gen_periph_specs(rng, nper, with_irq=bool(case.get("cpu")))
    tmpdir = tempfile.mkdtemp(prefix="c14_", dir=os.environ.get("VERIF_TMP", "/tmp"))
    errs = []
    st = {"regs": 0, "reads": 0, "writes": 0, "memw": 0, "xfmt": 0, "socs": 0}
    try:
        rom_bytes = bytes(rng.getrandbits(8) for _ in range(rng.choice([16, 33, 64])))
        romfile = os.path.join(tmpdir, "rom.bin")
        open(romfile, "wb").write(rom_bytes)
        # the ROM image is handed over as a word list or as a file name (SoCCore then converts it itself); main_ram gets an image
        # through SoC.init_ram
        rom_init = romfile if rng.random() < 0.5 else get_mem_data(romfile, data_width=case["bus_dw"], endianness="little")
        ram_bytes = bytes(rng.getrandbits(8) for _ in range(rng.choice([8, 20, 37, 64])))
        ramfile = os.path.join(tmpdir, "ram.bin")
        open(ramfile, "wb").write(ram_bytes)
        soc, tb, objs = build_soc(case, rng, specs, {"rom": rom_init, "main_ram": get_mem_data(ramfile, data_width=case["bus_dw"],
                                                                                               endianness="little")})
        st["socs"] = 1
        ex = export_all(soc, rng.random() < 0.5, tmpdir)
    finally:
        shutil.rmtree(tmpdir, ignore_errors=True)
    js = json.loads(ex["json"])
    hd = parse_header(ex["header"])
    if getattr(soc, "oversize", None):
        st["oversize"] = 1
        if soc.oversize["accepted"]:
            errs.append(dict(soc.oversize, kind="image-larger-than-the-memory-accepted[dw%d]" % soc.oversize["bus_data_width"]))
    # ---- cross-format agreement
    csv_regs = {}
    csv_mem = {}
    for line in ex["csv"].splitlines():
        f = line.split(",")
        if f[0] == "csr_register":
            csv_regs[f[1]] = (int(f[2], 16), int(f[3]), f[4])
        elif f[0] == "memory_region":
            csv_mem[f[1]] = (int(f[2], 16), int(f[3]))
    for name, r in js["csr_registers"].items():
        st["xfmt"] += 1
        if csv_regs.get(name) != (r["addr"], r["size"], r["type"]):
            errs.append({"kind": "json-csv-disagree", "register": name, "json": r, "csv": csv_regs.get(name)})
        a = hd["defines"].get("CSR_%s_ADDR" % name.upper())
        s = hd["defines"].get("CSR_%s_SIZE" % name.upper())
        if a != r["addr"] or s != r["size"]:
            errs.append({"kind": "json-header-disagree", "register": name, "json": r, "header": [a, s]})
    svd = ET.fromstring(ex["svd"])
    svd_regs = {}
    for per in svd.iter("peripheral"):
        pbase = int(per.find("baseAddress").text, 16)
        pname = per.find("name").text.lower()
        for reg in per.iter("register"):
            svd_regs[pname + "_" + reg.find("name").text.lower()] = pbase + int(reg.find("addressOffset").text, 16)
    for name, r in js["csr_registers"].items():
        # multi-word registers appear in the SVD as NAME<i> sub-registers: compare the first published address
        cands = [v for k_, v in svd_regs.items() if k_ == name or re.fullmatch(re.escape(name) + r"\d+", k_)]
        st["xfmt"] += 1
        if cands and min(cands) != r["addr"]:
            errs.append({"kind": "json-svd-disagree", "register": name, "json_addr": r["addr"], "svd_addrs": sorted(cands)[:4]})
    for name, m in js["memories"].items():
        st["xfmt"] += 1
        if csv_mem.get(name) != (m["base"], m["size"]):
            errs.append({"kind": "json-csv-memory-disagree", "memory": name})
        mm = re.search(r"#define %s_BASE 0x([0-9a-f]+)L\n#define %s_SIZE 0x([0-9a-f]+)" % (name.upper(), name.upper()), ex["mem_header"])
        if not mm or (int(mm.group(1), 16), int(mm.group(2), 16)) != (m["base"], m["size"]):
            errs.append({"kind": "json-memheader-disagree", "memory": name})
    # constants declared by the designer / by peripherals: published with their value in every format
    csv_const_all = {}
    for line in ex["csv"].splitlines():
        f = line.split(",")
        if f[0] == "constant":
            csv_const_all[f[1]] = f[2]
    for cn, cv in sorted(getattr(soc, "declared_constants", {}).items()):
        st["xfmt"] += 1
        st["consts"] = st.get("consts", 0) + 1
        j_ = js["constants"].get(cn.lower(), "<absent>")
        c_ = csv_const_all.get(cn.lower(), "<absent>")
        mm = re.search(r"^#define %s(?: (.*))?$" % re.escape(cn), ex["soc_header"], re.M)
        h_ = "<absent>" if not mm else mm.group(1)
        exp_h = None if cv is None else ('"%s"' % cv if isinstance(cv, str) else str(cv))
        exp_c = "" if cv is None else str(cv)
        if j_ != cv or h_ != exp_h or (c_ != exp_c and not (cv is None and c_ in ("None", ""))):
            errs.append({"kind": "constant-published-with-another-value", "constant": cn, "declared": cv, "json": j_, "csv": c_, "soc_h": h_})
    # interrupt numbers: JSON constants, CSV constants and soc.h must agree; the allocator's table is what the wiring used
    irq_pub = {}
    if case.get("cpu"):
        csv_const = {}
        for line in ex["csv"].splitlines():
            f = line.split(",")
            if f[0] == "constant":
                csv_const[f[1]] = f[2]
        for name, (r, o) in sorted(objs.items()):
            if r["kind"] != "ev":
                continue
            per = name[:-3]
            cname = per + "_interrupt"
            st["xfmt"] += 1
            j_ = js["constants"].get(cname)
            c_ = csv_const.get(cname)
            mm = re.search(r"#define %s (\d+)" % cname.upper(), ex["soc_header"])
            h_ = int(mm.group(1)) if mm else None
            if j_ is None or c_ is None or h_ is None or not (int(j_) == int(c_) == h_):
                errs.append({"kind": "interrupt-number-formats-disagree", "peripheral": per, "json": j_, "csv": c_, "soc_h": h_})
            else:
                irq_pub[per] = h_
    errs = errs[:3]
    # ---- simulation: replay accessors
    storages = {n: o for n, (r, o) in objs.items() if r["kind"] == "storage"}
    statuses = {n: o for n, (r, o) in objs.items() if r["kind"] == "status"}
    watch = [o.storage for o in storages.values()] + [o.status for o in statuses.values()]
    if case.get("cpu"):
        watch.append(soc.cpu.interrupt)
    busword = case["csr_dw"]
    sim_errs = []
    mems = {}
    for name in ["rom", "sram", "main_ram"] + list(getattr(soc, "extra_rams", [])):
        if name in js["memories"] and hasattr(soc, name):
            mems[name] = getattr(soc, name).mem
        elif name.startswith("xram"):
            sim_errs.append({"kind": "memory-region-not-published", "memory": name})

    def script():
        # main_ram image loaded with SoC.init_ram: the byte a little-endian CPU reads at address a is byte a of the file
        if getattr(soc, "main_ram_image", False) and "main_ram" in js["memories"]:
            base = js["memories"]["main_ram"]["base"]
            for a in range(0, len(ram_bytes) & ~3, 4):
                res = yield ("read", (base + a) >> 2)
                exp_ = int.from_bytes(ram_bytes[a:a + 4], "little")
                st["memw"] += 1
                st["ram_image_words"] = st.get("ram_image_words", 0) + 1
                if res.get("hung") or res["dat_r"] != exp_:
                    sim_errs.append({"kind": "ram-image-byte-at-wrong-address-or-lane", "address": a, "expected": hex(exp_),
                                     "read": hex(res["dat_r"]) if res["dat_r"] is not None else None})
                    break
        # registers
        for name, (r, o) in sorted(objs.items()):
            if r["kind"] in ("mem", "ev"):
                continue
            if name not in js["csr_registers"]:
                sim_errs.append({"kind": "register-not-published", "register": name})
                continue
            pub = js["csr_registers"][name]
            size = r["size"]
            mask = (1 << size) - 1
            st["regs"] += 1
            if size > 64 and name not in hd["write"] and name not in hd["read"]:
                # no C accessor for this width: software walks the published address word by word in the configured ordering
                nr = (size + busword - 1) // busword
                order = [(nr - 1 - k) if case["ordering"] == "big" else k for k in range(nr)]
                if r["kind"] == "storage":
                    hd["write"][name] = [(order[k] * busword, pub["addr"] + 4 * k) for k in range(nr)]
                    hd["ctype"][name] = size
                wide_read = [(pub["addr"] + 4 * k, order[k] * busword) for k in range(nr)]
                st["wide"] = st.get("wide", 0) + 1
            else:
                wide_read = None
            if r["kind"] == "storage" and name in hd["write"]:
                val = rng.getrandbits(hd["ctype"].get(name, 64)) | 1
                before = yield ("call", lambda s: {n: umask(x.storage, s.sample[x.storage]) for n, x in storages.items()})
                for (shift, addr) in hd["write"][name]:
                    res = yield ("write", addr >> 2, (val >> shift) & 0xffffffff)
                    st["writes"] += 1
                    if res.get("hung"):
                        sim_errs.append({"kind": "accessor-write-never-acknowledged", "register": name, "address": addr})
                        return
                yield ("wait", 4)
                after = yield ("call", lambda s: {n: umask(x.storage, s.sample[x.storage]) for n, x in storages.items()})
                if after[name] != (val & mask):
                    sim_errs.append({"kind": "accessor-write-did-not-set-the-register", "register": name, "published": pub,
                                     "written": hex(val & mask), "storage_now": hex(after[name]), "accessor": hd["write"][name]})
                others = [n for n in storages if n != name and after[n] != before[n]]
                if others:
                    sim_errs.append({"kind": "accessor-write-changed-another-register", "register": name, "changed": others[:3]})
                expect = after[name]
                for f in r.get("fields", []):
                    fsig = getattr(o.fields, f["name"])
                    fd = hd["field_defines"].get(name + "_" + f["name"])
                    st["fields"] = st.get("fields", 0) + 1
                    if not fd or "OFFSET" not in fd or "SIZE" not in fd:
                        sim_errs.append({"kind": "field-not-published", "register": name, "field": f["name"]})
                        continue
                    hw = yield ("call", lambda s, fsig=fsig: umask(fsig, s.bench.sim.evaluator.signal_values.get(fsig, fsig.reset.value)))
                    if hw != (after[name] >> fd["OFFSET"]) & ((1 << fd["SIZE"]) - 1) or len(fsig) != fd["SIZE"]:
                        sim_errs.append({"kind": "published-field-position-differs-from-hardware", "register": name, "field": f["name"],
                                         "published": fd, "register_holds": hex(after[name]), "hardware_field_holds": hex(hw),
                                         "hardware_field_bits": len(fsig)})
                    fa = hd["field_accessors"].get(name + "_" + f["name"])
                    if fa and "mask" in fa and name in hd["read"] and name in hd["write"]:
                        # <reg>_<field>_write(v) as generated: read the register, replace the field, write the register back
                        v = rng.getrandbits(f["size"] + 2)
                        old = 0
                        for (addr, shift) in hd["read"][name]:
                            res = yield ("read", addr >> 2)
                            old = ((old << shift) | res["dat_r"]) & 0xffffffff
                        new = ((old & ~(fa["mask"] << fa["clear_shift"])) | ((fa["mask"] & v) << fa["set_shift"])) & 0xffffffff
                        for (shift, addr) in hd["write"][name]:
                            yield ("write", addr >> 2, (new >> shift) & 0xffffffff)
                        yield ("wait", 4)
                        hw_all = yield ("call", lambda s, o=o, r=r: {g["name"]: s.bench.sim.evaluator.signal_values.get(
                            getattr(o.fields, g["name"]), getattr(o.fields, g["name"]).reset.value) for g in r["fields"]})
                        st["field_writes"] = st.get("field_writes", 0) + 1
                        exp_all = {g["name"]: (old >> g["offset"]) & ((1 << g["size"]) - 1) for g in r["fields"]}
                        exp_all[f["name"]] = v & ((1 << f["size"]) - 1)
                        if hw_all != exp_all:
                            sim_errs.append({"kind": "field-accessor-write-sets-other-bits-than-the-field", "register": name, "field": f["name"],
                                             "accessor": fa, "written": v, "fields_now": hw_all, "expected": exp_all})
                        xm = (new >> fa.get("xshift", fa["set_shift"])) & fa.get("xmask", fa["mask"])
                        if xm != v & ((1 << f["size"]) - 1):
                            sim_errs.append({"kind": "field-accessor-extract-differs-from-field", "register": name, "field": f["name"],
                                             "accessor": fa, "extracted": xm})
                        expect = new & mask
            elif r["kind"] == "status":
                expect = rng.getrandbits(size)
                yield ("call", lambda s, o=o, e=expect: s.forced.__setitem__(o.status, e))
                yield ("wait", 2)
            else:
                expect = None
            if wide_read is not None and expect is not None:
                got = 0
                for (addr, lsb) in wide_read:
                    res = yield ("read", addr >> 2)
                    st["reads"] += 1
                    if res.get("hung"):
                        sim_errs.append({"kind": "accessor-read-never-acknowledged", "register": name, "address": addr})
                        return
                    got |= (res["dat_r"] & ((1 << busword) - 1)) << lsb
                if got != expect:
                    sim_errs.append({"kind": "accessor-read-returns-other-value", "register": name, "published": pub,
                                     "register_holds": hex(expect), "accessor_returned": hex(got), "accessor": wide_read})
            elif name in hd["read"] and expect is not None:
                got = 0
                for (addr, shift) in hd["read"][name]:
                    res = yield ("read", addr >> 2)
                    st["reads"] += 1
                    if res.get("hung"):
                        sim_errs.append({"kind": "accessor-read-never-acknowledged", "register": name, "address": addr})
                        return
                    word = res["dat_r"]
                    got = ((got << shift) | word) & ((1 << 64) - 1)
                if got != expect:
                    sim_errs.append({"kind": "accessor-read-returns-other-value", "register": name, "published": pub,
                                     "register_holds": hex(expect), "accessor_returned": hex(got), "accessor": hd["read"][name]})
            if len(sim_errs) >= 3:
                return
        # interrupts: the published number is the bit of the CPU's interrupt vector that rises for this peripheral, alone
        for per, n in sorted(irq_pub.items()):
            r, p_ = objs[per + "_ev"]
            en, pe = per + "_ev_enable", per + "_ev_pending"
            if en not in hd["write"] or pe not in hd["write"]:
                sim_errs.append({"kind": "event-manager-accessor-missing", "peripheral": per})
                continue
            for (shift, addr) in hd["write"][en]:
                yield ("write", addr >> 2, (((1 << r["n"]) - 1) >> shift) & 0xffffffff)
            for j in range(r["n"]):
                trig = p_.triggers[j]
                yield ("call", lambda s, t=trig: s.forced.__setitem__(t, 1))
                yield ("wait", 1)
                yield ("call", lambda s, t=trig: s.forced.__setitem__(t, 0))
                yield ("wait", 3)
                vec = yield ("call", lambda s: umask(soc.cpu.interrupt, s.sample[soc.cpu.interrupt]))
                st["irqs"] = st.get("irqs", 0) + 1
                if vec != (1 << n):
                    dbg = yield ("call", lambda s, p_=p_: {"pending": s.bench.sim.evaluator.signal_values.get(p_.ev.pending.status),
                                                           "enable": s.bench.sim.evaluator.signal_values.get(p_.ev.enable.storage),
                                                           "irq": s.bench.sim.evaluator.signal_values.get(p_.ev.irq)})
                    sim_errs.append({"kind": "interrupt-raised-on-other-line-than-published", "peripheral": per, "published_number": n,
                                     "source": j, "cpu_interrupt_vector": bin(vec), "event_manager": dbg})
                    break
                for (shift, addr) in hd["write"][pe]:
                    yield ("write", addr >> 2, ((1 << j) >> shift) & 0xffffffff)
                yield ("wait", 3)
                vec = yield ("call", lambda s: umask(soc.cpu.interrupt, s.sample[soc.cpu.interrupt]))
                if vec != 0:
                    sim_errs.append({"kind": "interrupt-line-not-released-by-published-pending-accessor", "peripheral": per,
                                     "published_number": n, "source": j, "cpu_interrupt_vector": bin(vec)})
                    break
            for (shift, addr) in hd["write"][en]:
                yield ("write", addr >> 2, 0)
            if len(sim_errs) >= 3:
                return
        # CSR memories (published as csr_bases)
        for name, (r, mem) in sorted(objs.items()):
            if r["kind"] != "mem":
                continue
            base = js["csr_bases"].get(name)
            if base is None:
                sim_errs.append({"kind": "csr-memory-not-published", "memory": name})
                continue
            wpm = (mem.width + busword - 1) // busword
            for k in (0, mem.depth - 1):
                val = rng.getrandbits(mem.width) | 1
                # big-endian sub-words: most significant chunk at the lowest address
                for j in range(wpm):
                    res = yield ("write", (base + 4 * (k * wpm + j)) >> 2, (val >> (busword * (wpm - 1 - j))) & ((1 << busword) - 1))
                    if res.get("hung"):
                        sim_errs.append({"kind": "csr-memory-write-never-acknowledged", "memory": name})
                        return
                yield ("wait", 3)
                got = yield ("call", lambda s, mem=mem, k=k: mem_word(s.bench, mem, k))
                st["memw"] += 1
                if got != val:
                    sim_errs.append({"kind": "csr-memory-window-maps-elsewhere", "memory": name, "published_base": base, "word": k,
                                     "written": hex(val), "memory_holds": hex(got)})
                    break
        # memory regions: first and last word
        for name, mem in mems.items():
            reg = js["memories"][name]
            nb = mem.width // 8
            for byte_off in (0, reg["size"] - 4):
                widx = byte_off // nb
                lane = (byte_off % nb) // 4
                if widx >= mem.depth:
                    continue
                st["memw"] += 1
                if name != "rom":
                    val = rng.getrandbits(32) | 1
                    others_before = yield ("call", lambda s, name=name: {n: mem_all(s.bench, m_) for n, m_ in mems.items() if n != name})
                    res = yield ("write", (reg["base"] + byte_off) >> 2, val)
                    if res.get("hung") or res["err"]:
                        sim_errs.append({"kind": "memory-region-write-not-acknowledged", "memory": name, "offset": byte_off})
                        return
                    yield ("wait", 3)
                    got = yield ("call", lambda s, mem=mem, widx=widx: mem_word(s.bench, mem, widx))
                    if (got >> (32 * lane)) & 0xffffffff != val:
                        sim_errs.append({"kind": "memory-region-maps-elsewhere", "memory": name, "published": reg, "offset": byte_off,
                                         "written": hex(val), "memory_word": hex(got)})
                        break
                    others_after = yield ("call", lambda s, name=name: {n: mem_all(s.bench, m_) for n, m_ in mems.items() if n != name})
                    st["mem_others"] = st.get("mem_others", 0) + len(others_after)
                    ch = [n for n in others_after if others_after[n] != others_before[n]]
                    if ch:
                        sim_errs.append({"kind": "memory-region-write-changed-another-memory", "memory": name, "published": reg,
                                         "offset": byte_off, "also_changed": ch,
                                         "their_regions": {n: js["memories"][n] for n in ch}})
                        break
                res = yield ("read", (reg["base"] + byte_off) >> 2)
                if res.get("hung"):
                    sim_errs.append({"kind": "memory-region-read-not-acknowledged", "memory": name, "offset": byte_off})
                    return
                held = yield ("call", lambda s, mem=mem, widx=widx: mem_word(s.bench, mem, widx))
                if res["dat_r"] != (held >> (32 * lane)) & 0xffffffff:
                    sim_errs.append({"kind": "memory-region-read-returns-other-word", "memory": name, "offset": byte_off,
                                     "read": hex(res["dat_r"]), "memory_word": hex(held)})
                    break
        # ROM image: the byte a little-endian CPU reads at address a is byte a of the file
        if "rom" in mems:
            base = js["memories"]["rom"]["base"]
            for a in range(0, min(len(rom_bytes), js["memories"]["rom"]["size"]) & ~3, 4):
                res = yield ("read", (base + a) >> 2)
                exp_ = int.from_bytes(rom_bytes[a:a + 4], "little")
                st["memw"] += 1
                if res.get("hung") or res["dat_r"] != exp_:
                    sim_errs.append({"kind": "rom-image-byte-at-wrong-address-or-lane", "address": a, "expected": hex(exp_),
                                     "read": hex(res["dat_r"]) if res["dat_r"] is not None else None})
                    break

    def mem_all(bench, mem):
        arr = bench.sim.evaluator.replaced_memories.get(mem)
        sv = bench.sim.evaluator.signal_values
        return tuple(sv.get(x, x.reset.value) for x in arr) if arr is not None else None

    def mem_word(bench, mem, k):
        arr = bench.sim.evaluator.replaced_memories.get(mem)
        sv = bench.sim.evaluator.signal_values
        s = arr[k]
        return umask(s, sv.get(s, s.reset.value))
    agent = WBScript(tb, script(), watch=watch, max_wait=600)
    agent.forced = {}
    bench = Bench(soc, cap=40000)
    agent.bench = bench

    class Forcer:
        """keeps harness-owned status inputs at the values chosen by the script"""
        def signals(self):
            return []

        def step(self, v, c):
            return dict(agent.forced) if agent.forced else None
    bench.add(agent)
    bench.add(Forcer())
    ok = bench.run()
    if not ok and not sim_errs:
        sim_errs.append({"kind": "harness-cycle-cap"})
    return {"errs": (errs + sim_errs)[:4], "st": st, "cycles": bench.cycle["sys"], "nregs": len(js["csr_registers"]),
            "xram_refusals": getattr(soc, "extra_ram_refusals", 0),
            "sample": {"csr_bases": js["csr_bases"], "memories": js["memories"],
                       "some_registers": dict(list(js["csr_registers"].items())[:4])}}


# ------------------------------------------------------------------------------------ memory images
def run_image(case):
    rng = rng_for(case["seed"])
    dw, endian = case["dw"], case["endianness"]
    nb = dw // 8
    n = rng.choice([1, 3, 4, 5, 8, 17, 32, 61, 64, 100])
    data = bytes(rng.getrandbits(8) for _ in range(n))
    tmpdir = tempfile.mkdtemp(prefix="c14_", dir=os.environ.get("VERIF_TMP", "/tmp"))
    try:
        fn = os.path.join(tmpdir, "img.bin")
        open(fn, "wb").write(data)
        words = get_mem_data(fn, data_width=dw, endianness=endian)
    finally:
        shutil.rmtree(tmpdir, ignore_errors=True)
    errs = []
    checked = 0
    # a CPU of the stated endianness reads byte a from lane (a mod nb) [little] or lane (nb-1 - a mod nb) [big] of bus word a//nb
    for a, byte in enumerate(data):
        w = words[a // nb] if a // nb < len(words) else None
        lane = a % nb if endian == "little" else nb - 1 - (a % nb)
        checked += 1
        got = None if w is None else (w >> (8 * lane)) & 0xff
        if got != byte:
            errs.append({"kind": "image-byte-in-wrong-lane[%s,dw%d]" % (endian, dw), "file_offset": a, "byte": byte, "found_in_lane": got,
                         "word": hex(w) if w is not None else None})
            break
    return {"errs": errs, "st": {"regs": 0, "reads": 0, "writes": 0, "memw": 0, "xfmt": 0, "socs": 0, "img": checked}, "cycles": 0,
            "nregs": 0, "sample": {"file_bytes": list(data[:8]), "words": [hex(x) for x in words[:2]]}}


def run_case(case):
    return run_soc(case) if case["kind"] == "soc" else run_image(case)


def run_shard(shard):
    col = Collector(shard["cls"])
    for case in shard["cases"]:
        r = col.guard(case, run_case, case)
        env.restore_stderr()
        if r is None:
            continue
        st = r["st"]
        col.ev("registers_replayed", st["regs"])
        col.ev("accessor_reads", st["reads"])
        col.ev("registers_wider_than_64_bits", st.get("wide", 0))
        col.ev("fields_located", st.get("fields", 0))
        col.ev("other_memories_checked_after_region_write", st.get("mem_others", 0))
        col.ev("ram_image_words_read_back", st.get("ram_image_words", 0))
        col.ev("oversize_images_offered", st.get("oversize", 0))
        col.ev("declared_constants_compared", st.get("consts", 0))
        col.ev("extra_ram_requests_inside_a_neighbours_window_refused", r.get("xram_refusals", 0))
        col.ev("field_accessor_writes_replayed", st.get("field_writes", 0))
        col.ev("interrupts_raised_and_located", st.get("irqs", 0))
        col.ev("accessor_writes", st["writes"])
        col.ev("mem_region_words_checked", st["memw"])
        col.ev("cross_format_entries_compared", st["xfmt"])
        col.ev("socs_built", st["socs"])
        col.ev("image_bytes_checked", st.get("img", 0))
        col.ev("sim_cycles", r["cycles"])
        if case["kind"] == "soc":
            col.cov("soc_configs", "%s/dw%d/%s/csr%d/%s/p%x" % (case["standard"], case["bus_dw"], case["interconnect"], case["csr_dw"],
                                                                 case["ordering"], case["paging"]))
            tag = "csr%d-%s" % (case["csr_dw"], case["ordering"])
        else:
            tag = "image"
        for e in r["errs"][:1]:
            if e["kind"] == "harness-cycle-cap":
                col.inconc(case, "cycle cap reached")
                continue
            col.violation("%s/%s" % (tag, e["kind"]), case, "%s: %s" % ({k: v for k, v in case.items() if k != "seed"}, e),
                          {"errors": r["errs"]})
        col.case_done(case, st["regs"] >= 8 or st.get("img", 0) >= 4, sample={"case": case, "published": r["sample"], "counters": st})
    return col.result()
