"""C15 - event manager: irq == pending & enable, no lost or foreign-cleared events. Online invariants
every cycle + per-source reference model + attribution of every clear to a software write-one."""
from migen import *

from litex.soc.interconnect import csr_bus
from litex.soc.interconnect.csr import AutoCSR
from litex.soc.interconnect.csr_eventmanager import (EventManager, EventSourcePulse, EventSourceProcess, EventSourceLevel,
                                                      SharedIRQ)

from lib.collect import Collector, rng_for, h
from lib.bench.kernel import Bench, umask
from props import c15_clients

LEVEL = "exploration"
RULE = ("one case = 1..2 event managers with 1..12 sources of random kinds (pulse / rising / falling / level) behind a real CSR bank "
        "(bus 8 or 32 bit, big/little) x trigger waveforms x software writes to pending/enable. Software writes a register the way the "
        "generated accessors do (all words in sequence); class 'partial-word' additionally writes single words of a multi-word pending "
        "register. The offset between a trigger and the clear of the same source is swept over -4..+4 cycles (the lost-interrupt window) on "
        "top of random traffic. Every cycle: irq == |(pending & enable), status == raw level (0 for pulse), pending follows the reference "
        "model (set has priority over clear), every cycle of a source's clear input is attributed to one software write-one of its bit "
        "and to nothing else. Non-trivial = >= 5 clears and >= 5 events; distinct = distinct case digests. Class 'client': the real "
        "clients named by the property (UART tx/rx, Timer zero, GPIOIn/GPIOTristate edge/change interrupts) behind a CSR bank, driven by a "
        "software model (main loop + interrupt handler following LiteX's own driver protocol, handler latency 0..15 cycles); same "
        "per-cycle invariants on the client's sources, the client's trigger against its documented meaning, and end to end: work the "
        "interrupt announces is never left waiting with irq low while software is outside its handler, bytes read/written exactly once "
        "and in order, every expiry / pin event handed to the handler once")
ASSUMPTIONS = ["migen tracer shim (names only)", "the documented clear input of an event source is observed to time 'coinciding with the clear'",
               "software clears with whole-register accessor writes in the main classes"]
FLOORS = {"quick": {"cycles_checked": 150000, "events_set": 8000, "clears_attributed": 3000, "trigger_clear_coincidences": 300,
                    "irq_checks": 150000, "n_offsets_swept": 9, "client_cycles": 25000, "client_isr_entries": 800,
                    "client_events": 1500, "client_stranded_checks": 8000, "client_uart_rx_bytes": 500, "client_uart_tx_bytes": 500,
                    "client_timer_expiries_acknowledged": 300, "client_gpio_trigger_checks": 40000,
                    "client_trigger_clear_coincidences": 60},
          "thorough": {"cycles_checked": 3000000, "events_set": 150000, "clears_attributed": 60000, "trigger_clear_coincidences": 6000,
                       "irq_checks": 3000000, "n_offsets_swept": 9, "client_cycles": 500000, "client_isr_entries": 16000,
                       "client_events": 30000, "client_stranded_checks": 160000, "client_uart_rx_bytes": 10000,
                       "client_uart_tx_bytes": 10000, "client_timer_expiries_acknowledged": 6000,
                       "client_gpio_trigger_checks": 800000, "client_trigger_clear_coincidences": 1200}}
SHARD_TIMEOUT = {"quick": 900, "thorough": 3000}
N_SAMPLES = 3


def plan(tier, seed):
    n = 270 if tier == "quick" else 5400
    cases = []
    for k in range(n):
        cases.append({"dw": [8, 32][k % 2], "ordering": ["big", "little"][(k // 2) % 2], "offset": (k // 4) % 9 - 4,
                      "cls": "partial-word" if k % 9 == 8 else "accessor", "seed": "%d/C15/%d" % (seed, k)})
    ns = 48 if tier == "quick" else 160
    shards = [{"id": "ev%03d" % i, "cls": "event", "cases": cases[i::ns]} for i in range(ns)]
    cc = c15_clients.plan_cases(tier, seed)
    nc = 16 if tier == "quick" else 64
    shards += [{"id": "client%02d" % i, "cls": "client", "cases": cc[i::nc]} for i in range(nc)]
    return shards


def run_case(case):
    rng = rng_for(case["seed"])
    dw, ordering = case["dw"], case["ordering"]
    nman = rng.choice([1, 1, 2])
    top = Module()

    class Holder(Module, AutoCSR):
        pass
    hold = Holder()
    top.submodules.hold = hold
    mans = []
    for mi in range(nman):
        ev = EventManager()
        ns = rng.choice([1, 2, 3, 5, 8, 9, 12]) if case["cls"] == "accessor" else rng.choice([9, 12])
        if case["cls"] == "partial-word":
            dw = 8
        srcs = []
        for i in range(ns):
            kind = rng.choice(["pulse", "pulse", "rising", "falling", "level"])
            if kind == "pulse":
                s = EventSourcePulse(name="s%d" % i)
            elif kind == "level":
                s = EventSourceLevel(name="s%d" % i)
            else:
                s = EventSourceProcess(name="s%d" % i, edge=kind)
            setattr(ev, "s%d" % i, s)
            srcs.append((kind, s))
        ev.finalize()
        setattr(hold.submodules, "ev%d" % mi, ev)
        mans.append((ev, srcs))
    shared = SharedIRQ(*[m[0] for m in mans])
    top.submodules.shared = shared
    bus = csr_bus.Interface(data_width=dw, address_width=14)
    csrs = hold.get_csrs()
    top.submodules.bank = bank = csr_bus.CSRBank(csrs, 0, bus=bus, ordering=ordering)
    # address of every simple csr word: name -> list of (address, word index i) in address order
    amap = {}
    for a, sc in enumerate(bank.simple_csrs):
        amap[a] = sc
    regs = {}
    for mi, (ev, srcs) in enumerate(mans):
        n = len(srcs)
        nw = (n + dw - 1) // dw
        for rname, obj in (("status", ev.status), ("pending", ev.pending), ("enable", ev.enable)):
            words = [a for a, sc in amap.items() if sc in obj.get_simple_csrs()]
            idx = list(reversed(range(nw))) if ordering == "big" else list(range(nw))
            regs[(mi, rname)] = list(zip(sorted(words), idx))
    ncyc = case.get("cycles", 700)
    off = case["offset"]
    errs = []
    st = {"cyc": 0, "set": 0, "clr": 0, "coinc": 0, "irq": 0, "lost_window": 0}

    class TB:
        def __init__(self):
            self.c = 0
            self.queue = []                 # pending bus operations [(adr, we, dat_w)]
            self.model = {}                 # (mi, i) -> pending model
            self.trig_prev = {}
            self.write1_log = {}            # (mi, i) -> list of cycles at which the committing word with bit i = 1 was written
            self.clear_cycles = {}
            self.trig_plan = {}             # cycle -> list of (sig, value)
            self.trig_val = {}
            self.sigs = [bus.adr, bus.we, bus.dat_w, bus.dat_r, shared.irq]
            for mi, (ev, srcs) in enumerate(mans):
                self.sigs += [ev.irq, ev.enable.storage, ev.pending.status, ev.status.status]
                for i, (kind, s) in enumerate(srcs):
                    self.sigs += [s.trigger, s.pending, s.clear, s.status]
                    self.model[(mi, i)] = 0
                    self.trig_prev[(mi, i)] = 0
                    self.write1_log[(mi, i)] = []
                    self.clear_cycles[(mi, i)] = []
                    self.trig_val[(mi, i)] = 0
            self.partial_r = {}             # what software last wrote into every pending word (mi -> {word idx: value})

        def signals(self):
            return self.sigs

        def done(self):
            return self.c >= ncyc

        def sw_write(self, mi, rname, value, only_word=None):
            ops = []
            for (a, i) in regs[(mi, rname)]:
                if only_word is not None and i != only_word:
                    continue
                ops.append((a, 1, (value >> (i * dw)) & ((1 << dw) - 1), (mi, rname, i, value)))
            return ops

        def step(self, v, c):
            self.c = c
            st["cyc"] += 1
            # ---- checks on the cycle that ended
            adr, we, dat_w = v[bus.adr], v[bus.we], umask(bus.dat_w, v[bus.dat_w])
            irq_all = 0
            for mi, (ev, srcs) in enumerate(mans):
                en = v[ev.enable.storage]
                pend_word = 0
                for i, (kind, s) in enumerate(srcs):
                    trig, pend, clr, stat = v[s.trigger], v[s.pending], v[s.clear], v[s.status]
                    key = (mi, i)
                    pend_word |= pend << i
                    # status: raw level (0 for pulse sources)
                    exp_stat = 0 if kind == "pulse" else trig
                    if stat != exp_stat and len(errs) < 3:
                        errs.append({"kind": "status-not-raw-level", "cycle": c, "source": [mi, i, kind], "status": stat, "trigger": trig})
                    # pending vs reference model
                    if kind == "level":
                        exp_p = trig
                    else:
                        exp_p = self.model[key]
                    if pend != exp_p and len(errs) < 3:
                        errs.append({"kind": "pending-differs-from-model(%s)" % kind, "cycle": c, "source": [mi, i, kind], "pending": pend,
                                     "expected": exp_p, "trigger": trig, "clear": clr})
                        self.model[key] = pend
                    # next-state of the model: set has priority over clear
                    if kind != "level":
                        ev_now = trig if kind == "pulse" else (int(trig and not self.trig_prev[key]) if kind == "rising"
                                                              else int((not trig) and self.trig_prev[key]))
                        nxt = self.model[key]
                        if clr:
                            nxt = 0
                        if ev_now:
                            nxt = 1
                            st["set"] += 1
                            if clr:
                                st["coinc"] += 1
                        self.model[key] = nxt
                    self.trig_prev[key] = trig
                    if clr:
                        self.clear_cycles[key].append(c)
                irq = v[ev.irq]
                st["irq"] += 1
                exp_irq = int((pend_word & en) != 0)
                if irq != exp_irq and len(errs) < 3:
                    errs.append({"kind": "irq-not-pending-and-enabled", "cycle": c, "manager": mi, "irq": irq, "pending": pend_word, "enable": en})
                if v[ev.pending.status] != pend_word and len(errs) < 3:
                    errs.append({"kind": "pending-register-differs-from-sources", "cycle": c, "manager": mi})
                irq_all |= irq
            if v[shared.irq] != irq_all and len(errs) < 3:
                errs.append({"kind": "shared-irq-not-or", "cycle": c})
            # ---- log software write-ones: a write of a pending word requests the clearing of the bits set in THAT word
            if we:
                for mi, (ev, srcs) in enumerate(mans):
                    for (a, i) in regs[(mi, "pending")]:
                        if a == adr:
                            for b in range(i * dw, min(len(srcs), (i + 1) * dw)):
                                if (dat_w >> (b - i * dw)) & 1:
                                    self.write1_log[(mi, b)].append(c)
            # ---- drive
            w = {bus.we: 0}
            if self.queue:
                a, we_, d, _ = self.queue.pop(0)
                w[bus.adr], w[bus.we], w[bus.dat_w] = a, we_, d
            elif rng.random() < 0.25:
                mi = rng.randrange(nman)
                n = len(mans[mi][1])
                r = rng.random()
                if r < 0.5:
                    val = rng.choice([rng.getrandbits(n), 1 << rng.randrange(n), (1 << n) - 1])
                    if case["cls"] == "partial-word" and rng.random() < 0.5:
                        self.queue += self.sw_write(mi, "pending", val, only_word=rng.randrange((n + dw - 1) // dw))
                    else:
                        self.queue += self.sw_write(mi, "pending", val)
                        # aligned trigger for the swept offset: fire a source being cleared `off` cycles around the commit
                        tgt = [b for b in range(n) if (val >> b) & 1]
                        if tgt:
                            b = rng.choice(tgt)
                            commit_in = len(self.queue)             # cycles until the last word is on the bus
                            t = c + 1 + commit_in + off + 1         # +1: the clear input is raised the cycle after the commit
                            if t > c + 1:
                                self.trig_plan.setdefault(t, []).append((mi, b))
                elif r < 0.85:
                    self.queue += self.sw_write(mi, "enable", rng.choice([rng.getrandbits(n), (1 << n) - 1, 0]))
                else:
                    a, _ = rng.choice(regs[(mi, rng.choice(["status", "pending", "enable"]))])
                    w[bus.adr] = a
            # triggers
            for mi, (ev, srcs) in enumerate(mans):
                for i, (kind, s) in enumerate(srcs):
                    key = (mi, i)
                    val = self.trig_val[key]
                    if kind in ("pulse",):
                        val = int(rng.random() < 0.03)
                    elif rng.random() < 0.04:
                        val = 1 - val
                    if (mi, i) in self.trig_plan.get(c + 1, []):
                        val = 1 if kind in ("pulse", "rising", "level") else 0
                        if kind == "rising" and self.trig_val[key] == 1:
                            val = 1       # already high: no new edge possible this cycle
                        st["lost_window"] += 1
                    self.trig_val[key] = val
                    w[s.trigger] = val
            self.trig_plan.pop(c, None)
            return w
    tb = TB()
    bench = Bench(top, cap=ncyc + 20)
    bench.add(tb)
    bench.run()
    # ---- attribution of clears: every cycle in which a source's clear input was high must be caused by one software
    # write-one of this bit made no more than (words of the register + 2) cycles earlier, and every write-one causes exactly
    # one clear cycle (one-to-one matching in order)
    for key, cyc in tb.clear_cycles.items():
        w1 = list(tb.write1_log[key])
        st["clr"] += len(cyc)
        nw = (len(mans[key[0]][1]) + dw - 1) // dw
        wi = 0
        bad = None
        for cc in cyc:
            while wi < len(w1) and cc - w1[wi] > nw + 2:
                bad = bad or {"kind": "software-write-one-did-not-clear-in-time", "source": list(key), "write_cycle": w1[wi],
                              "next_clear_cycle": cc, "class": case["cls"]}
                wi += 1
            if wi < len(w1) and 0 < cc - w1[wi] <= nw + 2:
                wi += 1
            else:
                bad = bad or {"kind": "clear-without-software-write-one-of-this-bit", "source": list(key), "clear_cycle": cc,
                              "recent_write_one_cycles": [x for x in tb.write1_log[key] if x < cc][-3:], "class": case["cls"]}
        if bad is None and any(x < ncyc - nw - 4 for x in w1[wi:]):
            bad = {"kind": "software-write-one-did-not-clear-in-time", "source": list(key), "write_cycle": w1[wi], "class": case["cls"]}
        if bad and not any(e["kind"] == bad["kind"] for e in errs):
            errs.append(bad)
    return {"errs": errs[:3], "st": st, "nsrc": sum(len(m[1]) for m in mans),
            "kinds": [[k for k, _ in m[1]] for m in mans]}


def run_shard(shard):
    col = Collector(shard["cls"])
    for case in shard["cases"]:
        if "client" in case:
            col.guard(case, c15_clients.run_client_case, col, case)
            continue
        r = col.guard(case, run_case, case)
        if r is None:
            continue
        st = r["st"]
        col.ev("cycles_checked", st["cyc"] * r["nsrc"])
        col.ev("events_set", st["set"])
        col.ev("clears_attributed", st["clr"])
        col.ev("trigger_clear_coincidences", st["coinc"])
        col.ev("irq_checks", st["irq"])
        col.ev("aligned_triggers", st["lost_window"])
        col.cov("offsets_swept", case["offset"])
        col.cov("configs", "dw%d/%s/%s" % (case["dw"], case["ordering"], case["cls"]))
        for e in r["errs"][:1]:
            col.violation("eventmanager/%s/%s" % (case["cls"], e["kind"]), case, "dw=%d %s offset=%d: %s" % (
                case["dw"], case["ordering"], case["offset"], e), {"errors": r["errs"], "source_kinds": r["kinds"]})
        col.case_done(case, st["clr"] >= 5 and st["set"] >= 5,
                      sample={"case": case, "source_kinds": r["kinds"], "counters": st})
    return col.result()
