"""C15, client classes: the event managers of the real clients named by the property (UART tx/rx, Timer zero, GPIO edge/change)
driven by a software model (main loop + interrupt service routine over a real CSR bank) that follows the protocol of LiteX's own
drivers. Monitors: (1) the per-cycle event-manager invariants of props/c15.py on the client's sources (irq == |(pending & enable),
pending == reference model with set-over-clear priority, status == raw level), (2) the client's trigger against its documented
meaning (UART: tx = 'FIFO not full', rx = 'FIFO not empty'; Timer: count at zero; GPIO: edge / change of the synchronised input as
selected by the mode/edge registers), (3) end to end, "no interrupt is lost": work the interrupt exists to announce (a byte in the rx
FIFO, room in the tx FIFO a blocked writer waits for, a timer expiry, a pin event) is never left waiting with the interrupt line low
while software is outside its handler, every received byte is read exactly once and in order, every byte software wrote leaves the
UART exactly once and in order, every timer expiry / pin event is seen by the handler."""
from migen import *

from litex.soc.cores.uart import UART
from litex.soc.cores.timer import Timer
from litex.soc.cores.gpio import GPIOIn, GPIOTristate
from litex.soc.interconnect.csr_eventmanager import EventSourcePulse, EventSourceLevel

from lib.collect import rng_for
from lib.bench.kernel import Bench
from lib.bench import stream as bs
from props.c19lib import CSRTop, CSRMaster, Viol, Tracer


class EvMon:
    """Per-cycle invariants of one EventManager whose sources have the given kinds ({name: 'rising'|'falling'|'pulse'|'level'})."""
    def __init__(self, ev, kinds, viol, tag):
        self.ev, self.viol, self.tag = ev, viol, tag
        srcs = sorted([v for k, v in vars(ev).items() if hasattr(v, "trigger") and hasattr(v, "pending") and hasattr(v, "clear")],
                      key=lambda s: s.duid)
        self.srcs = [(s.name, kinds[s.name], s) for s in srcs]
        self.model = {n: 0 for n, _, _ in self.srcs}
        self.prev = {n: 0 for n, _, _ in self.srcs}
        self.sets = {n: 0 for n, _, _ in self.srcs}         # model 0 -> 1 transitions (events software has to see)
        self.coinc = 0
        self.cycles = 0
        self.first = True
        self.sigs = [ev.irq, ev.enable.storage, ev.pending.status, ev.status.status]
        for _, _, s in self.srcs:
            self.sigs += [s.trigger, s.pending, s.clear, s.status]

    def signals(self):
        return self.sigs

    def step(self, v, c):
        self.cycles += 1
        en = v[self.ev.enable.storage]
        word = 0
        for i, (name, kind, s) in enumerate(self.srcs):
            trig, pend, clr, stat = v[s.trigger], v[s.pending], v[s.clear], v[s.status]
            word |= pend << i
            exp_stat = 0 if kind == "pulse" else trig
            if stat != exp_stat:
                self.viol.add(self.tag + "/status-not-raw-level", "cycle %d source %s" % (c, name), cycle=c, source=name)
            exp = trig if kind == "level" else self.model[name]
            if pend != exp:
                self.viol.add(self.tag + "/pending-differs-from-model(%s)" % kind, "cycle %d source %s pending=%d expected=%d" % (
                    c, name, pend, exp), cycle=c, source=name, pending=pend, expected=exp, trigger=trig, clear=clr)
                self.model[name] = pend
            if kind != "level":
                p = self.prev[name]
                evn = trig if kind == "pulse" else (int(trig and not p) if kind == "rising" else int((not trig) and p))
                nxt = self.model[name]
                if clr:
                    nxt = 0
                if evn:
                    if clr:
                        self.coinc += 1
                    if nxt == 0:
                        self.sets[name] += 1
                    nxt = 1
                self.model[name] = nxt
            self.prev[name] = trig
        if v[self.ev.irq] != int((word & en) != 0):
            self.viol.add(self.tag + "/irq-not-pending-and-enabled", "cycle %d irq=%d pending=%x enable=%x" % (c, v[self.ev.irq], word, en),
                          cycle=c)
        if v[self.ev.pending.status] != word:
            self.viol.add(self.tag + "/pending-register-differs-from-sources", "cycle %d" % c, cycle=c)
        return None


class IrqLine:
    """What the CPU sees of the interrupt line (sampled value of the last cycle), and whether software is in its handler."""
    def __init__(self, irq):
        self.sig, self.level, self.in_isr, self.c = irq, 0, False, 0

    def signals(self):
        return [self.sig]

    def step(self, v, c):
        self.level, self.c = v[self.sig], c
        return None


# ---------------------------------------------------------------------------------------------------- UART
def uart_case(col, case):
    rng = rng_for(case["seed"])
    txd, rxd = rng.choice([2, 4, 8, 16]), rng.choice([2, 4, 8, 16])
    dut = UART(phy=None, tx_fifo_depth=txd, rx_fifo_depth=rxd)
    top = CSRTop(dut)
    viol = Viol()
    nrx, ntx = case["nrx"], case["ntx"]
    rx_bytes = [(17 * k + 3) & 0xff for k in range(nrx)]
    tx_bytes = [(29 * k + 7) & 0xff for k in range(ntx)]
    toks = [{"first": 0, "last": 0, "pay": (b,), "par": ()} for b in rx_bytes]
    prod = bs.SourceDriver(dut.sink, toks, bs.make_sched(rng, rng.choice(["b10", "b50", "b90", "always", "bursts", "longstall"]))[0], rng, garbage=True)
    cons = bs.SinkDriver(dut.source, bs.make_sched(rng, rng.choice(["b10", "b50", "b90", "always", "bursts", "longstall"]))[0])
    in_mon = bs.EndpointMonitor(dut.sink, "phy->uart")
    out_mon = bs.EndpointMonitor(dut.source, "uart->phy", check_stability=True)
    evm = EvMon(dut.ev, {"tx": "rising", "rx": "rising"}, viol, "uart")
    irq = IrqLine(dut.ev.irq)
    got = []
    sw = {"tx_left": list(tx_bytes), "tx_blocked": False, "isr_entries": 0, "spurious": 0, "polls": 0}
    EV_TX, EV_RX = 1, 2          # tx was declared first (duid order)
    lat = case["isr_latency"]

    def isr():
        irq.in_isr = True
        sw["isr_entries"] += 1
        stat = (yield ("r", "ev_pending", None))[2]
        en = (yield ("r", "ev_enable", None))[2]
        if not (stat & en):
            sw["spurious"] += 1
        if stat & EV_RX:
            while True:
                e = (yield ("r", "rxempty", None))[2]
                if e:
                    break
                b = (yield ("r", "rxtx", None))[2]
                got.append(b)
                yield ("w", "ev_pending", EV_RX)
                if rng.random() < 0.3:
                    yield ("idle", rng.randint(1, 4))
        if stat & EV_TX:
            yield ("w", "ev_pending", EV_TX)
            while sw["tx_left"]:
                f = (yield ("r", "txfull", None))[2]
                if f:
                    break
                yield ("w", "rxtx", sw["tx_left"].pop(0))
            sw["tx_blocked"] = bool(sw["tx_left"])
        yield ("idle", 2)                              # return from interrupt
        irq.in_isr = False

    def prog():
        yield ("w", "ev_pending", 3)
        yield ("w", "ev_enable", 3)
        idle_left = 0
        while True:
            if irq.level:
                if lat:
                    yield ("idle", rng.randint(1, lat))
                yield from isr()
                continue
            if len(got) >= nrx and not sw["tx_left"]:
                idle_left += 1
                if (len(out_mon.log) >= ntx and idle_left > 20) or idle_left > 1500:     # the slowest consumer drains 16 bytes in < 500 cycles
                    return
            # main level: blocking putc of LiteX's driver (write when not full, else leave it to the tx interrupt)
            if sw["tx_left"] and not sw["tx_blocked"] and rng.random() < 0.5:
                irq.in_isr = True                      # the driver masks the interrupt around its tx bookkeeping
                f = (yield ("r", "txfull", None))[2]
                if f:
                    sw["tx_blocked"] = True
                else:
                    yield ("w", "rxtx", sw["tx_left"].pop(0))
                irq.in_isr = False
            else:
                sw["polls"] += 1
                yield ("idle", rng.randint(1, 3))
    master = CSRMaster(top, prog(), gap=1)      # as behind Wishbone2CSR: never back to back (a status read right behind a write would be stale)

    class Stranded:
        """work waiting, interrupt line low, software outside its handler: nobody will ever come"""
        def __init__(self):
            self.rx_run = self.tx_run = 0
            self.rx_checks = self.tx_checks = 0

        def signals(self):
            return [dut.rx_fifo.source.valid, dut.tx_fifo.sink.ready, dut.ev.irq, dut.ev.enable.storage]

        def step(self, v, c):
            en = v[dut.ev.enable.storage]
            quiet = not irq.in_isr and not v[dut.ev.irq]
            if v[dut.rx_fifo.source.valid] and (en & EV_RX):
                self.rx_checks += 1
                self.rx_run = self.rx_run + 1 if quiet else 0
                if self.rx_run == 6:
                    viol.add("uart/rx-byte-waiting-without-interrupt", "cycle %d: a byte has been in the rx FIFO for 6 cycles, irq is low and "
                             "software is outside its handler" % c, cycle=c)
            else:
                self.rx_run = 0
            if sw["tx_blocked"] and v[dut.tx_fifo.sink.ready] and (en & EV_TX):
                self.tx_checks += 1
                self.tx_run = self.tx_run + 1 if quiet else 0
                if self.tx_run == 6:
                    viol.add("uart/tx-room-without-interrupt", "cycle %d: the writer waits for the tx interrupt, the FIFO has had room for "
                             "6 cycles and irq is low" % c, cycle=c)
            else:
                self.tx_run = 0
            return None
    strand = Stranded()
    tr = Tracer([("rx_valid", dut.rx_fifo.source.valid), ("rx_ready", dut.rx_fifo.source.ready), ("tx_room", dut.tx_fifo.sink.ready),
                 ("rx_trig", dut.ev.rx.trigger), ("rx_pend", dut.ev.rx.pending), ("rx_clr", dut.ev.rx.clear),
                 ("tx_trig", dut.ev.tx.trigger), ("tx_pend", dut.ev.tx.pending), ("tx_clr", dut.ev.tx.clear), ("irq", dut.ev.irq),
                 ("adr", top.bus.adr), ("we", top.bus.we), ("dat_w", top.bus.dat_w)], depth=40)
    viol.tracer = tr

    class Trig:
        """documented meaning of the two triggers"""
        def signals(self):
            return [dut.ev.tx.trigger, dut.ev.rx.trigger, dut.tx_fifo.sink.ready, dut.rx_fifo.source.valid]

        def step(self, v, c):
            if v[dut.ev.tx.trigger] != v[dut.tx_fifo.sink.ready]:
                viol.add("uart/tx-trigger-is-not-fifo-not-full", "cycle %d" % c, cycle=c)
            if v[dut.ev.rx.trigger] != v[dut.rx_fifo.source.valid]:
                viol.add("uart/rx-trigger-is-not-fifo-not-empty", "cycle %d" % c, cycle=c)
            return None
    cap = (nrx + ntx) * 60 + 3000
    b = Bench(top, cap=cap)
    for a in (irq, master, prod, cons, in_mon, out_mon, evm, strand, Trig(), tr):
        b.add(a)
    finished = b.run()
    sent = [e[3][0] for e in out_mon.log]
    acc = [e[3][0] for e in in_mon.log]
    if got != acc[:len(got)] or (finished and got != acc):
        k = next((i for i, (x, y) in enumerate(zip(got, acc)) if x != y), min(len(got), len(acc)))
        viol.add("uart/rx-bytes-read-by-handler-differ", "byte %d: handler read %s, PHY delivered %s (read %d of %d)" % (
            k, got[k:k + 3], acc[k:k + 3], len(got), len(acc)), index=k)
    wrote = tx_bytes[:ntx - len(sw["tx_left"])]
    if sent != wrote[:len(sent)] or (finished and sent != wrote):
        k = next((i for i, (x, y) in enumerate(zip(sent, wrote)) if x != y), min(len(sent), len(wrote)))
        viol.add("uart/tx-bytes-leaving-differ", "byte %d: left %s, software wrote %s" % (k, sent[k:k + 3], wrote[k:k + 3]), index=k)
    if out_mon.stab_viol:
        viol.add("uart/tx-stream-" + out_mon.stab_viol[0]["kind"], str(out_mon.stab_viol[0]))
    if not finished and not viol:
        viol.add("uart/software-never-finished", "cycle cap %d: handler read %d/%d bytes, %d/%d bytes left to write, irq=%d" % (
            cap, len(got), nrx, len(sw["tx_left"]), ntx, irq.level), got=len(got), tx_left=len(sw["tx_left"]))
    col.ev("client_cycles", evm.cycles)
    col.ev("client_uart_rx_bytes", len(got))
    col.ev("client_uart_tx_bytes", len(sent))
    col.ev("client_isr_entries", sw["isr_entries"])
    col.ev("client_events", sum(evm.sets.values()))
    col.ev("client_trigger_clear_coincidences", evm.coinc)
    col.ev("client_stranded_checks", strand.rx_checks + strand.tx_checks)
    col.ev("client_uart_tx_blocked_waits", strand.tx_checks)
    col.cov("client_configs", "uart/tx%d/rx%d/lat%d" % (txd, rxd, lat))
    viol.flush(col, case, tr, extra={"dut": "UART(tx_fifo_depth=%d, rx_fifo_depth=%d)" % (txd, rxd)})
    col.case_done(case, nontrivial=len(got) >= 10 and sw["isr_entries"] >= 3,
                  sample={"case": case, "isr_entries": sw["isr_entries"], "rx": len(got), "tx": len(sent), "events": evm.sets})


# ---------------------------------------------------------------------------------------------------- Timer
def timer_case(col, case):
    rng = rng_for(case["seed"])
    dut = Timer(width=rng.choice([8, 16, 32]))
    top = CSRTop(dut)
    viol = Viol()
    evm = EvMon(dut.ev, {"zero": "rising"}, viol, "timer")
    irq = IrqLine(dut.ev.irq)
    sw = {"acks": 0, "isr_entries": 0, "spurious": 0}
    period = case["period"]
    n_ev = case["events"]

    def prog():
        yield ("w", "en", 0)
        yield ("w", "load", period)
        yield ("w", "reload", period if case["mode"] == "periodic" else 0)
        yield ("w", "ev_pending", 1)
        yield ("w", "ev_enable", 1)
        yield ("idle", 3)
        sw["base"] = evm.sets["zero"]                  # the power-up event (count is 0 out of reset) was cleared above
        yield ("w", "en", 1)
        quiet = 0
        while sw["acks"] < n_ev and quiet < 40 * (period + 4):
            if irq.level:
                quiet = 0
                irq.in_isr = True
                sw["isr_entries"] += 1
                if case["isr_latency"]:
                    yield ("idle", rng.randint(1, case["isr_latency"]))
                stat = (yield ("r", "ev_pending", None))[2]
                if stat & 1:
                    sw["acks"] += 1
                    # pending was seen high: every event that became pending so far has been handed to the handler once
                    if evm.sets["zero"] - sw["base"] != sw["acks"] and "mismatch" not in sw:
                        sw["mismatch"] = (evm.sets["zero"] - sw["base"], sw["acks"], irq.c)
                    yield ("w", "ev_pending", 1)
                else:
                    sw["spurious"] += 1
                yield ("idle", 2)                      # return from interrupt
                irq.in_isr = False
                if case["mode"] == "oneshot":
                    yield ("w", "en", 0)
                    yield ("w", "load", period)
                    yield ("idle", rng.randint(1, 5))
                    yield ("w", "en", 1)
            else:
                quiet += 1
                yield ("idle", 1)
        yield ("idle", 4)
    master = CSRMaster(top, prog(), gap=1)      # as behind Wishbone2CSR: never back to back (a status read right behind a write would be stale)
    tr = Tracer([("en", dut._en.storage), ("zero", dut.ev.zero.trigger), ("pend", dut.ev.zero.pending), ("clr", dut.ev.zero.clear),
                 ("irq", dut.ev.irq), ("adr", top.bus.adr), ("we", top.bus.we), ("dat_w", top.bus.dat_w)], depth=40)
    viol.tracer = tr

    class Stranded:
        run = 0
        checks = 0

        def signals(self):
            return [dut.ev.zero.pending, dut.ev.irq, dut.ev.enable.storage]

        def step(self, v, c):
            if evm.model["zero"] and v[dut.ev.enable.storage] & 1:
                self.checks += 1
                self.run = self.run + 1 if (not v[dut.ev.irq] and not irq.in_isr) else 0
                if self.run == 4:
                    viol.add("timer/expiry-without-interrupt", "cycle %d: the timer expired, nobody acknowledged it and irq is low" % c, cycle=c)
            else:
                self.run = 0
            return None
    strand = Stranded()
    cap = n_ev * (period + 40) * 3 + 2000
    b = Bench(top, cap=cap)
    for a in (irq, master, evm, strand, tr):
        b.add(a)
    finished = b.run()
    sets = evm.sets["zero"] - sw.get("base", 0)
    # every expiry that made the event pending is seen by the handler exactly once (judged each time the handler sees pending high)
    if "mismatch" in sw:
        viol.add("timer/expiries-and-acknowledged-interrupts-differ", "cycle %d: %d events had become pending, the handler was in its %d. "
                 "acknowledge" % (sw["mismatch"][2], sw["mismatch"][0], sw["mismatch"][1]), sets=sw["mismatch"][0], acks=sw["mismatch"][1])
    if not finished and not viol:
        viol.add("timer/software-never-finished", "cycle cap: %d of %d expiries handled, irq=%d" % (sw["acks"], n_ev, irq.level))
    col.ev("client_cycles", evm.cycles)
    col.ev("client_isr_entries", sw["isr_entries"])
    col.ev("client_events", sets)
    col.ev("client_timer_expiries_acknowledged", sw["acks"])
    col.ev("client_trigger_clear_coincidences", evm.coinc)
    col.ev("client_stranded_checks", strand.checks)
    col.cov("client_configs", "timer/%s/p%d/lat%d" % (case["mode"], period, case["isr_latency"]))
    viol.flush(col, case, tr, extra={"dut": "Timer()"})
    col.case_done(case, nontrivial=sw["acks"] >= 3, sample={"case": case, "acks": sw["acks"], "events": sets,
                                                           "coincidences": evm.coinc})


# ---------------------------------------------------------------------------------------------------- GPIO
def gpio_case(col, case):
    rng = rng_for(case["seed"])
    n = case["pins"]
    if case["kind"] == "in":
        pads = Signal(n)
        dut = GPIOIn(pads, with_irq=True)
        pin = pads
    else:
        pads = Record([("o", n), ("oe", n), ("i", n)])
        dut = GPIOTristate(pads, with_irq=True)
        pin = pads.i
    top = CSRTop(dut)
    viol = Viol()
    kinds = {"i%d" % i: "rising" for i in range(n)}
    evm = EvMon(dut.ev, kinds, viol, "gpio")
    irq = IrqLine(dut.ev.irq)
    sw = {"seen": [0] * n, "isr_entries": 0, "cfg_writes": 0}
    ncyc = case["cycles"]

    def prog():
        mode, edge = rng.getrandbits(n), rng.getrandbits(n)
        yield ("w", "mode", mode)
        yield ("w", "edge", edge)
        yield ("idle", 4)
        yield ("w", "ev_pending", (1 << n) - 1)
        yield ("w", "ev_enable", rng.choice([(1 << n) - 1, (1 << n) - 1, rng.getrandbits(n) | 1]))
        while irq.c < ncyc:
            if irq.level:
                irq.in_isr = True
                sw["isr_entries"] += 1
                if case["isr_latency"]:
                    yield ("idle", rng.randint(1, case["isr_latency"]))
                stat = (yield ("r", "ev_pending", None))[2]
                for i in range(n):
                    sw["seen"][i] += (stat >> i) & 1
                yield ("w", "ev_pending", stat)
                yield ("idle", 2)                      # return from interrupt
                irq.in_isr = False
            elif rng.random() < 0.02:
                sw["cfg_writes"] += 1
                which = rng.choice(["mode", "edge", "ev_enable"])
                yield ("w", which, rng.getrandbits(n) | (1 if which == "ev_enable" else 0))
            else:
                yield ("idle", 1)
        yield ("idle", 2)
    master = CSRMaster(top, prog(), gap=1)      # as behind Wishbone2CSR: never back to back (a status read right behind a write would be stale)
    status = dut._in.status

    class Pins:
        """pin waveforms: every pin holds its level for at least 2 cycles (a synchronised input cannot do less and be seen)"""
        def __init__(self):
            self.val = rng.getrandbits(n)
            self.hold = [0] * n

        def signals(self):
            return []

        def step(self, v, c):
            for i in range(n):
                if self.hold[i] > 0:
                    self.hold[i] -= 1
                elif rng.random() < case["rate"]:
                    self.val ^= 1 << i
                    self.hold[i] = rng.choice([1, 1, 2, 5, 20])
            return {pin: self.val}

    class Trig:
        """documented meaning of the per-pin trigger: mode 1 = any change of the (synchronised) input, mode 0 = the input's
        rising edge (edge 0) or falling edge (edge 1). The rising-edge event source sees 'input xor edge' in edge mode."""
        def __init__(self):
            self.prev = None
            self.checks = 0
            self.changes = 0
            self.edges = 0

        def signals(self):
            return [status, dut._mode.storage, dut._edge.storage] + [getattr(dut.ev, "i%d" % i).trigger for i in range(n)]

        def step(self, v, c):
            s, m, e = v[status], v[dut._mode.storage], v[dut._edge.storage]
            if self.prev is not None:
                for i in range(n):
                    si, pi = (s >> i) & 1, (self.prev >> i) & 1
                    exp = (si ^ pi) if (m >> i) & 1 else (si ^ ((e >> i) & 1))
                    self.checks += 1
                    self.changes += (si ^ pi) & (m >> i) & 1
                    self.edges += (si ^ pi) & ~(m >> i) & 1
                    if v[getattr(dut.ev, "i%d" % i).trigger] != exp:
                        viol.add("gpio/trigger-differs-from-selected-mode", "cycle %d pin %d: mode=%d edge=%d input %d->%d trigger=%d" % (
                            c, i, (m >> i) & 1, (e >> i) & 1, pi, si, 1 - exp), cycle=c, pin=i)
            self.prev = s
            return None
    trig = Trig()

    class Stranded:
        run = 0
        checks = 0

        def signals(self):
            return [dut.ev.irq, dut.ev.enable.storage]

        def step(self, v, c):
            word = sum(evm.model["i%d" % i] << i for i in range(n))
            if word & v[dut.ev.enable.storage]:
                self.checks += 1
                self.run = self.run + 1 if (not v[dut.ev.irq] and not irq.in_isr) else 0
                if self.run == 4:
                    viol.add("gpio/pin-event-without-interrupt", "cycle %d: an enabled pin event is outstanding and irq is low" % c, cycle=c)
            else:
                self.run = 0
            return None
    strand = Stranded()
    tr = Tracer([("in", status), ("mode", dut._mode.storage), ("edge", dut._edge.storage), ("pending", dut.ev.pending.status),
                 ("enable", dut.ev.enable.storage), ("irq", dut.ev.irq), ("adr", top.bus.adr), ("we", top.bus.we),
                 ("dat_w", top.bus.dat_w)], depth=30)
    viol.tracer = tr
    b = Bench(top, cap=ncyc + 400)
    for a in (irq, master, Pins(), evm, trig, strand, tr):
        b.add(a)
    finished = b.run()
    # every event that became pending was handed to the handler (at most one per pin still outstanding at the end)
    for i in range(n):
        s_ = evm.sets["i%d" % i]
        if sw["seen"][i] > s_:
            viol.add("gpio/handler-saw-more-events-than-occurred", "pin %d: %d events, handler saw %d" % (i, s_, sw["seen"][i]), pin=i)
    if not finished and not viol:
        col.inconc(case, "cycle cap in the GPIO bench (harness)")
    if case["kind"] == "tristate":
        pass
    col.ev("client_cycles", evm.cycles)
    col.ev("client_isr_entries", sw["isr_entries"])
    col.ev("client_events", sum(evm.sets.values()))
    col.ev("client_gpio_trigger_checks", trig.checks)
    col.ev("client_gpio_change_mode_events", trig.changes)
    col.ev("client_gpio_edge_mode_events", trig.edges)
    col.ev("client_trigger_clear_coincidences", evm.coinc)
    col.ev("client_stranded_checks", strand.checks)
    col.cov("client_configs", "gpio-%s/%d/lat%d" % (case["kind"], n, case["isr_latency"]))
    viol.flush(col, case, tr, extra={"dut": "GPIO%s(%d pins, with_irq=True)" % (case["kind"], n)})
    col.case_done(case, nontrivial=sw["isr_entries"] >= 3, sample={"case": case, "isr_entries": sw["isr_entries"],
                                                                  "events": sum(evm.sets.values()), "config_writes": sw["cfg_writes"]})


def plan_cases(tier, seed):
    n = 60 if tier == "quick" else 1200
    cases = []
    for k in range(n):
        sd = "%d/C15/client/%d" % (seed, k)
        lat = [0, 2, 6, 15][k % 4]
        if k % 3 == 0:
            cases.append({"client": "uart", "nrx": 40, "ntx": 40, "isr_latency": lat, "seed": sd})
        elif k % 3 == 1:
            cases.append({"client": "timer", "mode": ["periodic", "periodic", "oneshot"][(k // 3) % 3], "period": [1, 2, 3, 5, 9, 14, 23][(k // 3) % 7],
                          "events": 25, "isr_latency": lat, "seed": sd})
        else:
            cases.append({"client": "gpio", "kind": ["in", "tristate"][(k // 3) % 2], "pins": [1, 3, 8, 13][(k // 6) % 4],
                          "cycles": 900, "rate": [0.02, 0.1, 0.3][(k // 3) % 3], "isr_latency": lat, "seed": sd})
    return cases


def run_client_case(col, case):
    {"uart": uart_case, "timer": timer_case, "gpio": gpio_case}[case["client"]](col, case)
