"""C16 - packet framing: header byte layout, loop-back identity, PacketFIFO releases only complete
packets with their own params, Arbiter/Dispatcher forward packets atomically."""
from lib.collect import Collector
from props import packetlib

LEVEL = "exploration"
RULE = ("one case = one random header definition (aligned / unaligned / shorter than a word / long; sub-byte and "
        "multi-byte fields; byte swap on/off) x data width 8..128 x packet list (1..13 beats, back-to-back) x valid/ready "
        "schedule, or one PacketFIFO / Arbiter / Dispatcher history with selector changes mid-packet. Handshake logs are "
        "compared with an independent byte-layout model; non-trivial = >= 4 beats delivered; distinct = distinct case digests")
ASSUMPTIONS = ["migen tracer shim (names only)", "header fields wider than 8 bits are multiples of 8 bits (network order is unambiguous)",
               "payload lengths are whole beats (this Packetizer has no last_be)", "packets given to PacketFIFO fit in its payload depth",
               "Dispatcher sel changes only when no beat is stalled on a slave endpoint"]
FLOORS = {"quick": {"packets": 3000, "beats_delivered": 10000, "n_header_defs": 80, "release_checks": 2000, "selector_changes": 300},
          "thorough": {"packets": 40000, "beats_delivered": 150000, "n_header_defs": 1000, "release_checks": 30000, "selector_changes": 4000}}
SHARD_TIMEOUT = {"quick": 900, "thorough": 3000}
N_SAMPLES = 4


def plan(tier, seed):
    cs = packetlib.cases(tier, seed, "C16")
    n = 32 if tier == "quick" else 128
    return [{"id": "pk%03d" % i, "cls": "packet", "cases": cs[i::n]} for i in range(n)]


def run_shard(shard):
    col = Collector(shard["cls"])
    for case in shard["cases"]:
        r = col.guard(case, packetlib.run_case, case)
        if r is not None:
            packetlib.judge(col, case, r, "C16")
    return col.result()
