"""C17 - 8b/10b coding is invertible, DC-balanced and comma-safe (Encoder, Decoder, StreamEncoder,
StreamDecoder of litex/soc/cores/code_8b10b.py executed in the repository's simulator)."""
from lib.collect import Collector, rng_for
from props import c17lib as L

LEVEL = "exploration"
RULE = ("one case = one simulated history of the real Encoder(nwords, lsb_first) wired to nwords real Decoders (or of "
        "StreamEncoder -> [SyncFIFO] -> StreamDecoder, or of a Decoder alone fed all 1024 code words). Classes: 'symbols' = all "
        "268 defined symbols entered under both running disparities (sequence extended adaptively until the monitor has seen all "
        "536 (symbol, disparity) combinations); 'pairs' = chunks of an Euler circuit over (data symbol, disparity) nodes so that "
        "every ordered data pair occurs once per disparity; 'mixed' = random data/control walks with ce patterns, 1..4 words, "
        "msb/lsb first; 'invalid' = every 10-bit word into the Decoder; 'stream_bp' = always-valid producer, stalling consumer; "
        "'stream_gaps' = producer with valid gaps (idle lanes legal / held / garbage). Monitors count bits, scan the serial stream "
        "across symbol boundaries and compare decoded with entered symbols; non-trivial = >= 64 symbols emitted (>= 32 delivered by a stream history, >= 1000 words "
        "for 'invalid'); distinct = distinct case descriptors")
ASSUMPTIONS = ["migen tracer shim (names only)",
               "after reset the running disparity is -1 (disparity flag 0 means RD-)",
               "serial order: msb (bit 9, 'a') first when lsb_first=False, bit 0 first when lsb_first=True; word 0 of a multi-word encoder first",
               "encoder latency is followed by counting ce-high edges (two registered stages + one decoder stage), not by matching values",
               "control inputs are restricted to the 12 defined K symbols; idle-lane garbage with undefined K codes is only used where the line code is not judged"]
FLOORS = {
    "quick": {"symbols_roundtripped": 60000, "n_symbol_x_rd": 536, "n_data_pairs_x_rd": 30000, "run_length_windows_checked": 800000,
              "comma_windows_checked": 500000, "rd_checks": 90000, "disparity_flag_checks": 80000, "n_invalid_words": 2048,
              "invalid_flag_checks": 60000, "stream_histories": 100, "stream_tokens_delivered": 6000, "n_stream_schedules": 30,
              "stream_stalled_cycles": 3000, "ce_low_cycles": 2000, "n_configs": 16, "control_roundtrips": 3000,
              "triples_streamed": 20000, "exhaustive_symbol_sweeps": 8, "pairs_streamed": 32768},
    "thorough": {"symbols_roundtripped": 1200000, "n_symbol_x_rd": 536, "n_data_pairs_x_rd": 131072, "run_length_windows_checked": 20000000,
                 "comma_windows_checked": 14000000, "rd_checks": 2000000, "disparity_flag_checks": 1800000, "n_invalid_words": 2048,
                 "invalid_flag_checks": 1200000, "stream_histories": 2000, "stream_tokens_delivered": 120000, "n_stream_schedules": 40,
                 "stream_stalled_cycles": 200000, "ce_low_cycles": 300000, "n_configs": 16, "control_roundtrips": 300000,
                 "triples_streamed": 2000000, "exhaustive_symbol_sweeps": 24, "pairs_streamed": 262144}}
SHARD_TIMEOUT = {"quick": 900, "thorough": 3000}
N_SAMPLES = 6
EXHAUSTIVE = {
    "quick": "all 256 data + 12 control symbols x both running disparities through Encoder->Decoder for nwords 1..4 x msb/lsb first "
             "(coverage measured by the monitor, a case that misses one of the 536 combinations is inconclusive); all 1024 ten-bit words "
             "x msb/lsb into the Decoder for the invalid flag. Ordered data pairs: a quarter of the Euler circuit (32768 of 131072 "
             "(a, b, disparity) combinations), not exhaustive",
    "thorough": "all 268 symbols x both disparities (nwords 1..4, msb/lsb, three ce patterns); all 1024 code words x msb/lsb x two ce "
                "patterns for the invalid flag; all 65536 ordered data pairs x both running disparities (131072, measured by the "
                "monitor) streamed twice (two differently shuffled Euler circuits, msb and lsb first)"}

N_PAIR_EDGES = 131072


# ------------------------------------------------------------------------------------ plan
def plan(tier, seed):
    q = tier == "quick"
    shards = []
    # symbols
    cs = []
    for nw in (1, 2, 3, 4):
        for lsb in (0, 1):
            for ce in (["always"] if q and (nw + lsb) % 2 else ["b70"] if q else ["always", "b70", "bursts"]):
                cs.append({"kind": "symbols", "nwords": nw, "lsb": lsb, "ce": ce, "seed": "%d/C17/symbols/%d/%d/%s" % (seed, nw, lsb, ce)})
    n = 8 if q else 12
    shards += [{"id": "sym%02d" % i, "cls": "symbols", "cases": cs[i::n]} for i in range(n)]
    # invalid
    cs = [{"kind": "invalid", "lsb": lsb, "ce": ce, "seed": "%d/C17/invalid/%d/%s" % (seed, lsb, ce)}
          for lsb in (0, 1) for ce in ("always", "b60")]
    shards += [{"id": "inv%d" % i, "cls": "invalid", "cases": cs[i::2]} for i in range(2)]
    # pairs
    if q:
        chunk, nchunks, circs = 2048, 16, [("a", None)]
    else:
        chunk, nchunks, circs = 4096, 32, [("a", 0), ("b", 1)]
    for cname, lsbfix in circs:
        for j in range(nchunks):
            lsb = (j & 1) if lsbfix is None else lsbfix
            case = {"kind": "pairs", "circuit": "%d/C17/circuit/%s" % (seed, cname), "lo": j * chunk, "hi": (j + 1) * chunk,
                    "lsb": lsb, "seed": "%d/C17/pairs/%s/%d" % (seed, cname, j)}
            shards.append({"id": "pair%s%02d" % (cname, j), "cls": "pairs", "cases": [case]})
    # mixed
    ncase, nsym, nsh = (32, 800, 16) if q else (600, 2500, 64)
    cs = []
    for i in range(ncase):
        cs.append({"kind": "mixed", "nwords": 1 + i % 4, "lsb": (i >> 2) & 1, "ce": ["always", "b70", "bursts"][i % 3],
                   "n": nsym, "pk": [0.0, 0.1, 0.3, 0.6][(i >> 3) % 4], "seed": "%d/C17/mixed/%d" % (seed, i)})
    shards += [{"id": "mix%02d" % i, "cls": "mixed", "cases": cs[i::nsh]} for i in range(nsh)]
    # stream
    ncase, nsh = (56, 16) if q else (1000, 64)
    bp, gp = [], []
    for i in range(ncase):
        bp.append({"kind": "stream", "gaps": False, "nwords": 1 + i % 4, "mid": ["direct", "fifo"][(i >> 2) & 1], "fill": "legal",
                   "seed": "%d/C17/stream_bp/%d" % (seed, i)})
        gp.append({"kind": "stream", "gaps": True, "nwords": 1 + i % 4, "mid": ["direct", "fifo"][(i >> 2) & 1],
                   "fill": ["legal", "hold", "garbage"][i % 3], "seed": "%d/C17/stream_gaps/%d" % (seed, i)})
    shards += [{"id": "sbp%02d" % i, "cls": "stream_bp", "cases": bp[i::nsh]} for i in range(nsh)]
    shards += [{"id": "sgp%02d" % i, "cls": "stream_gaps", "cases": gp[i::nsh]} for i in range(nsh)]
    shards = [s for s in shards if s["cases"]]
    # long shards first
    order = {"pairs": 0, "mixed": 1, "stream_bp": 2, "stream_gaps": 2, "symbols": 3, "invalid": 4}
    shards.sort(key=lambda s: order[s["cls"]])
    return shards


# ------------------------------------------------------------------------------------ judging helpers
def _line_counts(col, line, stream=False):
    c = line.c
    col.ev("symbols_emitted", c["symbols"])
    col.ev("rd_checks", c["rd_checks"])
    col.ev("disparity_flag_checks", c["flag_checks"])
    col.ev("run_length_windows_checked", c["run_windows"])
    col.ev("comma_windows_checked", c["comma_windows"])
    col.cov("max_equal_bit_run_observed", c["max_run"])
    for x in line.cov:
        col.cov("symbol_x_rd", x)
    col.ev("triples_streamed", max(0, c["symbols"] - 2))
    col.count("distinct_triples_summed_over_cases", len(line.triples))


def _report(col, case, dut, errs, nerr, extra=None):
    for key, lst in errs.items():
        w = {"dut": dut, "first": lst, "occurrences": nerr.get(key, len(lst))}
        if extra:
            w.update(extra)
        col.violation(key, case, "%s: %s (%d occurrences in this history)" % (dut, lst[0], nerr.get(key, len(lst))), w)


def _raw_done(col, case, r, dut, sample=None):
    ag, line = r["agent"], r["line"]
    if r["capped"]:
        col.inconc(case, "cycle cap reached")
    col.ev("sim_cycles", r["cycles"])
    col.ev("symbols_roundtripped", ag.cnt["roundtrips"])
    col.ev("control_roundtrips", ag.cnt["control_roundtrips"])
    col.ev("invalid_flag_checks", ag.cnt["invalid_checks"])
    col.ev("ce_low_cycles", ag.cnt["ce_low_cycles"])
    _line_counts(col, line)
    _report(col, case, dut, ag.errs, ag.nerr)
    _report(col, case, dut, line.errs, line.nerr)


# ------------------------------------------------------------------------------------ classes
def run_symbols(col, case):
    rng = rng_for(case["seed"])
    nw, lsb, ce = case["nwords"], case["lsb"], case["ce"]
    dut = "Encoder(nwords=%d, lsb_first=%s) -> %d x Decoder(lsb_first=%s), ce=%s" % (nw, bool(lsb), nw, bool(lsb), ce)
    col.cov("configs", "nwords=%d/lsb=%d" % (nw, lsb))
    order = list(L.ALL)
    rng.shuffle(order)
    batch = [s for s in order for _ in (0, 1)]
    cov, delta = set(), {}
    batches = 0
    emitted = 0
    for it in range(6):
        r = L.run_raw(batch, nw, lsb, ce, rng)
        batches += 1
        _raw_done(col, case, r, dut)
        cov |= r["line"].cov
        delta.update(r["line"].delta)
        emitted += r["line"].c["symbols"]
        missing = [(s, rd) for s in L.ALL for rd in (0, 1) if s * 2 + rd not in cov]
        if not missing:
            break
        # workload planning from what was observed: a symbol seen to flip the disparity from both states
        flippers = [s for s in L.DATA if delta.get((s, -1)) and delta.get((s, 1))]
        if not flippers:
            break
        batch = []
        for s in sorted(set(m[0] for m in missing)):
            f = rng.choice(flippers)
            batch += [s, f, s, f]
    missing = [(s, rd) for s in L.ALL for rd in (0, 1) if s * 2 + rd not in cov]
    if missing:
        col.inconc(case, "%d (symbol, disparity) combinations never reached the encoder, e.g. %s" % (len(missing), missing[:3]))
    col.ev("exhaustive_symbol_sweeps", 0 if missing else 1)
    col.case_done(case, emitted >= 64, sample={"case": case, "dut": dut, "batches": batches, "symbols_emitted": emitted,
                                               "symbol_x_disparity_seen": len(cov)})


_learn_cache = {}


def learn_unbalanced(lsb):
    """Observed: which data symbols flip the running disparity (workload planning only)."""
    if lsb in _learn_cache:
        return _learn_cache[lsb]
    rng = rng_for("learn")
    seq = [s for s in L.DATA for _ in (0, 1)]
    r = L.run_raw(seq, 1, lsb, "always", rng)
    d = r["line"].delta
    unbal = [1 if (d.get((s, -1)) or d.get((s, 1))) else 0 for s in L.DATA]
    flip = [s for s in L.DATA if d.get((s, -1)) and d.get((s, 1))]
    _learn_cache[lsb] = (unbal, flip, r)
    return _learn_cache[lsb]


def run_pairs(col, case):
    lsb = case["lsb"]
    dut = "Encoder(nwords=1, lsb_first=%s) -> Decoder" % bool(lsb)
    col.cov("configs", "nwords=1/lsb=%d" % lsb)
    unbal, flip, lr = learn_unbalanced(lsb)
    _raw_done(col, case, lr, dut)
    circ = L.euler_pairs(unbal, rng_for(case["circuit"]))
    if len(circ) != N_PAIR_EDGES + 1:
        col.inconc(case, "Euler circuit has %d edges, expected %d" % (len(circ) - 1, N_PAIR_EDGES))
    nodes = circ[case["lo"]:case["hi"] + 1]
    seq = [a for a, _ in nodes]
    if nodes and nodes[0][1] and flip:
        seq = [flip[0]] + seq
    pairs = set()
    r = L.run_raw(seq, 1, lsb, "always", rng_for(case["seed"]), pairs=pairs)
    _raw_done(col, case, r, dut)
    for p in pairs:
        col.cov("data_pairs_x_rd", p)
    col.ev("pairs_streamed", max(0, r["line"].c["symbols"] - 1))
    col.case_done(case, r["line"].c["symbols"] >= 64,
                  sample={"case": case, "dut": dut, "symbols_emitted": r["line"].c["symbols"], "distinct_pairs_x_rd": len(pairs),
                          "first_symbols": [L.sym_name(s) for s in seq[:6]]})


def run_mixed(col, case):
    rng = rng_for(case["seed"])
    nw, lsb, ce = case["nwords"], case["lsb"], case["ce"]
    dut = "Encoder(nwords=%d, lsb_first=%s) -> %d x Decoder, ce=%s" % (nw, bool(lsb), nw, ce)
    col.cov("configs", "nwords=%d/lsb=%d" % (nw, lsb))
    seq = [L.rand_sym(rng, case["pk"]) for _ in range(case["n"])]
    r = L.run_raw(seq, nw, lsb, ce, rng)
    _raw_done(col, case, r, dut)
    col.case_done(case, r["line"].c["symbols"] >= 64,
                  sample={"case": case, "dut": dut, "symbols_emitted": r["line"].c["symbols"],
                          "roundtrips": r["agent"].cnt["roundtrips"], "ce_low_cycles": r["agent"].cnt["ce_low_cycles"],
                          "first_symbols": [L.sym_name(s) for s in seq[:6]]})


def run_invalid(col, case):
    rng = rng_for(case["seed"])
    r = L.run_invalid(case["lsb"], case["ce"], rng)
    ag = r["agent"]
    dut = "Decoder(lsb_first=%s), ce=%s" % (bool(case["lsb"]), case["ce"])
    if r["capped"]:
        col.inconc(case, "cycle cap reached")
    col.ev("sim_cycles", r["cycles"])
    col.ev("invalid_flag_checks", len(ag.checked))
    for w in ag.checked:
        col.cov("invalid_words", (case["lsb"] << 10) | w)
    if ag.errs:
        col.violation("decoder/invalid-flag", case, "%s: %s" % (dut, ag.errs[0]), {"dut": dut, "first": ag.errs})
    col.case_done(case, len(ag.checked) >= 1000, sample={"case": case, "dut": dut, "code_words_checked": len(ag.checked),
                                                        "distinct": len(set(ag.checked))})


def run_stream(col, case):
    r = L.run_stream(case)
    nw = case["nwords"]
    dut = "StreamEncoder(%d) -> %s -> StreamDecoder(%d), producer %s (idle lanes: %s), schedules %s" % (
        nw, case["mid"], nw, "with valid gaps" if case["gaps"] else "always valid", case["fill"], r["sched"])
    cls = "stream_gaps" if case["gaps"] else "stream_bp"
    col.cov("configs", "stream/nwords=%d/%s" % (nw, case["mid"]))
    col.cov("stream_schedules", "%s|%s|%s" % (r["sched"][0].split("(")[0], r["sched"][1].split("(")[0], cls))
    col.ev("stream_histories")
    col.ev("sim_cycles", r["cycles"])
    col.ev("stream_tokens_accepted", r["sent"])
    col.ev("stream_tokens_delivered", r["delivered"])
    col.ev("stream_symbols_delivered", r["delivered"] * nw)
    col.ev("stream_stalled_cycles", r["stalled_cycles"])
    col.ev("stream_pipe_ce_low_cycles", r["tap"].stalls)
    col.ev("stream_bubbles", r["tap"].bubbles)
    _line_counts(col, r["line1"])
    _line_counts(col, r["line2"])
    if r["capped"]:
        col.inconc(case, "cycle cap reached")
    if r["rt"]:
        col.violation("stream/%s/roundtrip-%s" % (cls, r["rt"]["field"]), case, "%s: %s" % (dut, r["rt"]), {"dut": dut, "mismatch": r["rt"]})
    elif r["missing"] > 0 and (r["stall"] or not r["capped"]):
        col.violation("stream/%s/tokens-never-delivered" % cls, case,
                      "%s: %d accepted tokens never delivered (%s)" % (dut, r["missing"], r["stall"]), {"dut": dut})
    _report(col, case, dut, r["line1"].errs, r["line1"].nerr)
    ctx = None
    if r["line2"].errs:
        # what the encoder really emitted (valid or bubble) around the first failing handshaken symbol
        first = next(iter(r["line2"].errs.values()))[0]
        ti = first["symbol_index"] // nw
        seen, lo = 0, 0
        for j, e in enumerate(r["tap"].log):
            if e[2]:
                if seen == ti:
                    lo = j
                    break
                seen += 1
        ctx = [{"valid": e[2], "syms": [L.sym_name(s) for s in e[0]], "bits_serial_order": [r["line2"].ser(w) for w in e[1]]}
               for e in r["tap"].log[max(0, lo - 4):lo + 1]]
    _report(col, case, dut, r["line2"].errs, r["line2"].nerr, {"emitted_by_encoder_incl_bubbles": ctx})
    col.case_done(case, r["delivered"] * nw >= 32,
                  sample={"case": case, "dut": dut, "tokens_accepted": r["sent"], "tokens_delivered": r["delivered"],
                          "stalled_cycles": r["stalled_cycles"], "bubbles": r["tap"].bubbles,
                          "first_tokens": [[L.sym_name(s) for s in t] for t in r["symtoks"]]})


RUN = {"symbols": run_symbols, "pairs": run_pairs, "mixed": run_mixed, "invalid": run_invalid, "stream": run_stream}


def run_shard(shard):
    col = Collector(shard["cls"])
    for case in shard["cases"]:
        col.guard(case, RUN[case["kind"]], col, case)
    return col.result()
