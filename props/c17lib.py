"""Monitors and benches of C17 (8b/10b).  The oracles know nothing about the code tables: they count
bits, scan the serial stream and compare decode(encode(x)) with x."""
from collections import deque

from migen import Module, Signal

from litex.soc.cores import code_8b10b
from litex.soc.interconnect import stream

from lib.collect import rng_for
from lib.bench.kernel import Bench
from lib.bench.stream import (SourceDriver, SinkDriver, EndpointMonitor, Scoreboard, make_sched, Then, Always)

# symbol = k << 8 | d
DATA = list(range(256))
CONTROL = [0x100 | (y << 5) | 28 for y in range(8)] + [0x100 | (7 << 5) | x for x in (23, 27, 29, 30)]
ALL = DATA + CONTROL
COMMAS = (0b0011111, 0b1100000)       # in transmit order, first transmitted bit = msb of the window


def popcount(x):
    return bin(x).count("1")


def sym_name(s):
    if s is None:
        return "?"
    return "%s.%d.%d" % ("K" if s >> 8 else "D", s & 31, (s >> 5) & 7)


def rand_sym(rng, pk):
    return rng.choice(CONTROL) if rng.random() < pk else rng.getrandbits(8)


# ------------------------------------------------------------------------------------ line monitor
class LineMonitor:
    """Consumes the serial stream one 10-bit symbol at a time.  Oracle, purely from the statement:
    * running disparity, recomputed as ones - zeros, is -1 or +1 after every symbol (rd0 = None: the
      sign is taken from the first unbalanced symbol, i.e. only boundedness is checked);
    * the encoder's disparity flag (when given) says the same;
    * no run of more than 5 equal bits, across symbol boundaries;
    * no 7-bit window lying entirely inside consecutive *data* symbols equals a comma."""
    def __init__(self, prefix, lsb_first, rd0=-1, pairs=None):
        self.prefix = prefix
        self.order = list(range(10)) if lsb_first else list(range(9, -1, -1))
        self.rd = rd0
        self.run_bit, self.run_len = None, 0
        self.win, self.data_bits = 0, 0
        self.n = 0
        self.errs = {}                 # key -> [first details]
        self.nerr = {}
        self.hist = deque(maxlen=5)    # (sym, word, rd_before)
        self.cov = set()               # sym*2 + (rd_before > 0)
        self.delta = {}                # (sym, rd_before) -> ones - zeros   (workload planning only)
        self.pairs = pairs             # set of (a << 9 | b << 1 | rd_before_a > 0) for data pairs
        self.triples = set()
        self.c = {"symbols": 0, "rd_checks": 0, "flag_checks": 0, "run_windows": 0, "comma_windows": 0,
                  "max_run": 0}

    def err(self, what, detail):
        key = self.prefix + "/" + what
        self.nerr[key] = self.nerr.get(key, 0) + 1
        lst = self.errs.setdefault(key, [])
        if len(lst) < 2:
            detail = dict(detail)
            detail["symbol_index"] = self.n
            detail["context_serial_order"] = [{"sym": sym_name(s), "bits": self.ser(w), "rd_before": r} for s, w, r in self.hist]
            lst.append(detail)

    def ser(self, word):
        """bits of a code word in the order they go on the line"""
        return "".join(str((word >> i) & 1) for i in self.order)

    def push(self, word, sym, flag=None):
        c = self.c
        rd_before = self.rd
        self.hist.append((sym, word, rd_before))
        ones = popcount(word)
        d = 2 * ones - 10
        c["symbols"] += 1
        # -- running disparity
        if rd_before is None:
            if d not in (-2, 0, 2):
                self.err("running-disparity", {"word": format(word, "010b"), "sym": sym_name(sym), "ones": ones})
            elif d:
                self.rd = 1 if d > 0 else -1
            c["rd_checks"] += 1
        else:
            self.rd = rd_before + d
            c["rd_checks"] += 1
            if self.rd not in (-1, 1):
                self.err("running-disparity", {"word": format(word, "010b"), "sym": sym_name(sym), "ones": ones,
                                               "rd_before": rd_before, "rd_after": self.rd})
                self.rd = 1 if self.rd > 0 else -1
            elif flag is not None:
                c["flag_checks"] += 1
                if bool(flag) != (self.rd == 1):
                    self.err("disparity-flag", {"word": format(word, "010b"), "sym": sym_name(sym), "flag": flag,
                                                "rd_counted": self.rd})
            if sym is not None:
                self.cov.add(sym * 2 + (rd_before > 0))
                self.delta[(sym, rd_before)] = d
        # -- serial scan
        is_data = sym is not None and not (sym >> 8)
        rb, rl, win, db = self.run_bit, self.run_len, self.win, self.data_bits
        for i in self.order:
            b = (word >> i) & 1
            if b == rb:
                rl += 1
                if rl == 6:
                    self.err("run-length", {"word": format(word, "010b"), "sym": sym_name(sym), "bit": b})
            else:
                rb, rl = b, 1
            if rl > c["max_run"]:
                c["max_run"] = rl
            win = ((win << 1) | b) & 0x7f
            db = db + 1 if is_data else 0
            if db >= 7:
                c["comma_windows"] += 1
                if win in COMMAS:
                    self.err("comma-in-data", {"word": format(word, "010b"), "sym": sym_name(sym),
                                               "window": format(win, "07b"), "bits_into_symbol": self.order.index(i) + 1})
        c["run_windows"] += 10
        self.run_bit, self.run_len, self.win, self.data_bits = rb, rl, win, db
        # -- pair / triple coverage
        hl = self.hist
        if len(hl) >= 2:
            a = hl[-2]
            if self.pairs is not None and is_data and a[0] is not None and not (a[0] >> 8) and a[2] is not None:
                self.pairs.add((a[0] << 9) | (sym << 1) | (a[2] > 0))
            if len(hl) >= 3 and sym is not None and a[0] is not None and hl[-3][0] is not None:
                self.triples.add((hl[-3][0], a[0], sym))
        self.n += 1


# ------------------------------------------------------------------------------------ raw Encoder -> Decoder
class RawTop(Module):
    def __init__(self, nwords, lsb):
        self.ce = Signal(reset=1)
        self.submodules.enc = enc = code_8b10b.Encoder(nwords, lsb)
        self.decs = [code_8b10b.Decoder(lsb) for _ in range(nwords)]
        self.submodules += self.decs
        self.comb += enc.ce.eq(self.ce)
        for i, d in enumerate(self.decs):
            self.comb += [d.ce.eq(self.ce), d.input.eq(enc.output[i])]


class RawAgent:
    """Drives ce/d/k and follows the two registered encoder stages and the registered decoder by
    counting advancing edges (ce high), so the same code handles ce = 1 and any ce pattern.
    Values read in step c are those of the cycle that ends at edge c."""
    def __init__(self, top, nwords, entries, line):
        self.top, self.n, self.entries, self.line = top, nwords, entries, line
        e = top.enc
        self.outs, self.disps = list(e.output), list(e.disparity)
        self.ds, self.ks = list(e.d), list(e.k)
        self.dd = [x.d for x in top.decs]
        self.dk = [x.k for x in top.decs]
        self.di = [x.invalid for x in top.decs]
        self.prev_adv = False
        self.stage1 = None
        self.cur_out = None
        self.dec_expect = None
        self.c = 0
        self.errs, self.nerr = {}, {}
        self.cnt = {"roundtrips": 0, "invalid_checks": 0, "adv_edges": 0, "ce_low_cycles": 0, "control_roundtrips": 0}

    def signals(self):
        return [self.top.ce] + self.outs + self.disps + self.ds + self.ks + self.dd + self.dk + self.di

    def err(self, key, detail):
        self.nerr[key] = self.nerr.get(key, 0) + 1
        lst = self.errs.setdefault(key, [])
        if len(lst) < 2:
            detail["cycle"] = self.c
            lst.append(detail)

    def step(self, v, c):
        self.c = c
        n = self.n
        words = [v[s] for s in self.outs]
        if self.prev_adv:
            self.cnt["adv_edges"] += 1
            exp, inw = self.dec_expect
            for i in range(n):
                want = popcount(inw[i]) not in (4, 5, 6)
                self.cnt["invalid_checks"] += 1
                if bool(v[self.di[i]]) != want:
                    self.err("decoder/invalid-flag", {"word": format(inw[i], "010b"), "ones": popcount(inw[i]),
                                                      "invalid": v[self.di[i]]})
                if exp is not None:
                    got = (v[self.dk[i]] << 8) | v[self.dd[i]]
                    self.cnt["roundtrips"] += 1
                    self.cnt["control_roundtrips"] += exp[i] >> 8
                    if got != exp[i]:
                        what = "codec/roundtrip-control-flag" if (got ^ exp[i]) >> 8 else "codec/roundtrip-data"
                        self.err(what, {"word_index": i, "sent": sym_name(exp[i]), "code_word": format(inw[i], "010b"),
                                        "decoded": sym_name(got), "sent_raw": exp[i], "decoded_raw": got})
            if self.cur_out is not None:
                for i in range(n):
                    self.line.push(words[i], self.cur_out[i], v[self.disps[i]])
        if v[self.top.ce]:
            self.dec_expect = (self.cur_out, words)
            self.cur_out = self.stage1
            self.stage1 = [(v[self.ks[i]] << 8) | v[self.ds[i]] for i in range(n)]
            self.prev_adv = True
        else:
            self.prev_adv = False
            self.cnt["ce_low_cycles"] += 1
        if c < len(self.entries):
            ce, syms = self.entries[c]
            w = {self.top.ce: ce}
            for i in range(n):
                w[self.ds[i]] = syms[i] & 255
                w[self.ks[i]] = syms[i] >> 8
            return w
        return None

    def done(self):
        return self.c > len(self.entries) + 1


def build_entries(symseq, nwords, ce_mode, rng):
    """Per-cycle drive list.  ce low cycles carry arbitrary garbage (never sampled by a correct ce)."""
    groups = []
    for i in range(0, len(symseq), nwords):
        g = list(symseq[i:i + nwords])
        while len(g) < nwords:
            g.append(g[-1])
        groups.append(g)
    groups += [[0] * nwords] * 4          # flush with D.0.0
    out = []
    burst = 0
    for g in groups:
        if ce_mode == "b70":
            while rng.random() > 0.7:
                out.append((0, [rng.getrandbits(9) for _ in range(nwords)]))
        elif ce_mode == "bursts":
            if burst <= 0:
                for _ in range(rng.randint(1, 6)):
                    out.append((0, [rng.getrandbits(9) for _ in range(nwords)]))
                burst = rng.randint(1, 6)
            burst -= 1
        out.append((1, g))
    return out


def run_raw(symseq, nwords, lsb, ce_mode, rng, pairs=None):
    top = RawTop(nwords, lsb)
    line = LineMonitor("encoder", lsb, rd0=-1, pairs=pairs)
    entries = build_entries(symseq, nwords, ce_mode, rng)
    bench = Bench(top, cap=len(entries) + 50)
    ag = bench.add(RawAgent(top, nwords, entries, line))
    ok = bench.run()
    return {"capped": not ok, "cycles": bench.cycle["sys"], "line": line, "agent": ag}


# ------------------------------------------------------------------------------------ decoder invalid flag
class InvalidAgent:
    def __init__(self, dec, words, ce_mode, rng):
        self.dec, self.words, self.ce_mode, self.rng = dec, words, ce_mode, rng
        self.i = 0
        self.prev = None           # (ce, word) of the cycle that ends at this edge
        self.pending = None
        self.checked = []
        self.errs = []
        self.c = 0
        self.tail = 0

    def signals(self):
        d = self.dec
        return [d.ce, d.input, d.invalid]

    def step(self, v, c):
        self.c = c
        d = self.dec
        if self.pending is not None:
            w = self.pending
            want = popcount(w) not in (4, 5, 6)
            self.checked.append(w)
            if bool(v[d.invalid]) != want:
                if len(self.errs) < 3:
                    self.errs.append({"word": format(w, "010b"), "ones": popcount(w), "invalid": v[d.invalid], "cycle": c})
            self.pending = None
        if v[d.ce]:
            self.pending = v[d.input]
        if self.i < len(self.words):
            ce = 1 if self.ce_mode == "always" else int(self.rng.random() < 0.6)
            if ce:
                w = self.words[self.i]
                self.i += 1
            else:
                w = self.rng.getrandbits(10)
            return {d.ce: ce, d.input: w}
        self.tail += 1
        return {d.ce: 1, d.input: 0b0101010101}

    def done(self):
        return self.tail >= 4


def run_invalid(lsb, ce_mode, rng):
    dec = code_8b10b.Decoder(lsb)
    words = list(range(1024))
    rng.shuffle(words)
    bench = Bench(dec, cap=6000)
    ag = bench.add(InvalidAgent(dec, words, ce_mode, rng))
    ok = bench.run()
    return {"capped": not ok, "agent": ag, "cycles": bench.cycle["sys"]}


# ------------------------------------------------------------------------------------ Euler circuit over (symbol, rd) nodes
def euler_pairs(unbal, rng):
    """Closed walk over data symbols in which every ordered pair (a, b) occurs exactly once with each
    running disparity before a.  `unbal[a]` (does a flip the disparity) was *learned from observation*
    and only plans the workload: the monitor measures which (a, b, rd) it really saw."""
    adj = {}
    for a in range(256):
        for r in (0, 1):
            l = list(range(256))
            rng.shuffle(l)
            adj[(a, r)] = l
    start = (rng.getrandbits(8), 0)
    stack = [start]
    circ = []
    while stack:
        v = stack[-1]
        l = adj[v]
        if l:
            b = l.pop()
            stack.append((b, v[1] ^ unbal[v[0]]))
        else:
            circ.append(stack.pop())
    circ.reverse()
    return circ


# ------------------------------------------------------------------------------------ stream wrappers
class IdleFillSource(SourceDriver):
    """SourceDriver whose idle lanes carry: 'legal' random defined symbols, 'hold' the previous token,
    or 'garbage' arbitrary bits (the stream contract allows anything while valid is low)."""
    def __init__(self, ep, tokens, sched, rng, mode, nwords):
        SourceDriver.__init__(self, ep, tokens, sched, rng, garbage=(mode == "garbage"))
        self.mode, self.nwords = mode, nwords

    def step(self, v, c):
        w = SourceDriver.step(self, v, c)
        if w is not None and self.mode == "legal" and not w.get(self.ep.valid):
            syms = [rand_sym(self.rng, 0.15) for _ in range(self.nwords)]
            w[self.pay[0]] = sum((s & 255) << (8 * i) for i, s in enumerate(syms))
            w[self.pay[1]] = sum((s >> 8) << i for i, s in enumerate(syms))
            w[self.ep.first] = self.rng.getrandbits(1)
            w[self.ep.last] = self.rng.getrandbits(1)
        return w


class StreamEncTap:
    """Every symbol the encoder emits while pipe_ce is high, valid or not (what a continuously
    transmitting PHY puts on the line)."""
    def __init__(self, enc, nwords, line, check):
        self.enc, self.n, self.line, self.check = enc, nwords, line, check
        self.prev_adv = False
        self.stage1 = None
        self.cur_out = None
        self.log = []             # (syms, words, valid)
        self.bubbles = 0
        self.stalls = 0
        self.last_valid_in = 0

    def signals(self):
        e = self.enc
        return [e.pipe_ce, e.sink.valid, e.sink.d, e.sink.k, e.source.valid, e.source.data] + list(e.encoder.disparity)

    def step(self, v, c):
        e, n = self.enc, self.n
        if self.prev_adv and self.cur_out is not None:
            data = v[e.source.data]
            words = [(data >> (10 * i)) & 0x3ff for i in range(n)]
            self.log.append((self.cur_out[0], words, v[e.source.valid]))
            if self.check:
                for i in range(n):
                    self.line.push(words[i], self.cur_out[0][i], v[e.encoder.disparity[i]])
        if v[e.pipe_ce]:
            self.cur_out = self.stage1
            d, k = v[e.sink.d], v[e.sink.k]
            # what a bubble is filled with is the wrapper's business: its symbols are 'unknown' (disparity and
            # run length are still judged on the emitted word, comma windows touching it are not)
            self.stage1 = ([(((k >> i) & 1) << 8) | ((d >> (8 * i)) & 255) if v[e.sink.valid] else None for i in range(n)],
                           v[e.sink.valid])
            if not v[e.sink.valid]:
                self.bubbles += 1
            self.prev_adv = True
        else:
            self.prev_adv = False
            self.stalls += 1
        return None


def run_stream(case):
    rng = rng_for(case["seed"])
    nwords, gaps, mid, fill = case["nwords"], case["gaps"], case["mid"], case["fill"]
    top = Module()
    top.submodules.enc = enc = code_8b10b.StreamEncoder(nwords)
    top.submodules.dec = dec = code_8b10b.StreamDecoder(nwords)
    if mid == "fifo":
        top.submodules.fifo = f = stream.SyncFIFO([("data", nwords * 10)], 4)
        top.comb += [enc.source.connect(f.sink), f.source.connect(dec.sink)]
    else:
        top.comb += enc.source.connect(dec.sink)
    ntok = case.get("ntok") or rng.randint(50, 110)
    pk = rng.choice([0.0, 0.1, 0.3])
    toks, symtoks = [], []
    for _ in range(ntok):
        syms = [rand_sym(rng, pk) for _ in range(nwords)]
        symtoks.append(syms)
        toks.append({"first": rng.getrandbits(1), "last": rng.getrandbits(1), "par": (),
                     "pay": (sum((s & 255) << (8 * i) for i, s in enumerate(syms)),
                             sum((s >> 8) << i for i, s in enumerate(syms)))})
    hostile = rng.randint(100, 400)
    if gaps:
        while True:
            vs, vk = make_sched(rng)
            if vk != "always":
                break
    else:
        vs, vk = Always(True), "always"
    rs, rk = make_sched(rng)
    bench = Bench(top, cap=hostile + 30 * ntok + 600, drain=2)
    drv = bench.add(IdleFillSource(enc.sink, toks, Then(vs, hostile), rng, fill, nwords))
    bench.add(SinkDriver(dec.source, Then(rs, hostile)))
    im = bench.add(EndpointMonitor(enc.sink, "enc.sink"))
    mm = bench.add(EndpointMonitor(enc.source, "enc.source", check_stability=True))
    om = bench.add(EndpointMonitor(dec.source, "dec.source", check_stability=True))
    line1 = LineMonitor("stream-encoder/ce-stream", True, rd0=-1)
    tap = bench.add(StreamEncTap(enc, nwords, line1, check=(fill != "garbage")))
    sb = bench.add(Scoreboard([drv], [im], [om], lambda: ntok, coop_from=hostile + 2, stall_bound=40))
    ok = bench.run()
    # d/k sequence seen by the consumer of the decoder vs accepted by the encoder
    sent = [tuple(e[3]) for e in im.log]
    got = [tuple(e[3]) for e in om.log]
    rt = None
    for i, (a, b) in enumerate(zip(sent, got)):
        if a != b:
            rt = {"token": i, "field": "k" if a[1] != b[1] else "d", "accepted": [hex(x) for x in a], "delivered": [hex(x) for x in b]}
            break
    if rt is None and len(got) > len(sent):
        rt = {"token": len(sent), "field": "extra-token"}
    missing = len(sent) - len(got)
    # line code on the handshaken (valid-qualified) code words
    line2 = LineMonitor("stream-encoder/%s" % ("valid-gap" if gaps else "handshaken"), True, rd0=None)
    for j, e in enumerate(mm.log):
        if j >= len(im.log):
            break
        d, k = im.log[j][3]
        for i in range(nwords):
            s = (((k >> i) & 1) << 8) | ((d >> (8 * i)) & 255)
            line2.push((e[3][0] >> (10 * i)) & 0x3ff, s)
    return {"capped": not ok, "cycles": bench.cycle["sys"], "rt": rt, "missing": missing, "stall": sb.stalled,
            "sent": len(sent), "emitted": len(mm.log), "delivered": len(got), "line1": line1, "line2": line2, "tap": tap,
            "sched": [vk, rk], "stalled_cycles": mm.stalled_cycles + om.stalled_cycles,
            "stab": (mm.stab_viol + om.stab_viol)[:2], "symtoks": symtoks[:3]}
