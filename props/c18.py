"""C18 - ECC (SECDED) corrects every single-bit error and flags every double-bit error.
Real ECCEncoder(k) -> XOR flip mask -> real ECCDecoder(k), evaluated by the repository's simulator
(one Simulator per width, inputs poked into its evaluator, its own comb propagation run to the fixed
point).  The oracle is the property statement; it knows nothing of Hamming positions."""
from migen import Module, Signal

from lib.collect import Collector, rng_for

LEVEL = "fault_enumeration"
RULE = ("one case = one vector (data width k, data word, set of flipped code-word bits incl. the overall parity bit, enable) "
        "evaluated on ECCEncoder(k).o ^ flip -> ECCDecoder(k).i. Fault points are enumerated: every single flip position of "
        "every swept width, every pair of positions for short code words, for long ones all/sampled pairs containing the parity "
        "bit plus adjacent and random pairs; data exhaustive for k <= 8, else zero / ones / walking one / random. Oracle: 0 or 1 "
        "flip -> o == data, ded == 0, sec == 1 iff a non-parity bit was flipped; 2 flips -> ded == 1 and sec == 0; enable = 0 -> "
        "o == data and a flipped code bit changes at most its own data bit (never corrected). Every vector is non-trivial; "
        "distinct = distinct (k, data, flips, enable)")
ASSUMPTIONS = ["migen tracer shim (names only)",
               "bit 0 of ECCEncoder.o / ECCDecoder.i is the overall parity bit (o = Cat(parity, codeword))",
               "the modules are purely combinational (asserted: no sync statements), so driving the simulator's evaluator and "
               "running its comb propagation to the fixed point is the same computation as one clock cycle of Simulator.run",
               "ded must stay 0 for zero or one flipped bit (an 'uncorrectable' report on a correctable word counts as a failure)",
               "quick tier sweeps all positions only for k <= 48 and k in {57, 58, 64, 121, 128, one of 65..104 chosen by the seed}; "
               "the other widths get a reduced set of fault points (parity bit, top bit, random positions and pairs); thorough "
               "sweeps every width"]
FLOORS = {"quick": {"n_widths": 128, "n_widths_all_single_flips": 54, "single_flips": 8000, "double_flips": 4000, "clean_words": 800,
                    "disabled_vectors": 1100, "n_single_flip_positions": 2000, "parity_bit_single_flips": 550,
                    "parity_bit_double_flips": 800, "sec_flag_checks": 12000, "ded_flag_checks": 12000, "data_checks": 9000,
                    "disabled_passmap_checks": 50},
          "thorough": {"n_widths": 128, "n_widths_all_single_flips": 128, "single_flips": 28000, "double_flips": 32000,
                       "clean_words": 2900, "disabled_vectors": 3300, "n_single_flip_positions": 9189,
                       "parity_bit_single_flips": 700, "parity_bit_double_flips": 8000, "sec_flag_checks": 63000,
                       "ded_flag_checks": 63000, "data_checks": 31000, "disabled_passmap_checks": 128}}
SHARD_TIMEOUT = {"quick": 900, "thorough": 3000}
N_SAMPLES = 6
EXHAUSTIVE = {
    "quick": "k <= 8: all 2^k data words x every single flip position (incl. parity bit) and, for k <= 4, x every pair of positions; "
             "k <= 20: every pair of positions (one or more data words); k <= 48 and k in {57, 58, 64, 121, 128, one seed-chosen}: "
             "every single flip position. Other widths and all other pairs are sampled",
    "thorough": "every width 1..128: every single flip position (incl. parity bit) with several data words; every pair of positions "
                "for code words of <= 41 bits (k <= 34); k <= 8: all data words x every single flip, k <= 5 x every pair; for longer "
                "code words every pair containing the parity bit, every adjacent pair and random pairs"}

KMAX = 128


# ------------------------------------------------------------------------------------ DUT
class Top(Module):
    def __init__(self, k):
        from litex.soc.cores.ecc import ECCEncoder, ECCDecoder
        self.submodules.enc = ECCEncoder(k)
        self.submodules.dec = ECCDecoder(k)
        self.flip = Signal(len(self.enc.o))
        self.comb += self.dec.i.eq(self.enc.o ^ self.flip)


class Dut:
    """One simulator per width; eval() = drive enc.i / flip / enable, let the simulator settle, read."""
    def __init__(self, k):
        from litex.gen.sim.core import Simulator
        self.k = k
        self.top = top = Top(k)
        if len(top.enc.i) != k or len(top.dec.o) != k or len(top.dec.i) != len(top.enc.o):
            raise RuntimeError("unexpected port widths")
        self.N = len(top.enc.o)
        self.sim = sim = Simulator(top, [])
        if any(sim.fragment.sync.values()):
            raise RuntimeError("ECC modules are expected to be combinational")
        self.ev = sim.evaluator
        self.ev.execute(sim.fragment.comb)         # what Simulator.run() does before the first tick
        sim._commit_and_comb_propagate()
        self.cur = (None, None, None)

    def eval(self, d, f, e):
        ev, top = self.ev, self.top
        cd, cf, ce = self.cur
        if d != cd:
            ev.assign(top.enc.i, d)
        if f != cf:
            ev.assign(top.flip, f)
        if e != ce:
            ev.assign(top.dec.enable, e)
        self.cur = (d, f, e)
        self.sim._commit_and_comb_propagate()
        g = ev.eval
        mask = (1 << self.k) - 1
        return g(top.dec.o) & mask, g(top.dec.sec), g(top.dec.ded), g(top.enc.o) & ((1 << self.N) - 1)


_duts = {}


def dut_for(k):
    if k not in _duts:
        if len(_duts) > 6:
            _duts.clear()
        _duts[k] = Dut(k)
    return _duts[k]


def popcount(x):
    return bin(x).count("1")


# ------------------------------------------------------------------------------------ oracle
class PassMap:
    """enable = 0: which data bit follows which code bit, learned from observation only."""
    def __init__(self):
        self.by_pos = {}


def judge(col, k, N, d, flips, e, out, pm):
    o, sec, ded, cw = out
    f = 0
    for p in flips:
        f |= 1 << p
    w = len(flips)
    case = {"k": k, "data": hex(d), "flips": list(flips), "enable": e}
    wit = {"dut": "ECCEncoder(%d).o ^ flip -> ECCDecoder(%d).i" % (k, k), "code_word_bits": N, "data": hex(d), "flip_mask": hex(f),
           "encoder_o": hex(cw), "decoder_i": hex(cw ^ f), "enable": e, "decoder_o": hex(o), "sec": sec, "ded": ded}

    def bad(key, what):
        col.violation(key, case, "k=%d data=%s flips=%s enable=%d: %s (o=%s sec=%d ded=%d)" % (k, hex(d), list(flips), e, what, hex(o), sec, ded), wit)

    col.cov("widths", k)
    if e:
        if w == 0:
            col.ev("clean_words")
            col.ev("data_checks")
            col.ev("sec_flag_checks")
            col.ev("ded_flag_checks")
            if o != d:
                bad("clean-word/data-changed", "no bit flipped but o != data")
            if sec:
                bad("clean-word/sec-raised", "no bit flipped but sec = 1")
            if ded:
                bad("clean-word/ded-raised", "no bit flipped but ded = 1")
        elif w == 1:
            p = flips[0]
            par = p == 0
            col.ev("single_flips")
            col.ev("data_checks")
            col.ev("sec_flag_checks")
            col.ev("ded_flag_checks")
            col.cov("single_flip_positions", "%d:%d" % (k, p))
            if par:
                col.ev("parity_bit_single_flips")
            who = "parity-bit" if par else "code-bit"
            if o != d:
                bad("single-flip/%s/data-not-restored" % who, "one flipped bit, o != data (differs in bits %s)" % hex(o ^ d))
            if bool(sec) != (not par):
                bad("single-flip/%s/sec-flag" % who, "sec must be %d" % (not par))
            if ded:
                bad("single-flip/%s/ded-raised" % who, "one flipped bit reported uncorrectable")
        elif w == 2:
            par = 0 in flips
            col.ev("double_flips")
            col.ev("ded_flag_checks")
            col.ev("sec_flag_checks")
            if par:
                col.ev("parity_bit_double_flips")
            who = "with-parity-bit" if par else "code-bits"
            if not ded:
                bad("double-flip/%s/not-detected" % who, "two flipped bits, ded = 0" +
                    (" and data silently wrong" if (o != d and not sec) else ""))
            if sec:
                bad("double-flip/%s/reported-corrected" % who, "two flipped bits reported as a corrected single error")
        else:
            raise ValueError("only 0, 1 or 2 flips are judged")
    else:
        col.ev("disabled_vectors")
        if w == 0:
            col.ev("data_checks")
            if o != d:
                bad("disabled/data-changed", "enable = 0, nothing flipped, o != data")
            if sec or ded:
                # no bit was flipped: under either reading of the statement (flags follow the flips / flags are off when
                # checking is disabled) nothing may be signalled
                bad("disabled/error-flag-on-clean-word", "enable = 0, nothing flipped, sec = %d ded = %d" % (sec, ded))
        elif w == 1:
            diff = o ^ d
            col.ev("disabled_single_flips")
            if popcount(diff) > 1:
                bad("disabled/not-a-pass-through", "enable = 0: one flipped code bit changed data bits %s" % hex(diff))
            else:
                prev = pm.by_pos.get(flips[0])
                if prev is not None and prev != diff:
                    bad("disabled/not-a-pass-through", "enable = 0: code bit %d drove data bits %s for another word, %s now" % (flips[0], hex(prev), hex(diff)))
                pm.by_pos[flips[0]] = diff
        else:
            raise ValueError
    col.case_done(case, True, digest=[k, d, f, e],
                  sample={"case": case, "observed": {"decoder_o": hex(o), "sec": sec, "ded": ded, "encoder_o": hex(cw)}}
                  if (w and k > 8 and len(col.samples) < col.max_samples) else None)


def judge_passmap(col, k, N, pm, job):
    """enable = 0 sweep: exactly k code bits reach a data bit, each its own; the other N - k never do."""
    pos = pm.by_pos
    if not pos:
        return
    case = {"k": k, "job": job}
    zero = [p for p, x in pos.items() if x == 0]
    nz = {}
    for p, x in pos.items():
        if x:
            nz.setdefault(x, []).append(p)
    col.ev("disabled_passmap_checks")
    dup = {hex(x): ps for x, ps in nz.items() if len(ps) > 1}
    if dup:
        col.violation("disabled/not-a-pass-through", case, "k=%d enable=0: several code bits drive the same data bit: %s" % (k, dup), None)
    if len(zero) > N - k:
        col.violation("disabled/data-bit-not-passed-through", case,
                      "k=%d enable=0: flipping any of %d code bits %s left the data unchanged, only %d code bits are not data bits "
                      "(the flip was corrected or the data bit is not wired through)" % (k, len(zero), sorted(zero)[:12], N - k), None)
    if len(pos) == N and len(nz) != k:
        col.violation("disabled/data-bit-not-passed-through", case,
                      "k=%d enable=0: full sweep reached %d distinct data bits, expected %d" % (k, len(nz), k), None)


# ------------------------------------------------------------------------------------ jobs
def data_words(k, descs, seed):
    for ds in descs:
        if ds == "all":
            for x in range(1 << k):
                yield x
        elif ds.startswith("range:"):
            _, a, b = ds.split(":")
            for x in range(int(a), min(int(b), 1 << k)):
                yield x
        elif ds == "zero":
            yield 0
        elif ds == "ones":
            yield (1 << k) - 1
        elif ds.startswith("walk:"):
            yield 1 << (int(ds[5:]) % k)
        elif ds.startswith("rand:"):
            yield rng_for(seed, "data", k, ds).getrandbits(k)
        elif ds.startswith("val:"):
            yield int(ds[4:], 0) & ((1 << k) - 1)
        else:
            raise ValueError(ds)


def run_job(col, job):
    k = job["k"]
    dut = dut_for(k)
    N = dut.N
    e = job.get("en", 1)
    pm = PassMap()
    for d in data_words(k, job["data"], job["seed"]):
        for flips in job["flips"]:
            flips = [p for p in flips if p < N]
            if len(set(flips)) != len(flips):
                continue
            f = 0
            for p in flips:
                f |= 1 << p
            out = dut.eval(d, f, e)
            judge(col, k, N, d, flips, e, out, pm)
    if not e:
        judge_passmap(col, k, N, pm, {x: job[x] for x in ("k", "data", "seed")})
    if job.get("full_single"):
        col.cov("widths_all_single_flips", k)


def run_vector(col, case):
    k = case["k"]
    dut = dut_for(k)
    d = int(case["data"], 0)
    f = 0
    for p in case["flips"]:
        f |= 1 << p
    out = dut.eval(d, f, case["enable"])
    judge(col, k, dut.N, d, list(case["flips"]), case["enable"], out, PassMap())


def run_shard(shard):
    col = Collector(shard["cls"], max_samples=1)
    for case in shard["cases"]:
        if "job" in case and isinstance(case["job"], dict):      # witness of a pass-map violation: re-run its sweep
            j = dict(case["job"])
            j.update({"en": 0, "flips": [[]] + [[p] for p in range(dut_for(j["k"]).N)]})
            col.guard(case, run_job, col, j)
        elif "flips" in case and "enable" in case:
            col.guard(case, run_vector, col, case)
        else:
            col.guard(case, run_job, col, case)
    return col.result()


# ------------------------------------------------------------------------------------ plan
def code_bits(k):
    from litex.soc.cores.ecc import ECCEncoder
    return len(ECCEncoder(k).o)


def c_flip(N):
    return 2.4e-5 * N * N + 0.0015


def c_data(N):
    return 6.5e-5 * N * N + 0.003


def job_cost(job, N):
    k = job["k"]
    nd = 0
    for ds in job["data"]:
        if ds == "all":
            nd += 1 << k
        elif ds.startswith("range:"):
            _, a, b = ds.split(":")
            nd += int(b) - int(a)
        else:
            nd += 1
    return nd * (c_data(N) + len(job["flips"]) * c_flip(N))


def singles(N):
    return [[p] for p in range(N)]


def all_pairs(N):
    return [[p, q] for p in range(N) for q in range(p + 1, N)]


def sampled_pairs(N, rng, npar, nadj, nrand):
    qs = list(range(1, N))
    out = [[0, q] for q in (qs if npar >= len(qs) else sorted(rng.sample(qs, npar)))]
    adj = list(range(1, N - 1))
    out += [[q, q + 1] for q in (adj if nadj >= len(adj) else sorted(rng.sample(adj, nadj)))]
    seen = set(tuple(x) for x in out)
    tries = 0
    while nrand > 0 and tries < 20 * nrand + 100:
        tries += 1
        p, q = sorted(rng.sample(range(N), 2))
        if (p, q) not in seen:
            seen.add((p, q))
            out.append([p, q])
            nrand -= 1
    return out


def width_jobs(k, N, tier, seed, full):
    """Work of one width as a list of jobs (data descriptors x flip sets)."""
    q = tier == "quick"
    rng = rng_for(seed, "C18/plan", k)
    s = "%d/C18/%d" % (seed, k)
    J = []

    def job(data, flips, en=1, **kw):
        j = {"k": k, "en": en, "data": data, "flips": flips, "seed": s}
        j.update(kw)
        J.append(j)

    walk = ["walk:%d" % i for i in range(k)]
    if k <= 8:
        job(["all"], [[]] + singles(N), full_single=True)
        if k <= (4 if q else 5):
            job(["all"], all_pairs(N))
        else:
            job(["zero", "ones", "rand:0"] + ([] if q else ["rand:1", "rand:2", "rand:3"] + walk), all_pairs(N))
        job(["all"], [[]], en=0)
        job(["rand:0", "ones"], singles(N), en=0)
        return J
    if q:
        if k <= 24:
            job(["zero", "ones", "rand:0"], [[]] + singles(N), full_single=True)
            job(walk, [[]] + [[rng.randrange(N)] for _ in range(2)])
            if k <= 20:
                job(["rand:1"], all_pairs(N))
            else:
                job(["rand:1"], sampled_pairs(N, rng, N, N // 2, N))
            job(["rand:0"], [[]] + singles(N), en=0)
        elif full:
            job(["rand:0"], [[]] + singles(N), full_single=True)
            job(["zero", "ones"], [[]])
            npar = 8
            job(["rand:1"], sampled_pairs(N, rng, npar, 2, 4))
            job(["rand:0"], [[]] + [[p] for p in sorted(rng.sample(range(N), N - k + 3))], en=0)
        else:
            pos = sorted(set([0, N - 1] + rng.sample(range(1, N - 1), 1 if k > 64 else 5)))
            job(["rand:0"], [[]] + [[p] for p in pos] + sampled_pairs(N, rng, 1, 0 if k > 64 else 1, 0 if k > 64 else 1))
    else:
        big = k > 64
        job(["rand:0", "zero" if k & 1 else "ones"] + ([] if big else ["ones" if k & 1 else "zero", "rand:1"]),
            [[]] + singles(N), full_single=True)
        nw = len(walk) if not big else 12
        job(rng.sample(walk, nw), [[]] + [[rng.randrange(N)] for _ in range(2)])
        if N <= 41:
            job(["rand:1", "ones"], all_pairs(N))
        elif not big:
            job(["rand:1"], sampled_pairs(N, rng, N, N, N))
        else:
            job(["rand:1"], sampled_pairs(N, rng, N, N // 4, N // 4))
        if k <= 64:
            job(["rand:0"], [[]] + singles(N), en=0)
            job(["zero", "ones"], [[]], en=0)
        else:
            job(["rand:0"], [[]] + [[p] for p in sorted(rng.sample(range(N), N - k + 6))], en=0)
    return J


def split_job(job, N, target):
    """Cut a job whose estimated cost exceeds the shard target (by data range for 'all', else by flips)."""
    c = job_cost(job, N)
    if c <= target:
        return [job]
    parts = int(c / target) + 1
    out = []
    if job["data"] == ["all"] and (1 << job["k"]) >= parts:
        tot = 1 << job["k"]
        step = -(-tot // parts)
        for a in range(0, tot, step):
            j = dict(job)
            j["data"] = ["range:%d:%d" % (a, min(tot, a + step))]
            out.append(j)
        return out
    fl = job["flips"]
    step = max(1, -(-len(fl) // parts))
    for a in range(0, len(fl), step):
        j = dict(job)
        j["flips"] = fl[a:a + step]
        if job.get("en", 1) == 0 and [] not in j["flips"]:
            pass
        out.append(j)
    # a width counts as fully swept when all its parts ran: keep the mark on every part, the cover set is per width
    return out


def quick_full_widths(seed):
    """quick tier: widths whose every single flip position is swept (the others get a reduced set)."""
    rng = rng_for(seed, "C18/plan")
    return set(range(1, 49)) | {57, 58, 64, 121, 128, 65 + (seed * 7) % 40}


def plan(tier, seed):
    q = tier == "quick"
    full = quick_full_widths(seed)
    target = 7.0 if q else 45.0
    items = []
    for k in range(1, KMAX + 1):
        N = code_bits(k)
        for j in width_jobs(k, N, tier, seed, (k in full) or not q):
            for part in split_job(j, N, target):
                items.append((job_cost(part, N), part))
    items.sort(key=lambda x: -x[0])
    # longest-processing-time packing into shards of about `target` seconds
    shards = []
    for c, j in items:
        best = None
        for sh in shards:
            if sh["cost"] + c <= target and (best is None or sh["cost"] < best["cost"]):
                best = sh
        if best is None:
            best = {"cost": 0.0, "cases": []}
            shards.append(best)
        best["cost"] += c
        best["cases"].append(j)
    shards.sort(key=lambda s: -s["cost"])
    out = []
    for i, sh in enumerate(shards):
        sh["cases"].sort(key=lambda j: j["k"])
        out.append({"id": "ecc%03d" % i, "cls": "ecc", "cases": sh["cases"], "est_cost_s": round(sh["cost"], 1)})
    return out
