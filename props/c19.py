"""C19 - serial peripherals and timers produce exact waveforms and always finish.

Runtime monitoring only: the real LiteX cores (RS232PHYTX/RX, RS232PHY, UART, SPIMaster, SPISlave,
I2CMaster, Timer, Watchdog, WaitTimer, timeline, PWM) are elaborated and run on the repository's
simulator; pin-level protocol monitors written from the external standards / the class documentation
(props/c19_uart.py, c19_spi.py, c19_i2c.py, c19_timers.py) decide."""
from lib.collect import Collector
from props import c19_uart, c19_spi, c19_i2c, c19_timers, c19_bone

LEVEL = "exploration"
RULE = ("one case = one simulation of one real core under one seeded stimulus: UART TX (8 tuning words clk/baud 4..33.7 incl. "
        "fractional, back-to-back / bursty / sparse producers, tuning word rewritten between frames) decoded on the tx pad; UART RX fed "
        "by a frame generator in real-valued time (+-2 % rate, 16 sub-cycle phases, zero gaps, bad stop bits); full UART behind a real "
        "CSRBank with a polling driver; SPIMaster x divider 2..33 x data width x raw/aligned x 1..4 CS lines x plain / overlapping "
        "start + MOSI rewrite / loopback / manual CS / start held, start at every divider phase, with a zero-delay MISO responder; "
        "SPISlave against a mode-0 master BFM; I2CMaster on an open-drain bus model with a slave responder: well-formed programs, "
        "commands in any order (polling idle), commands written while busy; Timer / Watchdog behind a real CSRBank under random "
        "register writes; WaitTimer, timeline, PWM under random stimulus; the serial-to-Wishbone bridge of uart.py (Stream2Wishbone, "
        "data 16/32, address 16/32/64 bit) fed command streams with byte gaps, unknown commands and commands cut short by the host "
        "(silence longer than the bridge's time-out), against a Wishbone memory BFM. Non-trivial = the monitor of the case saw at least a few "
        "complete frames / events; distinct = distinct case digests")
ASSUMPTIONS = [
    "migen tracer shim (names only)",
    "UART RX: +-2 % rate mismatch is demanded at >= 16 system cycles per bit (16x oversampling, what the usual tolerance figures assume); "
    "at 8..12.3 cycles per bit the receiver (2-flop synchroniser + edge detector, uncompensated) is only asked for +-0.5 %; clk/baud=4..7 TX only",
    "UART RX PHY source is a one-cycle strobe without back-pressure (consumer always ready); the full UART is read fast enough not to overflow its RX FIFO",
    "framing-error frames (stop slot low, followed by >= 2 bit times of idle) must not be delivered: taken from the comment in RS232PHYRX "
    "('only when RX Stop bit is seen'), the class has no docstring",
    "UART TX: a frame is 10 bit periods; the sink is acknowledged inside the stop bit; back-to-back start-to-start <= 10 bit periods + 2 cycles",
    "CSR accesses are spaced as Wishbone2CSR spaces them (>= 1 idle bus cycle after a write): EventManager.pending clears one cycle after the write",
    "SPIMaster: classes spi_master* drive the plain command Signals (with_csr=False); class spi_master_csr drives the CSR wrapper (add_csr) "
    "with the documented register layout, polling status.done from 4 cycles after the start write",
    "SPI MISO responder: mode-0 slave whose data becomes valid 0..(clock low time - 1) cycles after the falling edge / CS assertion and is held "
    "until the next falling edge (a master sampling earlier than the rising edge reads the complement)",
    "SPIMaster: divider >= 2 (0 and 1 cannot divide), length in 1..data_width, `length`/`cs`/`loopback` stable while busy (mosi may change: it is latched), "
    "for length < data_width only the low `length` bits of the miso register are compared; clock duty is floor/ceil(divider/2); "
    "CS setup/hold of half a clock period is demanded (SPI convention), the class does not document a figure",
    "SPIMaster clk_divider rewritten between transfers is a class of its own (spi_master_divchange)",
    "SPISlave: oversampling slave behind 2-flop synchronisers: SCK half period >= 2 system cycles for MOSI capture, framing and length, >= 4 for the "
    "MISO bits (they leave the slave 3 cycles after the edge), CS setup/hold >= 5 system cycles; frames of 1..data_width bits; "
    "MISO is MSB-aligned for shorter frames (not documented, follows from MSB first); the comments on SPISlave.mosi/miso are swapped in the source, "
    "the bench uses the behaviourally obvious direction (miso = word to send, mosi = word received)",
    "I2CMaster: half period = load+1 cycles with load >= 1 (with load=0 SCL toggles every cycle and the core's own 'SDA only when SCL stable' "
    "guard never opens; the register resets to 0 but the setting is physically meaningless); no clock stretching (the core does not sample SCL "
    "for that); single-bit commands only (the source marks compound commands as TODO); a repeated START / STOP preceded by an SCL rise is not a data bit; "
    "in well-formed programs every data-bit SCL high phase and every SCL low phase inside a byte must last exactly load+1 cycles",
    "I2C commands in arbitrary order (issued while idle): only the specification rules that do not depend on program well-formedness are "
    "checked (SDA stable while SCL high except START/STOP, no simultaneous SDA/SCL edges, phases >= half period, START/STOP on the bus are "
    "a subsequence of the commanded ones, idle within 22 half periods + 10 cycles)",
    "I2C commands written while the machine is busy are a class of its own (i2c_overlap)",
    "Timer: reference = docstring (hold `load` while disabled, one step per enabled cycle, `reload` taken at zero, zero level = count==0); registers "
    "are observed at the CSR storage outputs; the documentation sentence 'reload = period in clock cycles' is checked separately (timer_periodic_doc)",
    "Watchdog: the class docstring is one line; reference = CSR descriptions (feed reloads `cycles`, remaining counts down one per enabled and not "
    "paused cycle, saturates at 0, holds while disabled); the timeout event may lag the count by <= 2 cycles (registered flag); reset after "
    "reset_delay cycles of enable & reset-mode & timeout; reset_delay=0 (class default) is a class of its own",
    "WaitTimer / timeline have no docstring: done after exactly t consecutive wait cycles, cleared by wait=0; timeline events at trigger+offset, "
    "a trigger while a sequence runs (until its last offset) is ignored (what every user in LiteX relies on); last offset >= 1",
    "PWM: period >= 1 (period=0 is not defined by the docstring); checked in steady state (two counter wraps after a register change)",
    "analogue aspects (glitches between system clock edges, setup/hold in ns) are not modelled",
]
FLOORS = {
    "quick": {"uart_tx_frames_decoded": 650, "uart_rx_bytes_delivered": 380, "uart_rx_bad_stop_frames": 20, "uart_rx_zero_gap_frames": 90,
              "uart_full_tx_frames": 60, "uart_full_rx_bytes": 60, "n_uart_tx_tuning_words": 8, "n_uart_rx_tuning_words": 8,
              "n_uart_rx_phase_offsets_16th": 16, "spi_frames": 1000, "spi_clock_edges_checked": 8000, "n_spi_dividers": 12,
              "n_spi_lengths": 20, "n_spi_start_phases": 50, "spi_slave_frames": 100, "i2c_bits": 2000, "i2c_start_stop_seen": 160,
              "i2c_bytes_written": 120, "i2c_bytes_read": 60, "timer_cycles_compared": 12000, "timer_zero_events": 1000,
              "timer_one_shots_timed": 80, "timer_value_latches": 200, "watchdog_cycles": 9000, "watchdog_timeouts": 250,
              "watchdog_saturated_cycles": 3000, "waittimer_runs": 300, "timeline_sequences": 900, "pwm_periods": 600, "bone_commands": 1500, "spi_csr_transfers": 80, "spi_csr_bits": 700, "pwm_csr_periods": 250,
              "bone_wishbone_cycles": 2500, "bone_read_bytes": 3500, "bone_truncated_commands": 150, "bone_unknown_commands": 200},
    "thorough": {"uart_tx_frames_decoded": 4000, "uart_rx_bytes_delivered": 4000, "uart_rx_bad_stop_frames": 200, "uart_rx_zero_gap_frames": 900,
                 "uart_full_tx_frames": 500, "uart_full_rx_bytes": 500, "n_uart_tx_tuning_words": 8, "n_uart_rx_tuning_words": 8,
                 "n_uart_rx_phase_offsets_16th": 16, "spi_frames": 8000, "spi_clock_edges_checked": 70000, "n_spi_dividers": 14,
                 "n_spi_lengths": 30, "n_spi_start_phases": 66, "spi_slave_frames": 800, "i2c_bits": 25000, "i2c_start_stop_seen": 2000,
                 "i2c_bytes_written": 1500, "i2c_bytes_read": 800, "timer_cycles_compared": 120000, "timer_zero_events": 8000,
                 "timer_one_shots_timed": 600, "timer_value_latches": 2000, "watchdog_cycles": 80000, "watchdog_timeouts": 2000,
                 "watchdog_saturated_cycles": 20000, "waittimer_runs": 500, "timeline_sequences": 5000, "pwm_periods": 3000, "bone_commands": 30000, "spi_csr_transfers": 1500, "spi_csr_bits": 12000, "pwm_csr_periods": 1500,
                 "bone_wishbone_cycles": 50000, "bone_read_bytes": 70000, "bone_truncated_commands": 3000, "bone_unknown_commands": 4000},
}
SHARD_TIMEOUT = {"quick": 600, "thorough": 3000}
N_SAMPLES = 5

MODS = (c19_uart, c19_spi, c19_i2c, c19_timers, c19_bone)
RUN = {}
for _m in MODS:
    RUN.update(_m.RUN)

# rough cost of one case in seconds of one core (measured), used only to balance shards
COST = {"uart_tx": 0.35, "uart_rx": 0.45, "uart_full": 7.0, "spi_master": 0.4, "spi_master_divchange": 0.1, "spi_slave": 0.35,
        "i2c": 1.6, "i2c_overlap": 0.25, "timer": 0.55, "timer_periodic_doc": 0.1, "watchdog": 0.5, "watchdog_delay0": 0.3,
        "waittimer": 0.15, "timeline": 0.1, "pwm": 0.06, "uartbone": 1.5, "spi_master_csr": 0.5}


def plan(tier, seed):
    cases = []
    for m in MODS:
        cases += m.cases(tier, seed)
    target = 9.0 if tier == "quick" else 60.0
    by = {}
    for c in cases:
        by.setdefault(c["cls"], []).append(c)
    shards = []
    for cls in sorted(by):
        cs = by[cls]
        cost = COST.get(cls, 0.5) * (1.0 if tier == "quick" else 1.8)
        n = max(1, int(round(len(cs) * cost / target)))
        for i in range(n):
            part = cs[i::n]
            if part:
                shards.append({"id": "%s%03d" % (cls, i), "cls": cls, "cases": part})
    # longest first so that the pool drains evenly
    shards.sort(key=lambda s: -len(s["cases"]) * COST.get(s["cls"], 0.5))
    return shards


def run_shard(shard):
    col = Collector(shard["cls"])
    for case in shard["cases"]:
        fn = RUN[case["cls"]]
        col.guard(case, fn, col, case)
    return col.result()
