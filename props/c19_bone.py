"""C19, serial-to-Wishbone bridge in uart.py (Stream2Wishbone / UARTBone): a command stream (write/read bursts, incrementing or fixed
address) arriving byte by byte is executed as exactly the Wishbone cycles the protocol prescribes, read data is returned byte by byte
MSB first with `last` on the final byte, and no command sequence leaves the core stuck: unknown commands are skipped, a command cut
short by the host is abandoned after the bridge's time-out and the next command is executed normally."""
from migen import *

from litex.soc.cores.uart import Stream2Wishbone, CMD_WRITE_BURST_INCR, CMD_READ_BURST_INCR, CMD_WRITE_BURST_FIXED, CMD_READ_BURST_FIXED

from lib.collect import rng_for
from lib.bench.kernel import Bench
from lib.bench import stream as bs
from lib.bench.wb import WBSlave, WBProtocolMonitor
from props.c19lib import Viol, Tracer


def bone_case(col, case):
    rng = rng_for(case["seed"])
    dw, aw = case["dw"], case["aw"]
    nb, nab = dw // 8, aw // 8
    T = 600                                   # time-out of the bridge in cycles (100 ms at the clock frequency given below)
    dut = Stream2Wishbone(phy=None, clk_freq=T * 10, data_width=dw, address_width=aw)
    mem = {}
    window = 32
    abits = len(dut.wishbone.adr)           # the protocol carries aw address bits, the word-addressed bus has fewer
    base = rng.choice([0, rng.randrange(0, (1 << abits) - window), (1 << abits) - window])
    for a in range(window):
        mem[base + a] = rng.getrandbits(dw)
    model = dict(mem)
    # ---- command stream
    stream_bytes = []            # (byte, pause before it in cycles)
    exp_cycles = []              # expected wishbone cycles (adr, we, dat_w or None)
    exp_bytes = []               # expected bytes on the source, with the expected `last`
    n_cmd = {"write": 0, "read": 0, "unknown": 0, "truncated": 0}
    for ci in range(case["n"]):
        r = rng.random()
        length = rng.choice([1, 1, 2, 3, 4])
        adr = base + rng.randrange(window - length)
        if r < 0.4:
            cmd = rng.choice([CMD_WRITE_BURST_INCR, CMD_WRITE_BURST_FIXED])
        elif r < 0.8:
            cmd = rng.choice([CMD_READ_BURST_INCR, CMD_READ_BURST_FIXED])
        else:
            cmd = rng.choice([0x00, 0x05, 0x7f, 0xff, 0x10])
        incr = cmd in (CMD_WRITE_BURST_INCR, CMD_READ_BURST_INCR)
        hdr = [cmd, length] + [(adr >> (8 * (nab - 1 - k))) & 0xff for k in range(nab)]
        words = [rng.getrandbits(dw) for _ in range(length)]
        payload = []
        if cmd in (CMD_WRITE_BURST_INCR, CMD_WRITE_BURST_FIXED):
            for w in words:
                payload += [(w >> (8 * (nb - 1 - k))) & 0xff for k in range(nb)]
        full = hdr + payload
        truncated = rng.random() < 0.12 and len(full) > 1
        cut = rng.randrange(1, len(full)) if truncated else len(full)
        for k, b in enumerate(full[:cut]):
            stream_bytes.append((b, rng.choice([0, 0, 0, 1, 3])))
        if truncated:
            n_cmd["truncated"] += 1
            # the host goes silent: the bridge must drop the command after its time-out (pause counted from the last byte)
            stream_bytes.append((None, T + 30))
            done_words = max(0, (cut - len(hdr)) // nb) if payload else 0
            for k in range(done_words):
                a = (adr + k) & ((1 << aw) - 1) if incr else adr
                exp_cycles.append((a, 1, words[k]))
                model[a] = words[k]
            continue
        if cmd in (CMD_WRITE_BURST_INCR, CMD_WRITE_BURST_FIXED):
            n_cmd["write"] += 1
            for k in range(length):
                a = (adr + k) & ((1 << aw) - 1) if incr else adr
                exp_cycles.append((a, 1, words[k]))
                model[a] = words[k]
        elif cmd in (CMD_READ_BURST_INCR, CMD_READ_BURST_FIXED):
            n_cmd["read"] += 1
            for k in range(length):
                a = (adr + k) & ((1 << aw) - 1) if incr else adr
                exp_cycles.append((a, 0, None))
                v = model.get(a, 0)
                for j in range(nb):
                    exp_bytes.append(((v >> (8 * (nb - 1 - j))) & 0xff, int(k == length - 1 and j == nb - 1)))
        else:
            n_cmd["unknown"] += 1
    viol = Viol()

    class Host:
        """sends the byte stream with its pauses; a `None` entry is a silence of that many cycles with nothing offered; a byte is
        only offered while the bridge is not busy answering (a UART host waits for the read data before its next command)"""
        def __init__(self):
            self.i, self.wait, self.offering = 0, stream_bytes[0][1] if stream_bytes else 0, False
            self.sent = 0

        def signals(self):
            return [dut.sink.ready]

        def step(self, v, c):
            if self.offering and v[dut.sink.ready]:
                self.offering = False
                self.i += 1
                self.sent += 1
                self.wait = stream_bytes[self.i][1] if self.i < len(stream_bytes) else 0
            if self.offering:
                return None
            while self.i < len(stream_bytes) and stream_bytes[self.i][0] is None and self.wait == 0:
                self.i += 1
                self.wait = stream_bytes[self.i][1] if self.i < len(stream_bytes) else 0
            if self.i >= len(stream_bytes):
                return {dut.sink.valid: 0}
            if self.wait > 0:
                self.wait -= 1
                return {dut.sink.valid: 0, dut.sink.data: rng.getrandbits(8)}
            b = stream_bytes[self.i][0]
            self.offering = True
            return {dut.sink.valid: 1, dut.sink.data: b}

        def done(self):
            return self.i >= len(stream_bytes)
    host = Host()
    slv = WBSlave(dut.wishbone, rng, "mem", lat=rng.choice([(0, 0), (0, 3)]), mem=mem, err_with_ack=True)
    pm = WBProtocolMonitor(dut.wishbone, "bridge-wishbone-side", check_hold=True)
    cons = bs.SinkDriver(dut.source, bs.make_sched(rng, rng.choice(["always", "b50", "b90", "bursts"]))[0])
    om = bs.EndpointMonitor(dut.source, "read-data", check_stability=True)
    tr = Tracer([("sink_valid", dut.sink.valid), ("sink_ready", dut.sink.ready), ("sink_data", dut.sink.data), ("cyc", dut.wishbone.cyc),
                 ("we", dut.wishbone.we), ("adr", dut.wishbone.adr), ("ack", dut.wishbone.ack), ("src_valid", dut.source.valid),
                 ("src_ready", dut.source.ready), ("src_data", dut.source.data), ("src_last", dut.source.last)], depth=40)
    viol.tracer = tr

    class End:
        def __init__(self):
            self.quiet = 0

        def signals(self):
            return [dut.sink.ready, dut.wishbone.cyc, dut.source.valid]

        def step(self, v, c):
            idle = host.done() and v[dut.sink.ready] and not v[dut.wishbone.cyc] and not v[dut.source.valid]
            self.quiet = self.quiet + 1 if idle else 0
            return None

        def done(self):
            return self.quiet >= 8
    cap = sum(p for _, p in stream_bytes) + len(stream_bytes) * 4 + len(exp_cycles) * 12 + len(exp_bytes) * 6 + 3 * T + 500
    b = Bench(dut, cap=cap)
    for a in (host, slv, pm, cons, om, tr, End()):
        b.add(a)
    finished = b.run()
    got_cycles = [(e["adr"], e["we"], e["dat_w"] if e["we"] else None) for e in slv.log]
    got_bytes = [(e[3][0], e[2]) for e in om.log]
    if got_cycles != exp_cycles:
        k = next((i for i, (x, y) in enumerate(zip(got_cycles, exp_cycles)) if x != y), min(len(got_cycles), len(exp_cycles)))
        viol.add("uartbone/wishbone-cycles-differ-from-commands", "cycle %d of %d expected: bridge issued %s, the commands prescribe %s" % (
            k, len(exp_cycles), got_cycles[k:k + 2], exp_cycles[k:k + 2]), index=k, issued=len(got_cycles), expected=len(exp_cycles))
    elif [x[0] for x in got_bytes] != [x[0] for x in exp_bytes]:
        k = next((i for i, (x, y) in enumerate(zip(got_bytes, exp_bytes)) if x[0] != y[0]), min(len(got_bytes), len(exp_bytes)))
        viol.add("uartbone/read-data-bytes-differ", "byte %d of %d: sent %s, memory holds %s" % (k, len(exp_bytes), got_bytes[k:k + 3], exp_bytes[k:k + 3]),
                 index=k)
    elif got_bytes != exp_bytes:
        k = next(i for i, (x, y) in enumerate(zip(got_bytes, exp_bytes)) if x != y)
        viol.add("uartbone/last-marker-misplaced", "byte %d: last=%d, expected %d" % (k, got_bytes[k][1], exp_bytes[k][1]), index=k)
    if om.stab_viol:
        viol.add("uartbone/read-data-" + om.stab_viol[0]["kind"], str(om.stab_viol[0]))
    if pm.viol:
        viol.add("uartbone/wishbone-" + pm.viol[0]["kind"], str(pm.viol[0]))
    if not finished and not viol:
        viol.add("uartbone/stuck", "the bridge did not return to idle: %d of %d stream entries sent, %d/%d cycles, %d/%d bytes" % (
            host.i, len(stream_bytes), len(got_cycles), len(exp_cycles), len(got_bytes), len(exp_bytes)))
    col.ev("bone_commands", sum(n_cmd.values()))
    col.ev("bone_wishbone_cycles", len(got_cycles))
    col.ev("bone_read_bytes", len(got_bytes))
    col.ev("bone_truncated_commands", n_cmd["truncated"])
    col.ev("bone_unknown_commands", n_cmd["unknown"])
    col.cov("bone_configs", "dw%d/aw%d" % (dw, aw))
    viol.flush(col, case, tr, extra={"dut": "Stream2Wishbone(data_width=%d, address_width=%d)" % (dw, aw)})
    col.case_done(case, nontrivial=len(got_cycles) >= 10, sample={"case": case, "commands": n_cmd, "wishbone_cycles": len(got_cycles),
                                                                  "read_bytes": len(got_bytes)})


def cases(tier, seed):
    n = 150 if tier == "quick" else 3000
    out = []
    for k in range(n):
        dw, aw = [(32, 32), (16, 16), (32, 16), (16, 32), (32, 64), (16, 64)][k % 6]       # 8-bit data or address is accepted by the asserts but does not elaborate (Signal of width 0)
        out.append({"cls": "uartbone", "dw": dw, "aw": aw, "n": 14, "seed": "%d/C19/uartbone/%d" % (seed, k)})
    return out


RUN = {"uartbone": bone_case}
