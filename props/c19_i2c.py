"""C19 I2C: the real I2CMaster on an open-drain bus model (wired AND of the master's tristate
drivers and a slave responder), a bus decoder written from the I2C-bus specification (UM10204):
SDA may change only while SCL is low, except START (SDA falls while SCL high) and STOP (SDA rises
while SCL high); bytes are 8 bits MSB first + acknowledge; START/STOP only at byte boundaries."""
from migen import Module, Signal, TSTriple

from litex.soc.cores.i2c import I2CMaster

from lib.collect import rng_for
from lib.bench.kernel import Bench
from props.c19lib import Tracer, Viol, Forcer

ACK, READ, WRITE, START, STOP, IDLE = (1 << i for i in range(8, 14))


class I2CTop(Module):
    def __init__(self):
        class Pads:
            pass
        pads = Pads()
        pads.scl = TSTriple()
        pads.sda = TSTriple()
        self.pads = pads
        self.submodules.dut = I2CMaster(pads)
        self.slave_sda = Signal(reset=1)     # 0: the slave pulls the line low
        self.scl = Signal()
        self.sda = Signal()
        self.sda_m = Signal()                # what the master alone puts on SDA
        self.comb += [
            self.scl.eq(~(pads.scl.oe & ~pads.scl.o)),
            self.sda_m.eq(~(pads.sda.oe & ~pads.sda.o)),
            self.sda.eq(self.sda_m & self.slave_sda),
            pads.scl.i.eq(self.scl),
            pads.sda.i.eq(self.sda),
        ]


class WBMaster:
    """Classic Wishbone master. prog yields ("w", adr, data) | ("r", adr) | ("idle", n); a read sends
    back dat_r. strobes: [(cycle the request was first on the bus, adr, data)] for writes."""
    def __init__(self, bus, prog):
        self.bus, self.prog = bus, prog
        self.state = "fetch"
        self.wait = 0
        self.finished = False
        self._send = None
        self.writes = []
        self.op = None

    def signals(self):
        return [self.bus.ack, self.bus.dat_r]

    def step(self, v, c):
        b = self.bus
        if self.state == "req":
            if v[b.ack]:
                if self.op[0] == "r":
                    self._send = v[b.dat_r]
                self.state = "fetch"
                self.wait = 0
                return {b.cyc: 0, b.stb: 0, b.we: 0}
            return None
        if self.wait > 0:
            self.wait -= 1
            return None
        if self.finished:
            return None
        try:
            s, self._send = self._send, None
            op = self.prog.send(s)
        except StopIteration:
            self.finished = True
            return None
        self.op = op
        if op[0] == "idle":
            self.wait = max(0, op[1] - 1)
            return None
        self.state = "req"
        if op[0] == "w":
            self.writes.append((c + 1, op[1], op[2]))
            return {b.cyc: 1, b.stb: 1, b.we: 1, b.adr: op[1], b.dat_w: op[2]}
        return {b.cyc: 1, b.stb: 1, b.we: 0, b.adr: op[1]}

    def done(self):
        return self.finished and self.state == "fetch"


class BusDecoder:
    """I2C bus monitor (specification rules only)."""
    def __init__(self, top, viol, T, name, strict_bytes=True):
        self.top, self.viol, self.T, self.name = top, viol, T, name
        self.strict_bytes = strict_bytes      # START/STOP must sit on a byte boundary (well-formed programs only)
        self.prev = None
        self.events = []          # ("S", c) ("P", c) ("b", bit, c)
        self.scl_rise = None
        self.scl_fall = None
        self.sda_edge = None
        self.in_txn = False
        self.nbits = 0
        self.bits_checked = 0
        self.ss = 0
        self.tentative = None
        self.periods_checked = 0

    def signals(self):
        return [self.top.scl, self.top.sda, self.top.sda_m]

    def step(self, v, c):
        scl, sda, sdam = v[self.top.scl], v[self.top.sda], v[self.top.sda_m]
        V, n, T = self.viol, self.name, self.T
        if self.prev is not None:
            pscl, psda, psdam = self.prev
            if scl != pscl:
                if scl:
                    if self.scl_fall is not None and c - self.scl_fall < T:
                        V.add(n + "/scl-low-short", "SCL low for %d cycles, programmed half period %d" % (c - self.scl_fall, T), cycle=c)
                    elif self.strict_bytes and self.in_txn and self.nbits % 9 != 0 and self.scl_fall is not None and c - self.scl_fall != T:
                        V.add(n + "/scl-period", "SCL low for %d cycles inside a byte, programmed half period %d" % (c - self.scl_fall, T), cycle=c)
                    self.scl_rise = c
                    self.tentative = ("b", sda, c) if self.in_txn else None     # a bit counts once SCL fell again with SDA unchanged
                else:
                    if self.scl_rise is not None and c - self.scl_rise < T:
                        V.add(n + "/scl-high-short", "SCL high for %d cycles, programmed half period %d" % (c - self.scl_rise, T), cycle=c)
                    self.scl_fall = c
                    if self.tentative is not None:
                        if self.strict_bytes and c - self.scl_rise != T:
                            V.add(n + "/scl-period", "SCL high for %d cycles on a data bit, programmed half period %d" % (c - self.scl_rise, T), cycle=c)
                        self.periods_checked += 1
                        self.events.append(self.tentative)
                        self.tentative = None
                        self.nbits += 1
                        self.bits_checked += 1
            if sdam != psdam:
                # rule on the master's own driver
                if pscl != scl:
                    V.add(n + "/sda-change-with-scl-edge", "master changes SDA in the same cycle as SCL %s" % ("rises" if scl else "falls"), cycle=c)
                elif scl and not (sda != psda):
                    pass
            if sda != psda:
                if pscl and scl:
                    self.ss += 1
                    self.tentative = None
                    if sda == 0:
                        if self.strict_bytes and self.in_txn and self.nbits % 9 != 0:
                            V.add(n + "/sda-change-while-scl-high", "START condition in the middle of a byte (bit %d)" % (self.nbits % 9), cycle=c)
                        self.events.append(("S", c))
                        self.in_txn = True
                        self.nbits = 0
                        if self.scl_rise is not None and c - self.scl_rise < T:
                            V.add(n + "/start-setup", "SDA falls %d cycles after SCL rose (half period %d)" % (c - self.scl_rise, T), cycle=c)
                        self.start_at = c
                    else:
                        if self.strict_bytes and self.in_txn and self.nbits % 9 != 0:
                            V.add(n + "/sda-change-while-scl-high", "STOP condition in the middle of a byte (bit %d)" % (self.nbits % 9), cycle=c)
                        self.events.append(("P", c))
                        self.in_txn = False
                        if self.scl_rise is not None and c - self.scl_rise < T:
                            V.add(n + "/stop-setup", "SDA rises %d cycles after SCL rose (half period %d)" % (c - self.scl_rise, T), cycle=c)
                elif pscl != scl and sdam != psdam:
                    pass        # reported above
            if scl == 0 and pscl == 1 and self.events and self.events[-1][0] == "S":
                if c - self.events[-1][1] < T:
                    V.add(n + "/start-hold", "SCL falls %d cycles after the START condition (half period %d)" % (c - self.events[-1][1], T), cycle=c)
        self.prev = (scl, sda, sdam)
        return None

    def tokens(self):
        """-> list of "S", "P", ("B", byte, ackbit) ; leftover bits -> ("X", bits)"""
        out, cur = [], []
        for e in self.events:
            if e[0] == "b":
                cur.append(e[1])
                if len(cur) == 9:
                    out.append(("B", sum(b << (7 - i) for i, b in enumerate(cur[:8])), cur[8]))
                    cur = []
            else:
                if cur:
                    out.append(("X", cur))
                    cur = []
                out.append(e[0])
        if cur:
            out.append(("X", cur))
        return out


class Slave:
    """Slave responder on the bus (acts one cycle after the SCL edge it reacts to)."""
    def __init__(self, top, rng, nack_p, active=True):
        self.top, self.rng, self.nack_p, self.active = top, rng, nack_p, active
        self.prev = None
        self.k = None              # falling edges since START
        self.rx = []
        self.tx_mode = False
        self.first = True
        self.cur = 0
        self.sent = []             # bytes offered for reading
        self.acks = []             # ack decision per received byte
        self.received = []
        self.byte = 0

    def signals(self):
        return [self.top.scl, self.top.sda]

    def step(self, v, c):
        scl, sda = v[self.top.scl], v[self.top.sda]
        w = None
        if self.prev is not None and self.active:
            pscl, psda = self.prev
            if pscl and scl and psda != sda:
                if sda == 0:
                    self.k, self.rx, self.tx_mode, self.first = 0, [], False, True
                else:
                    self.k = None
                w = {self.top.slave_sda: 1}
            elif self.k is not None:
                if not pscl and scl:
                    slot = (self.k - 1) % 9 if self.k else None
                    if slot is not None:
                        if slot < 8 and not self.tx_mode:
                            self.rx.append(sda)
                        if slot == 8 and self.tx_mode and sda == 1:
                            self.tx_mode = False          # master NACK: stop sending
                if pscl and not scl:
                    slot = self.k % 9
                    self.k += 1
                    if self.tx_mode:
                        if slot == 0:
                            self.cur = self.rng.getrandbits(8)
                            self.sent.append(self.cur)
                        w = {self.top.slave_sda: (self.cur >> (7 - slot)) & 1 if slot < 8 else 1}
                    else:
                        if slot == 8:
                            byte = sum(b << (7 - i) for i, b in enumerate(self.rx[-8:])) if len(self.rx) >= 8 else 0
                            self.rx = []
                            ack = self.rng.random() >= self.nack_p
                            self.acks.append(ack)
                            self.received.append(byte)
                            self.pending_mode = ack and self.first and (byte & 1)
                            self.first = False
                            w = {self.top.slave_sda: 0 if ack else 1}
                        elif slot == 0 and self.k > 1:
                            w = {self.top.slave_sda: 1}
                            if getattr(self, "pending_mode", False):
                                self.tx_mode = True
                                self.pending_mode = False
                                self.cur = self.rng.getrandbits(8)
                                self.sent.append(self.cur)
                                w = {self.top.slave_sda: (self.cur >> 7) & 1}
        self.prev = (scl, sda)
        return w


def legal_script(rng, n_txn):
    """-> list of command dicts of a well-formed master program (decisions that depend on ACKs are taken at run time)."""
    txns = []
    for _ in range(n_txn):
        rw = rng.getrandbits(1)
        txns.append({"addr": rng.getrandbits(7), "rw": rw, "n": rng.randint(1, 3), "data": [rng.getrandbits(8) for _ in range(3)],
                     "restart": rng.random() < 0.35})
    return txns


def polite_case(col, case):
    rng = rng_for(case["seed"])
    load = case["load"]
    T = load + 1
    top = I2CTop()
    viol = Viol()
    name = "i2c"
    dec = BusDecoder(top, viol, T, name, strict_bytes=(case["kind"] == "legal"))
    slave = Slave(top, rng, case.get("nack_p", 0.1), active=True)
    cmds = []          # (kind, value, result dict)
    state = {"stuck": False}
    bound = 22 * T + 10

    def issue(word, kind, **kw):
        rec = dict(kind=kind, word=word, **kw)
        cmds.append(rec)
        yield ("w", 0, word)
        polls = 0
        while True:
            st = yield ("r", 0)
            polls += 1
            if st & IDLE:
                break
            if polls * 3 > bound:
                state["stuck"] = True
                viol.add(name + "/stuck", "machine not idle %d cycles after command %s (half period %d)" % (polls * 3, kind, T),
                         command_index=len(cmds) - 1)
                return None
        rec["status"] = st
        if rng.random() < 0.5:
            yield ("idle", rng.randint(1, 2 * T + 3))
        return st

    def prog_legal():
        yield ("w", 1, load)
        txns = legal_script(rng, case["n"])
        open_ = False
        for t in txns:
            st = yield from issue(START, "S")
            if st is None:
                return
            open_ = True
            st = yield from issue(WRITE | (t["addr"] << 1) | t["rw"], "W", data=(t["addr"] << 1) | t["rw"])
            if st is None:
                return
            if st & ACK:
                for i in range(t["n"]):
                    if t["rw"]:
                        last = i == t["n"] - 1
                        st = yield from issue(READ | (0 if last else ACK), "R", ack=0 if last else 1)
                        if st is None:
                            return
                    else:
                        st = yield from issue(WRITE | t["data"][i], "W", data=t["data"][i])
                        if st is None:
                            return
                        if not (st & ACK):
                            break
            if not t["restart"]:
                st = yield from issue(STOP, "P")
                if st is None:
                    return
                open_ = False
        if open_:
            yield from issue(STOP, "P")

    def prog_any():
        yield ("w", 1, load)
        for _ in range(case["n"]):
            k = rng.choice("SSPPWWWRR")
            if k == "S":
                st = yield from issue(START, "S")
            elif k == "P":
                st = yield from issue(STOP, "P")
            elif k == "W":
                d = rng.getrandbits(8)
                st = yield from issue(WRITE | d, "W", data=d)
            else:
                a = rng.getrandbits(1)
                st = yield from issue(READ | (ACK if a else 0), "R", ack=a)
            if st is None:
                return
    legal = case["kind"] == "legal"
    prog = prog_legal() if legal else prog_any()
    wb = WBMaster(top.dut.bus, prog)
    i2c = top.dut.i2c
    tr = Tracer([("scl", top.scl), ("sda", top.sda), ("sda_m", top.sda_m), ("slave_sda", top.slave_sda), ("idle", i2c.idle),
                 ("start", i2c.start), ("stop", i2c.stop), ("write", i2c.write), ("read", i2c.read)], depth=60)
    viol.tracer = tr
    ncmd_max = case["n"] * (7 if legal else 1) + 2
    cap = ncmd_max * (bound + 2 * T + 12) + 200
    b = Bench(top, cap=cap, drain=2 * T + 4)
    for a in (wb, slave, dec, tr, Forcer(lambda: state["stuck"])):
        b.add(a)
    fin = b.run()
    if not fin and not state["stuck"]:
        col.inconc(case, "cycle cap %d reached in the I2C bench (harness budget)" % cap)
    toks = dec.tokens()
    col.ev("i2c_bits", dec.bits_checked)
    col.ev("i2c_start_stop_seen", dec.ss)
    col.ev("i2c_commands", len(cmds))
    col.cov("i2c_loads", load)
    col.cov("i2c_kinds", case["kind"])
    done_cmds = [r for r in cmds if "status" in r]
    col.cov("i2c_command_sequences", "".join(r["kind"] for r in cmds)[:24])
    if legal and not state["stuck"] and fin:
        want = ["B" if r["kind"] in "WR" else r["kind"] for r in done_cmds]
        got = [t if isinstance(t, str) else t[0] for t in toks]
        if want != got:
            viol.add(name + "/sequence", "bus shows %s for the commands %s" % ("".join(got), "".join(want)), tokens=[str(t) for t in toks][:40])
        else:
            si = 0
            ri = 0
            rx_i = 0
            for r, t in zip(done_cmds, toks):
                if r["kind"] == "W":
                    _, byte, ackbit = t
                    col.ev("i2c_bytes_written")
                    if byte != r["data"]:
                        viol.add(name + "/write-data", "byte on the bus %s, byte commanded %s" % (hex(byte), hex(r["data"])))
                    if bool(r["status"] & ACK) != (ackbit == 0):
                        viol.add(name + "/ack-flag", "ack flag %d, acknowledge bit on the bus %d" % (bool(r["status"] & ACK), ackbit))
                    if rx_i < len(slave.acks) and slave.acks[rx_i] != (ackbit == 0):
                        viol.add(name + "/ack-bit", "slave %s but the bus shows %d in the acknowledge slot" % ("acked" if slave.acks[rx_i] else "nacked", ackbit))
                    rx_i += 1
                elif r["kind"] == "R":
                    _, byte, ackbit = t
                    col.ev("i2c_bytes_read")
                    if (r["status"] & 0xff) != byte:
                        viol.add(name + "/read-data", "data register %s, byte on the bus %s" % (hex(r["status"] & 0xff), hex(byte)))
                    if si < len(slave.sent) and slave.sent[si] != byte:
                        viol.add(name + "/read-data", "slave sent %s, bus decoder saw %s" % (hex(slave.sent[si]), hex(byte)))
                    si += 1
                    if (ackbit == 0) != bool(r["ack"]):
                        viol.add(name + "/master-ack", "acknowledge slot %d for a read commanded with ack=%d" % (ackbit, r["ack"]))
    elif not legal:
        want = [r["kind"] for r in cmds if r["kind"] in "SP"]
        got = [t for t in toks if isinstance(t, str)]
        it = iter(want)
        if not all(any(g == w for w in it) for g in got):
            viol.add(name + "/spurious-start-stop", "START/STOP conditions on the bus %s are not a subsequence of the commanded ones %s"
                     % ("".join(got), "".join(want)))
    viol.flush(col, case, tr, extra={"load": load})
    col.case_done(case, nontrivial=dec.bits_checked >= 18 or not legal,
                  sample={"case": case, "commands": "".join(r["kind"] for r in cmds), "bus": [str(t) for t in toks[:12]]})


def overlap_case(col, case):
    """Commands written without waiting for idle (class of its own, keys i2c_overlap/...)."""
    rng = rng_for(case["seed"])
    load = case["load"]
    T = load + 1
    top = I2CTop()
    viol = Viol()
    name = "i2c_overlap"
    dec = BusDecoder(top, viol, T, name, strict_bytes=False)
    slave = Slave(top, rng, 0.0, active=False)
    cmds = []

    def prog():
        yield ("w", 1, load)
        yield ("w", 0, START)
        cmds.append("S")
        yield ("idle", 3 * T)
        for _ in range(case["n"]):
            k = rng.choice("SPWWWRR")
            word = {"S": START, "P": STOP, "W": WRITE | rng.getrandbits(8), "R": READ | (ACK if rng.getrandbits(1) else 0)}[k]
            cmds.append(k)
            yield ("w", 0, word)
            yield ("idle", rng.choice([1, 2, 3, T, 2 * T, rng.randint(1, 20 * T), rng.randint(1, 6 * T)]))
    wb = WBMaster(top.dut.bus, prog())
    i2c = top.dut.i2c
    tr = Tracer([("scl", top.scl), ("sda", top.sda), ("sda_m", top.sda_m), ("idle", i2c.idle),
                 ("start", i2c.start), ("stop", i2c.stop), ("write", i2c.write), ("read", i2c.read)], depth=60)
    viol.tracer = tr
    end = {"c": None, "idle_at": None}

    class IdleWatch:
        now = 0

        def signals(self):
            return [i2c.idle]

        def step(self, v, c):
            self.now = c
            if wb.done():
                if end["c"] is None:
                    end["c"] = c
                if v[i2c.idle] and end["idle_at"] is None:
                    end["idle_at"] = c
            return None

        def done(self):
            return end["idle_at"] is not None or (end["c"] is not None and self.now - end["c"] > 22 * T + 10)
    iw = IdleWatch()
    cap = case["n"] * (8 * T + 12) + 40 * T + 300
    b = Bench(top, cap=cap, drain=2)
    for a in (wb, slave, dec, tr, iw):
        b.add(a)
    fin = b.run()
    col.ev("i2c_overlap_bits", dec.bits_checked)
    col.ev("i2c_overlap_commands", len(cmds))
    col.cov("i2c_overlap_loads", load)
    if not fin:
        col.inconc(case, "cycle cap in the I2C overlap bench")
    elif end["idle_at"] is None:
        viol.add(name + "/stuck", "machine not idle %d cycles after the last command" % (22 * T + 10))
    want = [k for k in cmds if k in "SP"]
    got = [t for t in dec.tokens() if isinstance(t, str)]
    it = iter(want)
    if not all(any(g == w for w in it) for g in got):
        viol.add(name + "/spurious-start-stop", "START/STOP conditions on the bus %s are not a subsequence of the commanded ones %s"
                 % ("".join(got), "".join(want)), commands="".join(cmds))
    # one mechanism: a command strobe while the bit machine is busy clocks it early
    cut = ("/scl-low-short", "/scl-high-short", "/start-hold", "/start-setup", "/stop-setup")
    viol.items = [((name + "/phase-cut-short-by-command") if k.endswith(cut) else k, w, x) for k, w, x in viol.items]
    viol.flush(col, case, tr, extra={"load": load, "commands": "".join(cmds)})
    col.case_done(case, nontrivial=len(cmds) >= 4, sample=None)


def cases(tier, seed):
    q = tier == "quick"
    out = []
    k = 0
    for rep in range(2 if q else 15):
        for load in (1, 2, 3, 4, 7, 12):
            out.append({"cls": "i2c", "seed": "%d/C19/i2c/%d" % (seed, k), "kind": "legal", "load": load,
                        "n": max(2, int((40 if q else 80) / (load + 1)))})
            k += 1
            out.append({"cls": "i2c", "seed": "%d/C19/i2c/%d" % (seed, k), "kind": "any", "load": load,
                        "n": max(6, int((100 if q else 200) / (load + 1)))})
            k += 1
    for rep in range(3 if q else 12):
        for load in (1, 3, 6):
            out.append({"cls": "i2c_overlap", "seed": "%d/C19/i2c_overlap/%d" % (seed, k), "load": load, "n": 12})
            k += 1
    return out


RUN = {"i2c": polite_case, "i2c_overlap": overlap_case}
