"""C19 SPI: pin-level mode-0 monitor on the real SPIMaster (with a zero-delay shift-out responder on
MISO) and a master bus-functional model against the real SPISlave. The oracle is the SPI mode-0
convention the class docstrings name (CPOL=0: clock idles low, CPHA=0: data sampled on the rising
edge, changed on the falling edge; MSB first; CS frames the transfer)."""
from migen import Module, Signal, Record, Array, If

from litex.soc.cores.spi.spi_master import SPIMaster
from litex.soc.cores.spi.spi_slave import SPISlave

from lib.collect import rng_for
from lib.bench.kernel import Bench
from props.c19lib import Tracer, Viol, Forcer

RESP_BITS = 64


class MasterTop(Module):
    def __init__(self, dw, div, mode, ncs, with_csr=False):
        pads = Record([("clk", 1), ("cs_n", ncs), ("mosi", 1), ("miso", 1)])
        self.pads = pads
        self.submodules.dut = SPIMaster(pads, dw, sys_clk_freq=div, spi_clk_freq=1, with_csr=with_csr, mode=mode)
        # mode-0 responder: bit 0 of the answer is on MISO while the clock is still low, the next bit
        # appears together with every falling edge of the clock (no delay).
        # `vd`: output delay of the slave: for vd cycles after the falling edge (or CS assertion) MISO still shows the
        # complement of the new bit (data not yet valid); legal up to (low time - 1).
        self.resp = Signal(RESP_BITS)
        self.vd = Signal(8)
        clk_d = Signal()
        cs_d = Signal()
        cnt = Signal(max=RESP_BITS)
        fall = Signal()
        idx = Signal(max=RESP_BITS)
        cs_act = Signal()
        age_r = Signal(8)
        age = Signal(8)
        bit = Signal()
        self.sync += clk_d.eq(pads.clk), cs_d.eq(cs_act)
        self.comb += [
            cs_act.eq(pads.cs_n != (2**ncs - 1)),
            fall.eq(clk_d & ~pads.clk), idx.eq(cnt + fall),
            If(fall | (cs_act & ~cs_d), age.eq(0)).Else(age.eq(age_r)),
            bit.eq(Array(self.resp[RESP_BITS - 1 - i] for i in range(RESP_BITS))[idx]),
            pads.miso.eq(bit ^ (age < self.vd)),
        ]
        self.sync += If(age != 255, age_r.eq(age + 1))
        self.sync += If(~cs_act, cnt.eq(0)).Elif(fall, cnt.eq(cnt + 1))


class MasterDriver:
    """Issues the planned transfers; overlapping start pulses and MOSI register changes while busy."""
    def __init__(self, top, plan, rng, dw):
        self.d, self.top, self.plan, self.rng, self.dw = top.dut, top, list(plan), rng, dw
        self.i = 0
        self.state = "idle"
        self.cnt = 0
        self.t = 0
        self.cur = None
        self.finished = False

    def signals(self):
        return [self.d.done, self.d.start]

    def _params(self, it):
        d = self.d
        return {d.length: it["length"], d.mosi: it["mosi"], d.cs: it["cs"], d.loopback: it["loop"],
                d.cs_mode: it["manual"], self.top.resp: it["resp"], self.top.vd: it["vd"]}

    def step(self, v, c):
        d = self.d
        if self.state == "busy":
            it = self.cur
            self.t += 1
            if v[d.done] and not v[d.start] and self.t > 1:
                self.state = "idle"
            else:
                w = {d.start: int(self.t < it["hold"] or self.t in it["overlaps"])}
                if it["glitch"]:
                    w[d.mosi] = self.rng.getrandbits(self.dw)
                return w
        if self.state == "idle":
            if self.i >= len(self.plan):
                self.finished = True
                return {d.start: 0}
            self.cur = self.plan[self.i]
            self.i += 1
            self.cnt = self.cur["gap"]
            self.state = "gap"
        it = self.cur
        w = {d.start: 0}
        if it["div"] is not None:
            w[d.clk_divider] = it["div"]
        if it["early"] or it["manual"]:
            w.update(self._params(it))
        if self.cnt > 0:
            self.cnt -= 1
            return w
        w.update(self._params(it))
        w[d.start] = 1
        self.t = 0
        self.state = "busy"
        return w

    def done(self):
        return self.finished


class MasterMonitor:
    """History + pin monitor. Learns the commands from the core's own command inputs (an accepted
    start is a start while the model is idle), checks the pins against mode 0."""
    def __init__(self, top, dw, mode, ncs, viol, manual):
        self.top, self.d, self.p = top, top.dut, top.pads
        self.dw, self.mode, self.ncs, self.viol, self.manual = dw, mode, ncs, viol, manual
        d, p = self.d, self.p
        self._sigs = [d.start, d.length, d.mosi, d.cs, d.cs_mode, d.loopback, d.clk_divider, d.done, d.irq, d.miso,
                      p.clk, p.cs_n, p.mosi, p.miso]
        self.idle = True
        self.cur = None             # running transfer
        self.transfers = []         # finished
        self.prev = None
        self.check_miso = None
        self.edges = 0
        self.bits = 0
        self.cs_frames = 0
        self.latencies = set()
        self.phases = set()
        self.last_fall = None
        self.stuck = False
        self.all1 = (1 << ncs) - 1
        self.pcmd = (0, 0)
        self.frame = None
        self.pmiso = 0

    def signals(self):
        return self._sigs

    def expected_bits(self, mosi, length):
        if self.mode == "aligned":
            return [(mosi >> (length - 1 - i)) & 1 for i in range(length)]
        return [(mosi >> (self.dw - 1 - i)) & 1 for i in range(length)]

    def step(self, v, c):
        d, p, V = self.d, self.p, self.viol
        clk, csn, mosi, miso = v[p.clk], v[p.cs_n], v[p.mosi], v[p.miso]
        pv = self.prev
        # ---- MISO register check scheduled by the irq of the previous cycle
        if self.check_miso is not None:
            t = self.check_miso
            self.check_miso = None
            L = t["length"]
            got = v[d.miso] & ((1 << L) - 1)
            src = t["mosi_seen"] if t["loop"] else t["miso_seen"]
            exp = 0
            for b in src[-L:]:
                exp = (exp << 1) | b
            if len(src) == L and got != exp:
                V.add("spi_master/miso-capture", "miso register low %d bits = %s, bits present at the sampling edges = %s%s"
                      % (L, bin(got), bin(exp), " (loopback)" if t["loop"] else ""), cycle=c, transfer=t["n"])
        # ---- command level
        start = v[d.start]
        accepted = False
        if self.idle and start:
            accepted = True
            div = v[d.clk_divider]
            self.cur = {"n": len(self.transfers), "accept": c, "length": v[d.length], "mosi": v[d.mosi], "cs": v[d.cs],
                        "loop": v[d.loopback], "div": div, "rises": [], "falls": [], "mosi_seen": [], "miso_seen": [],
                        "cs_fall": None, "cs_rise": None, "phase": c % div if div else 0,
                        "bound": (v[d.length] + 2) * div + 6}
            self.idle = False
            if div <= 16:
                self.phases.add((div, c % div))
        exp_done = 1 if (self.idle and not start) else 0
        if v[d.done] != exp_done:
            V.add("spi_master/done-flag", "done=%d while the transfer model says %s" % (v[d.done], "idle" if self.idle else "busy"), cycle=c)
        t = self.cur
        # ---- pin level
        sel_now = (~csn) & self.all1
        if pv is not None:
            pclk, pcsn, pmosi = pv
            psel = (~pcsn) & self.all1
            rise = pclk == 0 and clk == 1
            fall = pclk == 1 and clk == 0
            run = t if (t is not None and not accepted) else None      # transfer that owns this cycle's pin activity
            if not self.manual:
                fr = self.frame
                if psel == 0 and sel_now != 0:
                    self.cs_frames += 1
                    if run is None or run["cs_fall"] is not None:
                        V.add("spi_master/cs-framing", "CS asserted %s" % ("while no transfer is running" if run is None
                                                                             else "twice inside one transfer"), cycle=c)
                    else:
                        run["cs_fall"] = c
                        self.latencies.add(c - run["accept"])
                    self.frame = fr = {"owner": run, "fall": c}
                    if clk:
                        V.add("spi_master/cs-framing", "CS asserted while the clock is high", cycle=c)
                if fr is not None and fr["owner"] is not None and sel_now & ~(fr["owner"]["cs"] & self.all1):
                    V.add("spi_master/wrong-cs", "cs_n=%s asserts a line outside sel=%s" % (bin(csn), bin(fr["owner"]["cs"])), cycle=c)
                if psel != 0 and sel_now == 0:
                    o = fr["owner"] if fr is not None else None
                    self.frame = None
                    if clk or pclk:
                        V.add("spi_master/cs-framing", "CS released while the clock is high", cycle=c)
                    if o is not None:
                        o["cs_rise"] = c
                        if o["falls"] and c - o["falls"][-1] < max(1, o["div"] // 2):
                            V.add("spi_master/cs-release", "CS released %d cycles after the last falling clock edge (half period %d)"
                                  % (c - o["falls"][-1], o["div"] // 2), cycle=c)
                        if "irq" not in o:
                            V.add("spi_master/cs-release", "CS released before the end of the transfer (%d of %d clock pulses seen)"
                                  % (len(o["rises"]), o["length"]), cycle=c)
            if run is not None:
                if rise:
                    self.edges += 1
                    run["rises"].append(c)
                    run["mosi_seen"].append(pmosi)
                    run["miso_seen"].append(self.pmiso)
                    if mosi != pmosi:
                        V.add("spi_master/mosi-unstable", "MOSI changes together with the rising (sampling) clock edge", cycle=c)
                    if not self.manual:
                        if self.frame is None or self.frame["owner"] is not run:
                            V.add("spi_master/clk-outside-cs", "rising clock edge outside the CS frame of its transfer", cycle=c)
                        elif len(run["rises"]) == 1 and c - run["cs_fall"] < max(1, run["div"] // 2):
                            V.add("spi_master/cs-setup", "first rising edge %d cycles after CS assertion (half period %d)"
                                  % (c - run["cs_fall"], run["div"] // 2), cycle=c)
                    if len(run["rises"]) > 1 and c - run["rises"][-2] != run["div"]:
                        V.add("spi_master/clock-period", "rising-to-rising distance %d, divider %d" % (c - run["rises"][-2], run["div"]), cycle=c)
                if fall:
                    run["falls"].append(c)
                    hi = c - run["rises"][-1] if run["rises"] else None
                    if hi is not None and hi not in (run["div"] // 2, run["div"] - run["div"] // 2):
                        V.add("spi_master/clock-duty", "clock high for %d cycles, divider %d" % (hi, run["div"]), cycle=c)
                if clk and pclk and mosi != pmosi:
                    V.add("spi_master/mosi-unstable", "MOSI changes while the clock is high", cycle=c)
            elif rise or clk:
                V.add("spi_master/clk-outside-cs", "clock active while no transfer is running", cycle=c)
            if self.pcmd[0] and sel_now != (self.pcmd[1] & self.all1):
                V.add("spi_master/manual-cs", "manual CS mode: cs_n=%s one cycle after sel=%s" % (bin(csn), bin(self.pcmd[1])), cycle=c)
        self.pcmd = (v[d.cs_mode], v[d.cs])
        # ---- end of transfer
        if v[d.irq]:
            if t is None or accepted:
                V.add("spi_master/irq", "irq pulse while no transfer is running", cycle=c)
            else:
                t["irq"] = c
                self._finish(t, c)
                self.check_miso = t
                self.transfers.append(t)
                self.cur = None
                self.idle = True
        elif t is not None and c - t["accept"] > t["bound"] and not self.stuck:
            self.stuck = True
            V.add("spi_master/stuck", "no end of transfer %d cycles after the accepted start (length %d, divider %d, bound %d)"
                  % (c - t["accept"], t["length"], t["div"], t["bound"]), cycle=c, rises=len(t["rises"]),
                  start_phase=t["phase"])
        self.prev = (clk, csn, mosi)
        self.pmiso = miso
        return None

    def _finish(self, t, c):
        V = self.viol
        L = t["length"]
        self.bits += len(t["rises"])
        if len(t["rises"]) != L:
            V.add("spi_master/clock-count", "%d clock pulses in a transfer of length %d" % (len(t["rises"]), L), cycle=c,
                  transfer=t["n"], divider=t["div"], start_phase=t["phase"])
        if len(t["falls"]) != len(t["rises"]):
            V.add("spi_master/clock-count", "%d rising but %d falling edges before the end-of-transfer pulse"
                  % (len(t["rises"]), len(t["falls"])), cycle=c)
        exp = self.expected_bits(t["mosi"], L)
        if t["mosi_seen"][:L] != exp[:len(t["mosi_seen"])] and len(t["rises"]) == L:
            V.add("spi_master/mosi-data", "MOSI at the sampling edges %s, expected %s (mosi=%s length=%d mode=%s)"
                  % (t["mosi_seen"], exp, hex(t["mosi"]), L, self.mode), cycle=c, transfer=t["n"])
        if not self.manual and t["cs_fall"] is None:
            V.add("spi_master/cs-framing", "transfer finished without any CS assertion", cycle=c)

    def after_end(self, c_end):
        """after the run: every CS frame was closed right after the end-of-transfer pulse"""
        if self.manual:
            return
        for t in self.transfers:
            if t["cs_fall"] is None:
                continue
            if t["cs_rise"] is None:
                if c_end - t["irq"] > 4:
                    self.viol.add("spi_master/cs-release", "CS never released after the end of the transfer", transfer=t["n"])
            elif t["cs_rise"] - t["irq"] > 4:
                self.viol.add("spi_master/cs-release", "CS released %d cycles after the end-of-transfer pulse" % (t["cs_rise"] - t["irq"]),
                              transfer=t["n"])


def master_plan(rng, n, dw, div, ncs, kind):
    plan = []
    for i in range(n):
        L = rng.choice([1, dw, rng.randint(1, dw), rng.randint(1, dw)])
        g = rng.random()
        gap = 0 if g < 0.3 else rng.randint(0, 2 * div + 3)
        ov = []
        if kind in ("overlap", "mixed") and rng.random() < 0.8:
            total = (L + 2) * div
            ov = sorted(set(rng.randint(1, total) for _ in range(rng.randint(1, 6))))
        plan.append({"gap": gap, "length": L, "mosi": rng.getrandbits(dw), "cs": 1 << rng.randrange(ncs) if rng.random() < 0.85 else rng.randint(1, 2**ncs - 1),
                     "loop": int(kind == "loopback" or (kind == "mixed" and rng.random() < 0.2)), "manual": int(kind == "manual"),
                     "resp": rng.getrandbits(RESP_BITS), "vd": rng.choice([0, max(0, div // 2 - 1), rng.randint(0, max(0, div // 2 - 1))]), "early": rng.random() < 0.5, "hold": 1 if kind != "held" else 10**9,
                     "overlaps": ov, "glitch": kind in ("overlap", "mixed") and rng.random() < 0.7, "div": None})
    return plan


def master_case(col, case):
    rng = rng_for(case["seed"])
    dw, div, mode, ncs, kind = case["dw"], case["div"], case["mode"], case["ncs"], case["kind"]
    top = MasterTop(dw, div, mode, ncs)
    plan = master_plan(rng, case["n"], dw, div, ncs, kind)
    if kind == "held":
        for it in plan:          # start held high: every parameter is constant, transfers run back to back
            it.update({"length": plan[0]["length"], "cs": plan[0]["cs"], "gap": 0})
    if kind == "divchange":
        for it in plan:
            it["div"] = rng.choice(case["divs"])
    viol = Viol()
    drv = MasterDriver(top, plan, rng, dw)
    mon = MasterMonitor(top, dw, mode, ncs, viol, manual=(kind == "manual"))
    d, p = top.dut, top.pads
    tr = Tracer([("start", d.start), ("done", d.done), ("irq", d.irq), ("clk", p.clk), ("cs_n", p.cs_n),
                 ("mosi", p.mosi), ("miso", p.miso), ("div", d.clk_divider)], depth=48)
    viol.tracer = tr
    maxdiv = max([div] + case.get("divs", []))
    # an overlapping start pulse that lands right after the end of its transfer legitimately starts another one
    cap = sum(((it["length"] + 2) * maxdiv + it["gap"] + 12) * (3 if it["overlaps"] else 1) for it in plan) + 200
    if kind == "held":
        cap = case["n"] * ((plan[0]["length"] + 2) * maxdiv + 8) + 200

    class HeldStop:
        def signals(self):
            return []

        def step(self, v, c):
            return None

        def done(self):
            return len(mon.transfers) >= case["n"]
    b = Bench(top, cap=cap, drain=maxdiv + 6)
    b.add(drv)
    b.add(mon)
    b.add(tr)
    if kind == "held":
        drv.done = lambda: True
        b.add(HeldStop())
    b.add(Forcer(lambda: mon.stuck))          # a stuck core ends the run (violation already recorded)
    agents_done = b.run()
    mon.after_end(b.cycle["sys"])
    col.ev("spi_frames", len(mon.transfers))
    col.ev("spi_clock_edges_checked", mon.edges)
    col.ev("spi_cs_frames", mon.cs_frames)
    col.cov("spi_dividers", div)
    col.cov("spi_cfg", "dw=%d mode=%s ncs=%d kind=%s" % (dw, mode, ncs, kind))
    for t in mon.transfers:
        col.cov("spi_lengths", t["length"])
    for ph in mon.phases:
        col.cov("spi_start_phases", "%d:%d" % ph)
    for lat in mon.latencies:
        col.cov("spi_cs_latency", lat)
    if not agents_done and not mon.stuck and not viol:
        col.inconc(case, "cycle cap %d reached without a stuck verdict (%d/%d transfers)" % (cap, len(mon.transfers), len(plan)))
    if kind == "divchange":
        # workload class of its own: same checks, keys tell that the divider was rewritten between transfers
        viol.items = [(k.replace("spi_master/", "spi_master_divchange/"), w, x) for k, w, x in viol.items]
    viol.flush(col, case, tr, extra={"dut": "SPIMaster(data_width=%d, divider=%d, mode=%s, cs lines=%d)" % (dw, div, mode, ncs)})
    col.case_done(case, nontrivial=len(mon.transfers) >= 3,
                  sample={"case": case, "transfers": [{k: t[k] for k in ("accept", "length", "mosi", "cs", "div", "rises", "irq")}
                                                      for t in mon.transfers[:2]]})


# ------------------------------------------------------------------------------------ SPI slave
class SlaveBFM:
    """Mode-0 master bus-functional model. One frame: cs low, `su` cycles, n x (clk high hp, clk low hp
    with MOSI changing on the falling edge), `ho` cycles, cs high, gap."""
    def __init__(self, dut, plan, dw):
        self.d, self.p, self.plan, self.dw = dut, dut.pads, plan, dw
        self.i = 0
        self.seq = []
        self.results = []
        self.cur = None
        self.finished = False

    def signals(self):
        return [self.p.miso, self.d.mosi, self.d.length, self.d.irq, self.d.start, self.d.done]

    def _build(self, it):
        p, d = self.p, self.d
        seq = []
        idle = {p.clk: 0, p.cs_n: 1}
        for _ in range(it["gap"]):
            w = dict(idle)
            w.update({d.miso: it["miso"], d.loopback: it["loop"], p.mosi: it["idle_mosi"]})
            seq.append((w, None))
        bits = it["bits"]
        for _ in range(it["su"]):
            seq.append(({p.cs_n: 0, p.clk: 0, p.mosi: bits[0]}, None))
        for k, bit in enumerate(bits):
            for j in range(it["hp"]):
                seq.append(({p.clk: 1, p.mosi: bit}, "sample" if j == 0 else None))
            nxt = bits[k + 1] if k + 1 < len(bits) else it["idle_mosi"]
            for j in range(it["hp"]):
                seq.append(({p.clk: 0, p.mosi: nxt}, None))
        for _ in range(it["ho"]):
            seq.append(({p.clk: 0}, None))
        seq.append(({p.cs_n: 1}, "released"))
        for _ in range(8):
            seq.append(({p.cs_n: 1}, None))
        seq.append(({p.cs_n: 1}, "check"))
        return seq

    def step(self, v, c):
        d = self.d
        if self.cur is not None:
            r = self.cur
            if v[d.irq]:
                r["irqs"].append(c)
                r["length_at_irq"] = v[d.length]
            if v[d.start]:
                r["starts"].append(c)
        if not self.seq:
            if self.i >= len(self.plan):
                self.finished = True
                return None
            it = self.plan[self.i]
            self.i += 1
            self.cur = {"it": it, "miso_bits": [], "irqs": [], "starts": [], "released": None}
            self.results.append(self.cur)
            self.seq = self._build(it)
        w, tag = self.seq.pop(0)
        r = self.cur
        if tag == "sample":
            r["miso_bits"].append(v[self.p.miso])        # value just before the rising edge this step creates
        elif tag == "released":
            r["released"] = c + 1
        elif tag == "check":
            r["mosi_reg"] = v[d.mosi]
            r["length_reg"] = v[d.length]
            r["done"] = v[d.done]
        return w

    def done(self):
        return self.finished and not self.seq


def slave_case(col, case):
    rng = rng_for(case["seed"])
    dw = case["dw"]
    dut = SPISlave(None, dw)
    dut.pads.cs_n.reset = 1            # the line idles high from power-up
    plan = []
    for i in range(case["n"]):
        n = rng.choice([dw, dw, rng.randint(1, dw)])
        hp = rng.choice(case["hps"])
        plan.append({"bits": [rng.getrandbits(1) for _ in range(n)], "hp": hp, "su": rng.randint(case["su_min"], case["su_min"] + 6),
                     "ho": rng.randint(case["su_min"], case["su_min"] + 6), "gap": rng.randint(6, 14), "miso": rng.getrandbits(dw),
                     "loop": int(rng.random() < 0.15), "idle_mosi": rng.getrandbits(1)})
    viol = Viol()
    bfm = SlaveBFM(dut, plan, dw)
    p = dut.pads
    tr = Tracer([("clk", p.clk), ("cs_n", p.cs_n), ("mosi", p.mosi), ("miso", p.miso), ("start", dut.start), ("irq", dut.irq),
                 ("done", dut.done), ("length", dut.length)], depth=48)
    viol.tracer = tr
    cap = sum(2 * it["hp"] * len(it["bits"]) + it["su"] + it["ho"] + it["gap"] + 20 for it in plan) + 100
    b = Bench(dut, cap=cap)
    b.add(bfm)
    b.add(tr)
    ok = b.run()
    if not ok:
        col.inconc(case, "cycle cap reached in the SPI slave bench (harness)")
    for k, r in enumerate(bfm.results):
        it = r["it"]
        if "mosi_reg" not in r:
            continue
        n = len(it["bits"])
        col.ev("spi_slave_frames")
        col.ev("spi_slave_bits", n)
        col.cov("spi_slave_half_periods", it["hp"])
        col.cov("spi_slave_lengths", n)
        sent = 0
        for bit in it["bits"]:
            sent = (sent << 1) | bit
        if r["mosi_reg"] & ((1 << n) - 1) != sent:
            viol.add("spi_slave/mosi-capture", "mosi register low %d bits %s, bits sent MSB first %s"
                     % (n, bin(r["mosi_reg"] & ((1 << n) - 1)), bin(sent)), frame=k, half_period=it["hp"])
        if r.get("length_at_irq") != n or r["length_reg"] != n:
            viol.add("spi_slave/length", "length register %s (at irq %s) after a frame of %d clocks"
                     % (r["length_reg"], r.get("length_at_irq"), n), frame=k, half_period=it["hp"])
        if len(r["irqs"]) != 1 or len(r["starts"]) != 1:
            viol.add("spi_slave/start-irq", "%d start and %d irq pulses for one CS frame" % (len(r["starts"]), len(r["irqs"])), frame=k)
        elif not (r["released"] <= r["irqs"][0] <= r["released"] + 6):
            viol.add("spi_slave/stuck", "end-of-transfer pulse %d cycles after CS release" % (r["irqs"][0] - r["released"]), frame=k)
        if not r["done"]:
            viol.add("spi_slave/stuck", "done flag still low 8 cycles after CS release", frame=k)
        if it["loop"]:
            exp = it["bits"]
        else:
            exp = [(it["miso"] >> (dw - 1 - i)) & 1 for i in range(n)]
        # MISO leaves the slave 3 system cycles after the SCK edge it saw through its synchroniser: it is only asked to be there at
        # the next rising edge for half periods >= 4 (capture of MOSI, framing and length are judged at every speed)
        if it["hp"] >= 4 and r["miso_bits"] != exp:
            viol.add("spi_slave/miso-data", "MISO at the rising edges %s, expected %s (miso=%s%s)"
                     % (r["miso_bits"], exp, hex(it["miso"]), ", loopback" if it["loop"] else ""), frame=k, half_period=it["hp"],
                     cs_setup=it["su"])
    viol.flush(col, case, tr, extra={"dut": "SPISlave(data_width=%d)" % dw})
    col.case_done(case, nontrivial=len(bfm.results) >= 3, sample={"case": case, "first_frame": {k: v for k, v in plan[0].items()}})


# ------------------------------------------------------------------------------------ cases
DIVS = [2, 3, 4, 5, 6, 7, 8, 9, 11, 16, 17, 33]


def master_csr_case(col, case):
    """SPIMaster through its CSR interface (add_csr): software follows the documented register layout (control.start bit 0,
    control.length bits 15:8, status.done bit 0 / mode bit 1, mosi, miso, cs.sel bits / cs.mode bit 16, loopback.mode bit 0); the pins
    must show exactly what software asked for and the miso register what the responder sent."""
    from litex.soc.interconnect import csr_bus
    from props.c19lib import CSRMaster
    rng = rng_for(case["seed"])
    dw, div, mode, ncs = case["dw"], case["div"], case["mode"], case["ncs"]
    mt = MasterTop(dw, div, mode, ncs, with_csr=True)
    top = Module()
    top.submodules.mt = mt
    top.bus = csr_bus.Interface(data_width=32, address_width=14)
    top.submodules.bank = csr_bus.CSRBank(mt.dut.get_csrs(), address=0, bus=top.bus)
    top.map = {c_.name: i for i, c_ in enumerate(top.bank.simple_csrs)}
    for c_ in mt.dut.get_csrs():
        if c_.name not in top.map and c_.name + "0" in top.map:
            top.map[c_.name] = top.map[c_.name + "0"]
    viol = Viol()
    p = mt.pads
    all1 = (1 << ncs) - 1
    intents, results = [], []
    state = {"resp": 0}

    def prog():
        for i in range(case["n"]):
            L = rng.choice([1, dw, rng.randint(1, dw), min(dw, 8)])
            M = rng.getrandbits(dw)
            sel = 1 << rng.randrange(ncs)
            loop = int(rng.random() < 0.15)
            resp = rng.getrandbits(RESP_BITS)
            state["resp"] = resp
            yield ("w", "loopback", loop)
            yield ("w", "cs", sel)
            yield ("w", "mosi", M)
            yield ("idle", rng.randint(1, 4))
            intents.append({"length": L, "mosi": M, "sel": sel, "loop": loop, "resp": resp, "issued": master.writes[-1][0] if master.writes else 0})
            yield ("w", "control", (L << 8) | 1)
            yield ("idle", 4)          # the start pulse reaches the core two cycles after the bus write: status.done is low from then on
            polls = 0
            while True:
                st_ = (yield ("r", "status", None))[2]
                polls += 1
                if st_ & 1:
                    break
                if polls > (L + 4) * div + 50:
                    viol.add("spi_master_csr/done-never-reported", "transfer %d: status.done still 0 after %d polls" % (i, polls))
                    return
            if ((st_ >> 1) & 1) != (1 if mode == "aligned" else 0):
                viol.add("spi_master_csr/status-mode-field", "status.mode=%d for a core built with mode=%s" % ((st_ >> 1) & 1, mode))
            miso = (yield ("r", "miso", None))[2]
            results.append(miso)
            yield ("idle", rng.randint(1, 2 * div))
    master = CSRMaster(top, prog(), gap=1)

    class Resp:
        def signals(self):
            return []

        def step(self, v, c):
            return {mt.resp: state["resp"], mt.vd: 0}

    class Pins:
        """frames seen on the pins: (cs lines asserted, clock pulses, MOSI bits at the rising edges)"""
        def __init__(self):
            self.frames, self.cur, self.pclk = [], None, 0

        def signals(self):
            return [p.clk, p.cs_n, p.mosi]

        def step(self, v, c):
            act = (~v[p.cs_n]) & all1
            if act and self.cur is None:
                self.cur = {"sel": act, "bits": [], "start": c}
            if self.cur is not None:
                if act != self.cur["sel"] and act:
                    viol.add("spi_master_csr/chip-select-changed-inside-frame", "cycle %d: %s -> %s" % (c, bin(self.cur["sel"]), bin(act)), cycle=c)
                if v[p.clk] and not self.pclk:
                    self.cur["bits"].append(v[p.mosi])
                if not act:
                    self.frames.append(self.cur)
                    self.cur = None
            elif v[p.clk] and not self.pclk:
                viol.add("spi_master_csr/clock-pulse-outside-chip-select", "cycle %d" % c, cycle=c)
            self.pclk = v[p.clk]
            return None
    pins = Pins()
    tr = Tracer([("clk", p.clk), ("cs_n", p.cs_n), ("mosi", p.mosi), ("miso", p.miso), ("start", mt.dut.start), ("length", mt.dut.length),
                 ("done", mt.dut.done), ("adr", top.bus.adr), ("we", top.bus.we), ("dat_w", top.bus.dat_w)], depth=48)
    viol.tracer = tr
    b = Bench(top, cap=case["n"] * ((dw + 6) * div * 2 + 200) + 500, drain=2 * div + 6)
    for a in (Resp(), master, pins, tr):
        b.add(a)
    ok = b.run()
    first = intents[0]["issued"] if intents else 0
    frames = [f for f in pins.frames if f["start"] >= first]          # (the pads' power-up value shows as an empty frame at cycle 0)
    for i, it in enumerate(intents):
        if i >= len(frames):
            viol.add("spi_master_csr/transfer-never-appeared-on-the-pins", "transfer %d of %d (%d frames seen)" % (i, len(intents), len(frames)))
            break
        f = frames[i]
        L = it["length"]
        exp_bits = [(it["mosi"] >> ((L if mode == "aligned" else dw) - 1 - k)) & 1 for k in range(L)]
        if f["sel"] != it["sel"]:
            viol.add("spi_master_csr/wrong-chip-select", "transfer %d: cs.sel=%s written, lines %s asserted" % (i, bin(it["sel"]), bin(f["sel"])), index=i)
        if len(f["bits"]) != L:
            viol.add("spi_master_csr/clock-pulse-count", "transfer %d: control.length=%d written, %d pulses" % (i, L, len(f["bits"])), index=i)
        elif f["bits"] != exp_bits:
            viol.add("spi_master_csr/mosi-data", "transfer %d: mosi register 0x%x length %d: bits %s expected %s" % (i, it["mosi"], L, f["bits"], exp_bits), index=i)
        if i < len(results):
            exp_miso = 0
            src = exp_bits if it["loop"] else [(it["resp"] >> (RESP_BITS - 1 - k)) & 1 for k in range(L)]
            for bit in src:
                exp_miso = (exp_miso << 1) | bit
            if results[i] & ((1 << L) - 1) != exp_miso:
                viol.add("spi_master_csr/miso-register", "transfer %d (%s): miso register 0x%x, low %d bits expected 0x%x" % (
                    i, "loopback" if it["loop"] else "responder", results[i], L, exp_miso), index=i)
    if len(frames) > len(intents):
        viol.add("spi_master_csr/frame-nobody-asked-for", "%d frames for %d transfers" % (len(frames), len(intents)))
    if not ok and not viol:
        col.inconc(case, "cycle cap in the SPI CSR bench (harness)")
    col.ev("spi_csr_transfers", len(results))
    col.ev("spi_csr_bits", sum(len(f["bits"]) for f in frames))
    col.cov("spi_csr_cfg", "dw=%d div=%d mode=%s ncs=%d" % (dw, div, mode, ncs))
    viol.flush(col, case, tr, extra={"dut": "SPIMaster(data_width=%d, divider=%d, mode=%s, cs lines=%d, with_csr=True)" % (dw, div, mode, ncs)})
    col.case_done(case, nontrivial=len(results) >= 3, sample={"case": case, "first_intents": intents[:2], "first_miso": results[:2]})


def cases(tier, seed):
    q = tier == "quick"
    out = []
    for k in range(24 if q else 400):
        rr = rng_for(seed, "C19/spi_csr", k)
        out.append({"cls": "spi_master_csr", "seed": "%d/C19/spi_master_csr/%d" % (seed, k), "dw": rr.choice([8, 16, 32, 12, 24]),
                    "div": rr.choice([2, 3, 4, 7, 10]), "mode": rr.choice(["raw", "aligned"]), "ncs": rr.choice([1, 2, 4]), "n": 5})
    k = 0
    kinds = ["plain", "overlap", "mixed", "loopback", "manual", "held"]
    for rep in range(2 if q else 15):
        for di, div in enumerate(DIVS if q else DIVS + [64, 255][:1 + rep % 2]):
            for ki, kind in enumerate(kinds):
                rr = rng_for(seed, "C19/spi", rep, div, kind)
                dw = rr.choice([8, 16, 32, 12, 24, 5])
                mode = rr.choice(["raw", "aligned"])
                ncs = rr.choice([1, 1, 2, 4])
                budget = 1200 if q else 2500
                n = int(max(3, min(16, budget / ((dw * 0.6 + 2) * div))))
                out.append({"cls": "spi_master", "seed": "%d/C19/spi_master/%d" % (seed, k), "dw": dw, "div": div, "mode": mode,
                            "ncs": ncs, "kind": kind, "n": n})
                k += 1
    for rep in range(3 if q else 10):
        out.append({"cls": "spi_master_divchange", "seed": "%d/C19/spi_divchange/%d" % (seed, rep), "dw": 8, "div": 16, "mode": "raw",
                    "ncs": 1, "kind": "divchange", "divs": [4, 6, 16, 12], "n": 6})
    k = 0
    for rep in range(6 if q else 30):
        for dw in (8, 16, 32, 12):
            out.append({"cls": "spi_slave", "seed": "%d/C19/spi_slave/%d" % (seed, k), "dw": dw, "n": 6 if q else 10,
                        "hps": [2, 3, 4, 5, 6, 8, 11], "su_min": 5})
            k += 1
    return out


RUN = {"spi_master": master_case, "spi_master_divchange": master_case, "spi_slave": slave_case, "spi_master_csr": master_csr_case}
