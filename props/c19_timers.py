"""C19 timers: Timer, Watchdog (behind a real CSR bank), WaitTimer, timeline, PWM against reference
counters written from the documentation of the classes (docstrings / CSR descriptions)."""
from migen import Module, Signal

from litex.soc.cores.timer import Timer
from litex.soc.cores.watchdog import Watchdog
from litex.soc.cores.pwm import PWM
from litex.gen.genlib.misc import WaitTimer, timeline

from lib.collect import rng_for
from lib.bench.kernel import Bench
from props.c19lib import Tracer, Viol, CSRTop, CSRMaster, Script, Stopper


# ------------------------------------------------------------------------------------ Timer
class TimerMonitor:
    """Reference model of the Timer docstring: a down counter. Disabled: holds `load`. Enabled: one
    step per cycle; at zero it takes `reload` (reload = 0: stays at zero = one-shot). The `zero`
    event level is (count == 0); `update_value` latches the count into `value`."""
    def __init__(self, dut, viol, width):
        self.d, self.viol, self.mask = dut, viol, (1 << width) - 1
        d = dut
        self.sig = [d._en.storage, d._load.storage, d._reload.storage, d._update_value.re, d._value.status,
                    d.ev.zero.trigger, d.ev.zero.pending, d.ev.irq, d.ev.enable.storage]
        self.value = 0            # model count during the current cycle
        self.latched = 0
        self.ptrig = 0            # model trigger of the previous cycle
        self.ppend = 0
        self.cycles = 0
        self.zero_events = 0
        self.latches = 0
        self.en_cycles = 0
        self.zero_cycles = []      # cycles at which the model count became zero
        self.hist = []             # (cycle, en, reload) at each zero event, for the documentation check
        self.oneshots = 0
        self.en_rise = None
        self.rose_prev = 0
        self.pen = 0

    def signals(self):
        return self.sig

    def step(self, v, c):
        d, V = self.d, self.viol
        en, load, reload_, upd = v[d._en.storage], v[d._load.storage], v[d._reload.storage], v[d._update_value.re]
        trig = 1 if self.value == 0 else 0
        self.cycles += 1
        if v[d.ev.zero.trigger] != trig:
            V.add("timer/zero-event-cycle", "zero trigger=%d, reference count=%d (en=%d load=%d reload=%d)"
                  % (v[d.ev.zero.trigger], self.value, en, load, reload_), cycle=c)
        if v[d._value.status] != self.latched:
            V.add("timer/update-value", "value register %d, count at the update_value write %d" % (v[d._value.status], self.latched), cycle=c)
        # event: pending must be set on the cycle after the level rose, and never rise otherwise
        pend = v[d.ev.zero.pending]
        rose = self.rose_prev
        if rose and not pend:
            V.add("timer/zero-event-missed", "count reached zero one cycle ago but the zero event is not pending", cycle=c)
        if pend and not self.ppend and not rose:
            V.add("timer/zero-event-spurious", "zero event became pending without the count reaching zero", cycle=c)
        if v[d.ev.irq] != (pend & v[d.ev.enable.storage] & 1):
            V.add("timer/irq", "irq=%d with pending=%d enable=%d" % (v[d.ev.irq], pend, v[d.ev.enable.storage]), cycle=c)
        self.rose_prev = 1 if (trig and not self.ptrig) else 0
        if self.rose_prev:
            self.zero_events += 1
            self.hist.append((c, en, reload_, load))
            if self.en_rise is not None and en:
                # one-shot duration: first zero after enabling comes exactly `load` cycles after the first enabled cycle
                if c - self.en_rise[0] != self.en_rise[1]:
                    V.add("timer/one-shot-duration", "count reached zero %d cycles after enabling, load=%d" % (c - self.en_rise[0], self.en_rise[1]), cycle=c)
                self.oneshots += 1
            self.en_rise = None
        self.ptrig, self.ppend = trig, pend
        # ---- next-state of the reference
        if upd:
            self.latched = self.value
            self.latches += 1
        if en:
            self.en_cycles += 1
            if not self.pen:
                self.en_rise = (c, self.value) if self.value != 0 else None
            self.value = (reload_ if self.value == 0 else self.value - 1) & self.mask
        else:
            self.value = load & self.mask
            self.en_rise = None
        self.pen = en
        return None


def timer_prog(rng, n, width, small):
    m = (1 << width) - 1

    def val():
        r = rng.random()
        if r < 0.15:
            return 0
        if r < 0.3:
            return 1
        if r < 0.9:
            return rng.randint(2, small)
        return rng.choice([m, m - 1, rng.randint(0, m)])
    yield ("w", "ev_enable", rng.getrandbits(1))
    for _ in range(n):
        k = rng.random()
        if k < 0.15:
            yield ("w", "load", val())
        elif k < 0.3:
            yield ("w", "reload", val())
        elif k < 0.5:
            yield ("w", "en", rng.getrandbits(1))
        elif k < 0.6:            # the documented start sequences
            yield ("w", "en", 0)
            one = rng.random() < 0.5
            yield ("w", "load", val() if one else 0)
            yield ("w", "reload", 0 if one else val())
            yield ("w", "en", 1)
        elif k < 0.75:
            yield ("w", "update_value", 1)
            yield ("r", "value", None)
        elif k < 0.8:
            yield ("w", "ev_pending", 1)
        elif k < 0.85:
            yield ("w", "ev_enable", rng.getrandbits(1))
        elif k < 0.9:
            yield ("r", "ev_pending", None)
        else:
            yield ("w", "en", 1)
        yield ("idle", rng.choice([1, 2, 3, rng.randint(1, 2 * small + 4), rng.randint(1, small)]))


def timer_case(col, case):
    rng = rng_for(case["seed"])
    width = case["width"]
    dut = Timer(width=width)
    top = CSRTop(dut)
    viol = Viol()
    mon = TimerMonitor(dut, viol, width)
    m = CSRMaster(top, timer_prog(rng, case["n"], width, case["small"]))
    tr = Tracer([("en", dut._en.storage), ("load", dut._load.storage), ("reload", dut._reload.storage), ("upd_re", dut._update_value.re),
                 ("value_reg", dut._value.status), ("zero", dut.ev.zero.trigger), ("pending", dut.ev.zero.pending), ("irq", dut.ev.irq)], depth=40)
    viol.tracer = tr
    b = Bench(top, cap=case["n"] * (2 * case["small"] + 12) + 500, drain=case["small"] + 4)
    for a in (m, mon, tr):
        b.add(a)
    if not b.run():
        col.inconc(case, "cycle cap in the Timer bench (harness)")
    # read-back through the bus = latched value
    col.ev("timer_cycles_compared", mon.cycles)
    col.ev("timer_enabled_cycles", mon.en_cycles)
    col.ev("timer_zero_events", mon.zero_events)
    col.ev("timer_value_latches", mon.latches)
    col.ev("timer_one_shots_timed", mon.oneshots)
    col.cov("timer_widths", width)
    for _, name, val in m.writes:
        if name in ("load", "reload") and val in (0, 1):
            col.cov("timer_corner_writes", "%s=%d" % (name, val))
    viol.flush(col, case, tr, extra={"dut": "Timer(width=%d)" % width})
    col.case_done(case, nontrivial=mon.zero_events >= 2, sample={"case": case, "first_writes": [list(w) for w in m.writes[:10]],
                                                                  "zero_events": mon.hist[:4]})


def timer_doc_case(col, case):
    """Documentation check of the periodic mode: 'reload ... specify the Timer's period in clock cycles'."""
    rng = rng_for(case["seed"])
    dut = Timer()
    top = CSRTop(dut)
    viol = Viol()
    mon = TimerMonitor(dut, viol, 32)
    R = case["reload"]

    def prog():
        yield ("w", "en", 0)
        yield ("w", "load", 0)
        yield ("w", "reload", R)
        yield ("w", "en", 1)
        yield ("idle", 5 * (R + 1) + 4)
    m = CSRMaster(top, prog())
    tr = Tracer([("en", dut._en.storage), ("reload", dut._reload.storage), ("zero", dut.ev.zero.trigger)], depth=40)
    viol.tracer = tr
    b = Bench(top, cap=6 * (R + 1) + 100)
    for a in (m, mon, tr):
        b.add(a)
    b.run()
    evs = [h[0] for h in mon.hist if h[1]]
    gaps = sorted(set(b2 - a for a, b2 in zip(evs[1:], evs[2:])))
    col.ev("timer_periodic_periods", max(0, len(evs) - 2))
    if gaps and gaps != [R]:
        viol.add("timer/periodic-period-vs-doc", "periodic mode with reload=%d: zero events every %s cycles; the reload CSR is documented as "
                 "'the Timer's period in clock cycles'" % (R, gaps), zero_event_cycles=evs[:6])
    viol.flush(col, case, tr)
    col.case_done(case, nontrivial=len(evs) >= 3, sample=None)


# ------------------------------------------------------------------------------------ Watchdog
class WatchdogMonitor:
    """Reference of the Watchdog CSR descriptions: `remaining` = cycles until timeout; feed reloads it
    from `cycles`; one step per enabled (and not paused) cycle; saturates at zero; the timeout event /
    reset only exist while enabled and the count is zero."""
    def __init__(self, dut, viol, crg_rst, delay, halted, name):
        self.d, self.viol, self.crg_rst, self.delay, self.halted, self.name = dut, viol, crg_rst, delay, halted, name
        d = dut
        self.sig = [d._control.storage, d.feed, d._cycles.storage, d._remaining.status, d.ev.wdt.trigger]
        if crg_rst is not None:
            self.sig.append(crg_rst)
        if halted is not None:
            self.sig.append(halted)
        self.rem = 0
        self.zero_hist = [True, True, True]
        self.prev = None
        self.cond_run = 0
        self.cycles = 0
        self.timeouts = 0
        self.feeds = 0
        self.saturated = 0
        self.resets = 0
        self.paused = 0

    def signals(self):
        return self.sig

    def step(self, v, c):
        d, V, n = self.d, self.viol, self.name
        ctl = v[d._control.storage]
        feed = v[d.feed]
        halted = v[self.halted] if self.halted is not None else 0
        en = (ctl >> 8) & 1
        rst_mode = (ctl >> 16) & 1
        pause = (ctl >> 24) & 1
        if en and halted and pause:
            self.paused += 1
        en = en & ~(halted & pause) & 1
        trig = v[d.ev.wdt.trigger]
        self.cycles += 1
        if v[d._remaining.status] != self.rem:
            V.add(n + "/remaining", "remaining=%d, reference %d (enable=%d feed=%d cycles=%d)"
                  % (v[d._remaining.status], self.rem, en, feed, v[d._cycles.storage]), cycle=c)
        self.zero_hist = self.zero_hist[1:] + [self.rem == 0]
        if trig and not (en and any(self.zero_hist)):
            V.add(n + "/timeout-while-remaining-nonzero", "timeout event asserted with enable=%d and remaining=%d (not zero in the last 3 cycles)"
                  % (en, self.rem), cycle=c)
        p = self.prev
        if p is not None and p["en"] and not p["feed"] and p["rem"] == 0 and en and not trig:
            V.add(n + "/timeout-missing", "enabled with remaining=0 for two cycles but no timeout event", cycle=c)
        if trig and not (p and p["trig"]):
            self.timeouts += 1
        if self.crg_rst is not None:
            cond = bool(en and rst_mode and trig)
            rb = self.cond_run                      # consecutive cycles before this one with enable & reset-mode & timeout
            r = v[self.crg_rst]
            if r:
                self.resets += 1
                if not (rb >= self.delay and (self.delay > 0 or cond or rb >= 1)):
                    V.add(n + "/reset-without-timeout", "crg_rst asserted; (enable & reset-mode & timeout) has held for %d cycles, reset_delay=%d"
                          % (rb + int(cond), self.delay), cycle=c, enable=en, reset_mode=rst_mode, timeout=trig, remaining=self.rem)
            elif cond and rb >= self.delay + 1:      # (a feed or disable in this cycle legitimately withdraws the reset request)
                V.add(n + "/reset-missing", "(enable & reset-mode & timeout) has held for %d cycles, reset_delay=%d, crg_rst low"
                      % (rb, self.delay), cycle=c)
            self.cond_run = rb + 1 if cond else 0
        self.prev = {"en": en, "feed": feed, "rem": self.rem, "trig": trig}
        # ---- next state
        if feed:
            self.rem = v[d._cycles.storage]
            self.feeds += 1
        elif en:
            if self.rem != 0:
                self.rem -= 1
            else:
                self.saturated += 1
        return None


def wd_prog(rng, n, small, width):
    m = (1 << width) - 1
    ctl = 0
    for _ in range(n):
        k = rng.random()
        if k < 0.2:
            yield ("w", "cycles", rng.choice([0, 1, 2, rng.randint(1, small), rng.randint(1, small), m]))
        elif k < 0.55:
            ctl = (ctl & ~1) | 1
            yield ("w", "control", ctl)          # feed, other fields kept
        elif k < 0.75:
            ctl = (ctl & ~0x101) | (rng.getrandbits(1) << 8) | rng.getrandbits(1)
            yield ("w", "control", ctl)
        elif k < 0.85:
            ctl = (ctl & ~0x1010001) | (rng.getrandbits(1) << 16) | (rng.getrandbits(1) << 24)
            yield ("w", "control", ctl)
        elif k < 0.9:
            yield ("r", "remaining", None)
        else:
            ctl = (ctl & ~1) | 0x100
            yield ("w", "control", ctl)
        yield ("idle", rng.choice([1, 2, rng.randint(1, small), rng.randint(1, 3 * small)]))


def watchdog_case(col, case):
    rng = rng_for(case["seed"])
    width, delay = case["width"], case["delay"]
    crg = Signal() if delay is not None else None
    halted = Signal()
    dut = Watchdog(width=width, crg_rst=crg, reset_delay=delay if delay is not None else 0, halted=halted)
    top = CSRTop(dut)
    viol = Viol()
    name = "watchdog"
    mon = WatchdogMonitor(dut, viol, crg, delay or 0, halted, name)
    m = CSRMaster(top, wd_prog(rng, case["n"], case["small"], width))
    hs = {"v": 0}

    def hfn(c):
        if rng.random() < 0.03:
            hs["v"] ^= 1
        return {halted: hs["v"]}
    named = [("control", dut._control.storage), ("feed", dut.feed), ("cycles", dut._cycles.storage), ("remaining", dut._remaining.status),
             ("timeout", dut.ev.wdt.trigger), ("halted", halted)]
    if crg is not None:
        named.append(("crg_rst", crg))
    tr = Tracer(named, depth=40)
    viol.tracer = tr
    b = Bench(top, cap=case["n"] * (3 * case["small"] + 8) + 300, drain=4)
    for a in (m, Script(hfn), mon, tr):
        b.add(a)
    if not b.run():
        col.inconc(case, "cycle cap in the Watchdog bench (harness)")
    col.ev("watchdog_cycles", mon.cycles)
    col.ev("watchdog_timeouts", mon.timeouts)
    col.ev("watchdog_feeds", mon.feeds)
    col.ev("watchdog_saturated_cycles", mon.saturated)
    col.ev("watchdog_paused_cycles", mon.paused)
    col.ev("watchdog_reset_cycles", mon.resets)
    col.cov("watchdog_cfg", "width=%d reset_delay=%s" % (width, delay))
    if case["cls"] == "watchdog_delay0":      # class of its own: the default reset_delay=0
        viol.items = [(k.replace("/reset-without-timeout", "/reset-without-timeout-delay0"), w, x) for k, w, x in viol.items]
    viol.flush(col, case, tr, extra={"dut": "Watchdog(width=%d, crg_rst=%s, reset_delay=%s)" % (width, "Signal()" if crg is not None else None, delay)})
    col.case_done(case, nontrivial=mon.feeds >= 2, sample={"case": case, "first_writes": [list(w) for w in m.writes[:8]]})


# ------------------------------------------------------------------------------------ WaitTimer
def waittimer_case(col, case):
    rng = rng_for(case["seed"])
    t = case["t"]
    dut = WaitTimer(t)
    viol = Viol()
    st = {"run": 0, "wait": 0, "left": 0, "runs": 0, "cycles": 0, "exact": 0}

    class Mon:
        def signals(self):
            return [dut.wait, dut.done]

        def step(self, v, c):
            w, dn = v[dut.wait], v[dut.done]
            exp = 1 if st["run"] >= t else 0
            st["cycles"] += 1
            if dn != exp:
                viol.add("waittimer/done-cycle", "done=%d after %d consecutive wait cycles, t=%d" % (dn, st["run"], t), cycle=c)
            if st["run"] == t and t > 0:
                st["runs"] += 1
            st["run"] = st["run"] + 1 if w else 0
            return None

    def drive(c):
        if st["left"] <= 0:
            st["wait"] ^= 1
            if st["wait"]:
                st["left"] = rng.choice([t, t + 1, t - 1, t + 2, rng.randint(1, 2 * t + 3), 1]) if t else rng.randint(1, 4)
                st["left"] = max(1, st["left"])
            else:
                st["left"] = rng.choice([1, 1, 2, rng.randint(1, 5)])
        st["left"] -= 1
        return {dut.wait: st["wait"]}
    tr = Tracer([("wait", dut.wait), ("done", dut.done)], depth=40)
    viol.tracer = tr
    b = Bench(dut, cap=case["cycles"] + 10)
    for a in (Script(drive), Mon(), tr, Stopper(lambda: False, after=case["cycles"])):
        b.add(a)
    b.run()
    col.ev("waittimer_runs", st["runs"])
    col.ev("waittimer_cycles", st["cycles"])
    col.cov("waittimer_t", t)
    viol.flush(col, case, tr, extra={"dut": "WaitTimer(%d)" % t})
    col.case_done(case, nontrivial=st["runs"] >= 2 or t == 0, sample={"case": case, "runs": st["runs"]})


# ------------------------------------------------------------------------------------ timeline
class TimelineDut(Module):
    def __init__(self, offsets):
        self.trigger = Signal()
        self.outs = [Signal(name="ev%d" % k) for k in offsets]
        self.sync += [o.eq(0) for o in self.outs]
        self.sync += timeline(self.trigger, [(k, [o.eq(1)]) for k, o in zip(offsets, self.outs)])


def timeline_case(col, case):
    rng = rng_for(case["seed"])
    offs = case["offsets"]
    last = max(offs)
    dut = TimelineDut(offs)
    viol = Viol()
    st = {"busy_until": -1, "due": {}, "seqs": 0, "fired": 0, "retrig": 0, "cycles": 0}
    polite = case["polite"]

    class Mon:
        def signals(self):
            return [dut.trigger] + dut.outs

        def step(self, v, c):
            st["cycles"] += 1
            exp = st["due"].pop(c, set())
            for k, o in zip(offs, dut.outs):
                want = 1 if k in exp else 0
                if v[o] != want:
                    viol.add("timeline/event-cycle", "event at offset %d %s in cycle %d (sequence offsets %s)"
                             % (k, "missing" if want else "fired", c, offs), cycle=c)
                st["fired"] += v[o]
            if v[dut.trigger]:
                if c > st["busy_until"]:
                    st["busy_until"] = c + last
                    st["seqs"] += 1
                    for k in offs:
                        st["due"].setdefault(c + k + 1, set()).add(k)
                else:
                    st["retrig"] += 1
            return None

    def drive(c):
        if polite:
            # c is the cycle that will see the value; only trigger when the previous sequence is over
            if c > st["busy_until"] and rng.random() < 0.3:
                return {dut.trigger: 1}
            return {dut.trigger: 0}
        return {dut.trigger: int(rng.random() < case["p"])}
    tr = Tracer([("trigger", dut.trigger)] + [("ev%d" % k, o) for k, o in zip(offs, dut.outs)], depth=40)
    viol.tracer = tr
    b = Bench(dut, cap=case["cycles"] + 10)
    for a in (Mon(), Script(drive), tr, Stopper(lambda: False, after=case["cycles"])):
        b.add(a)
    b.run()
    col.ev("timeline_sequences", st["seqs"])
    col.ev("timeline_events_fired", st["fired"])
    col.ev("timeline_retriggers_while_running", st["retrig"])
    col.cov("timeline_offsets", str(offs))
    viol.flush(col, case, tr, extra={"offsets": offs})
    col.case_done(case, nontrivial=st["seqs"] >= 3, sample={"case": case, "sequences": st["seqs"]})


# ------------------------------------------------------------------------------------ PWM
def pwm_case(col, case):
    rng = rng_for(case["seed"])
    csr = bool(case.get("csr"))
    dut = PWM(with_csr=csr)
    viol = Viol()
    segs = case["segments"]        # list of (enable, period, width, duration)
    st = {"i": -1, "left": 0, "since": 0, "cfg": None, "hist": [], "periods": 0, "cycles": 0, "intent": None}
    if csr:
        # software writes the enable / width / period registers (add_csr); the output is judged against what software wrote
        from props.c19lib import CSRTop, CSRMaster
        ctop = CSRTop(dut)

        def prog():
            for en, per, wid, dur in segs:
                st["intent"] = None                      # between the three writes the configuration is in transit
                yield ("w", "enable", 0)
                yield ("w", "period", per)
                yield ("w", "width", wid)
                yield ("w", "enable", en)
                yield ("idle", 3)
                st["intent"] = (en, per, wid)
                yield ("idle", dur)
        cmaster = CSRMaster(ctop, prog(), gap=1)

    def drive(c):
        if st["left"] <= 0:
            st["i"] += 1
            if st["i"] >= len(segs):
                return None
            en, per, wid, dur = segs[st["i"]]
            st["left"] = dur
            st["left"] -= 1
            return {dut.enable: en, dut.period: per, dut.width: wid}
        st["left"] -= 1
        return None

    class Mon:
        def signals(self):
            return [dut.enable, dut.period, dut.width, dut.pwm]

        def step(self, v, c):
            cfg = (v[dut.enable], v[dut.period], v[dut.width])
            if csr:
                if st["intent"] is None:
                    st["cfg"] = None
                    return None
                cfg = st["intent"]
            if cfg != st["cfg"]:
                st["cfg"], st["since"], st["hist"] = cfg, 0, []
            else:
                st["since"] += 1
            en, P, W = cfg
            x = v[dut.pwm]
            if not en:
                if st["since"] >= 2 and x:
                    viol.add("pwm/disabled-high", "output high %d cycles after enable=0" % st["since"], cycle=c)
                return None
            if P == 0:
                return None
            # settled: the counter wrapped at least once under this configuration (old period may have been longer)
            if st["since"] < case["settle"]:
                return None
            h = st["hist"]
            h.append(x)
            st["cycles"] += 1
            if len(h) > P:
                if h[-1] != h[-1 - P]:
                    viol.add("pwm/period", "output not periodic with period=%d" % P, cycle=c, width=W)
            if len(h) >= P and (len(h) % P) == 0:
                win = h[-P:]
                hi = sum(win)
                st["periods"] += 1
                if hi != min(W, P):
                    viol.add("pwm/width", "output high for %d of %d cycles, width=%d" % (hi, P, W), cycle=c)
                # one contiguous high run per period (cyclically)
                rises = sum(1 for a, b2 in zip(win, win[1:] + win[:1]) if not a and b2)
                if rises > 1:
                    viol.add("pwm/glitch", "%d rising edges within one period" % rises, cycle=c)
                if len(h) > 4 * P:
                    del h[:len(h) - 2 * P]
            return None
    tr = Tracer([("enable", dut.enable), ("period", dut.period), ("width", dut.width), ("pwm", dut.pwm), ("counter", dut.counter)], depth=40)
    viol.tracer = tr
    total = sum(s[3] for s in segs) + (len(segs) * 16 if csr else 0)
    b = Bench(ctop if csr else dut, cap=total + 20)
    for a in ((cmaster,) if csr else (Script(drive),)) + (Mon(), tr, Stopper(lambda: False, after=total + 2)):
        b.add(a)
    b.run()
    if csr:
        col.ev("pwm_csr_periods", st["periods"])
    col.ev("pwm_periods", st["periods"])
    col.ev("pwm_cycles", st["cycles"])
    for en, per, wid, dur in segs:
        if en:
            col.cov("pwm_kinds", "w=0" if wid == 0 else "w>=p" if wid >= per else "w=p-1" if wid == per - 1 else "w=1" if wid == 1 else "mid")
            col.cov("pwm_periods_cfg", per)
    viol.flush(col, case, tr, extra={"segments": segs})
    col.case_done(case, nontrivial=st["periods"] >= 4, sample={"case": {k: case[k] for k in ("cls", "seed")}, "segments": segs[:4]})


def pwm_segments(rng, n, maxp):
    segs = []
    for _ in range(n):
        per = rng.choice([1, 2, 3, rng.randint(2, maxp), rng.randint(2, maxp), maxp])
        wid = rng.choice([0, 1, per - 1, per, per + 1, per + 7, rng.randint(0, per), rng.randint(0, per)])
        wid = max(0, wid)
        en = int(rng.random() < 0.85)
        segs.append([en, per, wid, 2 * maxp + 4 + rng.randint(3, 5) * per])
    return segs


# ------------------------------------------------------------------------------------ cases
def cases(tier, seed):
    q = tier == "quick"
    out = []
    for k in range(40 if q else 300):
        width = [32, 32, 8, 16, 5][k % 5]
        out.append({"cls": "timer", "seed": "%d/C19/timer/%d" % (seed, k), "width": width, "n": 60 if q else 100, "small": [6, 12, 20][k % 3]})
    for k, R in enumerate([1, 2, 5, 10] if q else [1, 2, 3, 5, 10, 17, 33]):
        out.append({"cls": "timer_periodic_doc", "seed": "%d/C19/timer_doc/%d" % (seed, k), "reload": R})
    for k in range(32 if q else 240):
        delay = [None, 1, 3, 7][k % 4]
        out.append({"cls": "watchdog", "seed": "%d/C19/watchdog/%d" % (seed, k), "width": [32, 8, 16][k % 3], "delay": delay,
                    "n": 60 if q else 100, "small": [6, 12][k % 2]})
    for k in range(3 if q else 8):
        out.append({"cls": "watchdog_delay0", "seed": "%d/C19/watchdog0/%d" % (seed, k), "width": 32, "delay": 0, "n": 30, "small": 6})
    for k, t in enumerate([0, 1, 2, 3, 5, 8, 16, 31, 32, 100] if q else [0, 1, 2, 3, 4, 5, 7, 8, 15, 16, 17, 31, 32, 33, 63, 64, 100, 255, 256, 1000]):
        out.append({"cls": "waittimer", "seed": "%d/C19/waittimer/%d" % (seed, k), "t": t, "cycles": int(min(12000, max(600, 30 * (t + 2))))})
    offsets = [[0, 1], [1], [0, 1, 3, 7], [2, 5, 6], [0, 3], [1, 2, 3, 4, 5], [0, 15], [4, 9, 10, 21], [0, 2, 8], [7]]
    for k in range(len(offsets) * (2 if q else 8)):
        offs = offsets[k % len(offsets)]
        out.append({"cls": "timeline", "seed": "%d/C19/timeline/%d" % (seed, k), "offsets": offs, "polite": (k // len(offsets)) % 2 == 0,
                    "p": [0.5, 0.1, 0.9][k % 3], "cycles": 600 if q else 1500})
    for k in range(30 if q else 150):
        rr = rng_for(seed, "C19/pwm", k)
        maxp = [6, 10, 17, 33][k % 4]
        out.append({"cls": "pwm", "seed": "%d/C19/pwm/%d" % (seed, k), "segments": pwm_segments(rr, 8 if q else 12, maxp), "settle": 2 * maxp + 4})
        if k % 2 == 0:
            out.append({"cls": "pwm", "csr": True, "seed": "%d/C19/pwm_csr/%d" % (seed, k), "segments": pwm_segments(rr, 6 if q else 10, maxp),
                        "settle": 2 * maxp + 4})
    return out


RUN = {"timer": timer_case, "timer_periodic_doc": timer_doc_case, "watchdog": watchdog_case, "watchdog_delay0": watchdog_case,
       "waittimer": waittimer_case, "timeline": timeline_case, "pwm": pwm_case}
