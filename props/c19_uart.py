"""C19 UART: pin-level frame decoder on tx, frame generator on rx (rate mismatch, sub-bit phase,
zero gaps, framing errors), RS232PHYTX / RS232PHYRX / RS232PHY and the full UART behind a real
CSR bank. The oracle is the asynchronous-serial frame format (idle 1, start 0, 8 data LSB first,
stop 1, every bit one bit period = 2**32/tuning_word system cycles)."""
from migen import Signal

from litex.soc.cores import uart as uartmod

from lib.collect import rng_for
from lib.bench.kernel import Bench
from lib.bench.stream import SourceDriver, SinkDriver, EndpointMonitor, Always, Bursts, Bernoulli
from props.c19lib import Tracer, Viol, Stopper, CSRTop, CSRMaster

TX_RATIOS = [4, 5.3, 7, 8, 10.5, 16, 27.3, 33.7]
RX_RATIOS = [16, 17.4, 20.7, 27.3, 33.1]           # +-2 % demanded
RX_LOW_RATIOS = [8, 10.5, 12.3]                   # fewer than 16 samples per bit: +-0.5 % only
RX_TOL = 0.02
RX_LOW_TOL = 0.005


def tw_of(ratio):
    return int(2**32 / ratio)


# ------------------------------------------------------------------------------------ TX decoder
class TxDecoder:
    """Frame decoder on the tx pad. period() gives the bit period valid for a frame starting now."""
    def __init__(self, tx, period, viol, name="uart_tx"):
        self.tx, self.period, self.viol, self.name = tx, period, viol, name
        self.state = "idle"
        self.prev = 1
        self.frames = []        # (start_cycle, byte, P)
        self.s = self.P = None
        self.bits = []
        self.samples = []
        self.edges = 0

    def signals(self):
        return [self.tx]

    def step(self, v, c):
        x = v[self.tx]
        if self.state == "frame" and (c - self.s) >= 10 * self.P - 1 and len(self.bits) == 10:
            byte = sum(b << i for i, b in enumerate(self.bits[1:9]))
            if self.bits[9] != 1:
                self.viol.add(self.name + "/stop-bit", "stop bit slot sampled low", cycle=c,
                              frame_start=self.s, bits=self.bits, period=self.P)
            self.frames.append((self.s, byte, self.P))
            self.state = "idle"
        if self.state == "idle":
            if x == 0:
                if self.prev != 1:
                    self.viol.add(self.name + "/idle-level", "line low outside a frame", cycle=c)
                self.state = "frame"
                self.s = c
                self.P = self.period()
                self.bits = []
                self.samples = [c + int((k + 0.5) * self.P) for k in range(10)]
        else:
            rel = c - self.s
            if x != self.prev:
                self.edges += 1
                k = round(rel / self.P)
                d = rel - k * self.P
                if abs(d) > 1.0 + 1e-6 or not (1 <= k <= 10):
                    self.viol.add(self.name + "/bit-period",
                                  "edge %.2f cycles away from the bit grid (period %.3f)" % (d, self.P),
                                  cycle=c, frame_start=self.s, rel=rel, period=self.P)
            if len(self.bits) < 10 and c == self.samples[len(self.bits)]:
                self.bits.append(x)
        self.prev = x
        return None


class Const:
    def __init__(self, writes):
        self.w = writes

    def signals(self):
        return []

    def step(self, v, c):
        return self.w if c == 0 else None


def tokens_of(data):
    return [{"first": 0, "last": 0, "pay": (b,), "par": ()} for b in data]


def tx_case(col, case):
    rng = rng_for(case["seed"])
    ratios = case["ratios"]
    data = [rng.getrandbits(8) for _ in range(case["n"])]
    for i, b in enumerate(case.get("force", [])):
        data[i] = b
    pads = uartmod.UARTPads()
    tw = Signal(32, reset=tw_of(ratios[0]))
    dut = uartmod.RS232PHYTX(pads, tw)
    viol = Viol()
    cur = {"tw": tw_of(ratios[0])}
    dec = TxDecoder(pads.tx, lambda: 2**32 / cur["tw"], viol)
    kind = case["sched"]
    if kind == "b2b":
        sched = Always(True)
    elif kind == "bursts":
        sched = Bursts(rng, (1, 40), (1, 60))
    else:
        sched = Bernoulli(rng, 0.05)
    drv = SourceDriver(dut.sink, tokens_of(data), sched, rng)
    mon = EndpointMonitor(dut.sink, "sink")
    tr = Tracer([("tx", pads.tx), ("valid", dut.sink.valid), ("ready", dut.sink.ready)])
    viol.tracer = tr

    class Retune:
        """Changes the tuning word between frames (line idle, nothing offered)."""
        def __init__(self):
            self.i = 0
            self.changes = 0

        def signals(self):
            return [tw]

        def step(self, v, c):
            cur["tw"] = v[tw]
            if len(ratios) > 1 and dec.state == "idle" and not drv.offering and len(dec.frames) // 3 > self.changes:
                self.changes += 1
                r = ratios[self.changes % len(ratios)]
                return {tw: tw_of(r)}
            return None

    rt = Retune()
    maxp = max(ratios)
    cap = int(case["n"] * (10 * maxp + 80) + 400)
    if kind == "sparse":
        cap += case["n"] * 30
    b = Bench(dut, cap=cap, drain=int(12 * maxp))
    # order matters: retune first so that the decoder sees the word in force
    for a in (rt, drv, mon, dec, tr, Stopper(lambda: drv.done() and len(mon.log) >= len(data))):
        b.add(a)
    finished = b.run()
    acc = [e[3][0] for e in mon.log]
    col.ev("uart_tx_frames_decoded", len(dec.frames))
    col.ev("uart_tx_edges_checked", dec.edges)
    for _, _, P in dec.frames:
        col.cov("uart_tx_tuning_words", int(round(2**32 / P)))
    col.cov("uart_tx_sched", kind)
    if not finished:
        viol.add("uart_tx/stuck", "not all bytes accepted within %d cycles" % cap, accepted=len(acc), wanted=len(data))
    got = [f[1] for f in dec.frames]
    if acc != data[:len(acc)]:
        viol.add("uart_tx/sink-order", "accepted bytes differ from the offered ones", accepted=acc[:12], offered=data[:12])
    if got != acc:
        i = next((i for i, (a, g) in enumerate(zip(acc, got)) if a != g), min(len(acc), len(got)))
        viol.add("uart_tx/data", "frame %d on the pad decodes to %s, byte accepted at the sink %s (%d frames / %d bytes)"
                 % (i, hex(got[i]) if i < len(got) else None, hex(acc[i]) if i < len(acc) else None, len(got), len(acc)),
                 frame_index=i, decoded=got[max(0, i - 2):i + 3], accepted=acc[max(0, i - 2):i + 3])
    # frame k is acknowledged inside its own stop bit / right after it
    for k, (s, _, P) in enumerate(dec.frames):
        if k < len(mon.log):
            hc = mon.log[k][0]
            if not (s + 9 * P - 1 <= hc <= s + 10 * P + 2):
                viol.add("uart_tx/ack-time", "sink handshake %.1f cycles after the start edge, frame lasts %.1f"
                         % (hc - s, 10 * P), frame_index=k)
    if kind == "b2b" and len(ratios) == 1:
        for (s0, _, P), (s1, _, _) in zip(dec.frames, dec.frames[1:]):
            col.ev("uart_tx_b2b_gaps")
            if s1 - s0 > 10 * P + 2:
                viol.add("uart_tx/frame-length", "back-to-back start-to-start distance %d cycles > 10 bit periods (%.1f) + 2"
                         % (s1 - s0, 10 * P), start=s0, next_start=s1, period=P)
    viol.flush(col, case, tr)
    col.case_done(case, nontrivial=len(dec.frames) >= 4,
                  sample={"case": case, "frames_decoded": len(dec.frames), "first_frames": [list(f) for f in dec.frames[:3]]})


# ------------------------------------------------------------------------------------ RX generator
class RxGenerator:
    """Drives the rx pad from a list of (time, level) edges in real-valued system-cycle time: the pad
    value during cycle c is the level of the waveform at time c."""
    def __init__(self, rx, edges):
        self.rx, self.edges, self.i, self.level = rx, edges, 0, 1
        self.end = edges[-1][0] if edges else 0

    def signals(self):
        return []

    def step(self, v, c):
        t = c + 1
        while self.i < len(self.edges) and self.edges[self.i][0] <= t:
            self.level = self.edges[self.i][1]
            self.i += 1
        return {self.rx: self.level}


def gen_frames(rng, n, P, tol, with_bad, t0=8.0):
    """-> edges, frames [(start, Pg, byte, good)]"""
    frames = []
    segs = []          # (time, level)
    t = t0 + rng.random()
    for i in range(n):
        eps = rng.choice([-tol, tol, rng.uniform(-tol, tol), 0.0])
        Pg = P * (1 + eps)
        g = rng.random()
        if i == 0 or g < 0.35:
            gap = 0.0
        elif g < 0.6:
            gap = rng.random() * Pg
        elif g < 0.9:
            gap = rng.uniform(0, 3) * Pg
        else:
            gap = rng.uniform(3, 12) * Pg
        if i and not frames[-1][3]:
            gap = max(gap, 2.0 * Pg)       # after a framing error the line rests at least 2 bits
        # sub-cycle phase sweep
        start = t + gap
        byte = rng.choice([rng.getrandbits(8), 0x00, 0xff, 0x55, 0xaa, 0x80, 0x01, 0x7f, 0xfe])
        good = not (with_bad and rng.random() < 0.2)
        bits = [0] + [(byte >> k) & 1 for k in range(8)] + [1 if good else 0]
        for k, b in enumerate(bits):
            segs.append((start + k * Pg, b))
        segs.append((start + 10 * Pg, 1))
        frames.append((start, Pg, byte, good))
        t = start + 10 * Pg
    edges = []
    lvl = 1
    for tt, b in segs:
        if b != lvl:
            edges.append((tt, b))
            lvl = b
    return edges, frames, t


def judge_rx(viol, frames, deliveries, name="uart_rx", latency=(0, 6)):
    """frames: generator frames; deliveries: [(cycle, byte)]"""
    want = [(s, Pg, b) for s, Pg, b, good in frames if good]
    got = [d[1] for d in deliveries]
    exp = [w[2] for w in want]
    if got != exp:
        i = next((i for i, (a, g) in enumerate(zip(exp, got)) if a != g), min(len(exp), len(got)))
        viol.add(name + "/data", "delivery %d is %s, frame on the pad carried %s (%d deliveries for %d good frames)"
                 % (i, hex(got[i]) if i < len(got) else None, hex(exp[i]) if i < len(exp) else None, len(got), len(exp)),
                 index=i, delivered=got[max(0, i - 2):i + 3], sent=exp[max(0, i - 2):i + 3],
                 frames=[list(f) for f in frames[max(0, i - 2):i + 3]])
        return
    for (s, Pg, b), (c, _) in zip(want, deliveries):
        if not (s + 9 * Pg + latency[0] <= c <= s + 10 * Pg + latency[1]):
            viol.add(name + "/delivery-time", "byte delivered %.1f cycles after its start edge; stop bit spans %.1f..%.1f"
                     % (c - s, 9 * Pg, 10 * Pg), start=s, cycle=c)


def rx_case(col, case):
    rng = rng_for(case["seed"])
    P = 2**32 / tw_of(case["ratio"])
    pads = uartmod.UARTPads()
    pads.rx.reset = 1
    dut = uartmod.RS232PHYRX(pads, tw_of(case["ratio"]))
    edges, frames, tend = gen_frames(rng, case["n"], P, case["tol"], case["bad"])
    viol = Viol()
    gen = RxGenerator(pads.rx, edges)
    snk = SinkDriver(dut.source, Always(True))
    mon = EndpointMonitor(dut.source, "source")
    tr = Tracer([("rx", pads.rx), ("valid", dut.source.valid), ("data", dut.source.data)])
    viol.tracer = tr
    cap = int(tend + 4 * P + 40)
    b = Bench(dut, cap=cap + 10)
    for a in (gen, snk, mon, tr, Stopper(lambda: False, after=cap)):
        b.add(a)
    b.run()
    deliveries = [(e[0], e[3][0]) for e in mon.log]
    col.ev("uart_rx_bytes_delivered", len(deliveries))
    col.ev("uart_rx_frames_sent", len(frames))
    col.ev("uart_rx_bad_stop_frames", sum(1 for f in frames if not f[3]))
    col.ev("uart_rx_zero_gap_frames", sum(1 for a, b2 in zip(frames, frames[1:]) if abs(b2[0] - (a[0] + 10 * a[1])) < 1e-9))
    col.cov("uart_rx_tuning_words", tw_of(case["ratio"]))
    for s, Pg, _, _ in frames:
        col.cov("uart_rx_phase_offsets_16th", int((s % 1.0) * 16))
        col.cov("uart_rx_rate_mismatch_permille", int(round((Pg / P - 1) * 1000)))
    judge_rx(viol, frames, deliveries, name=case.get("keyname", "uart_rx"))
    viol.flush(col, case, tr, extra={"ratio": case["ratio"]})
    col.case_done(case, nontrivial=len(deliveries) >= 4,
                  sample={"case": case, "frames": [list(f) for f in frames[:3]], "deliveries": deliveries[:3]})


# ------------------------------------------------------------------------------------ full UART
class UartSoftware:
    """Software model on the CSR bus (the polling driver of the LiteX BIOS): TX: wait txfull == 0,
    write rxtx; RX: while rxempty == 0: read rxtx, write ev_pending = RX (pops the FIFO)."""
    EV_TX, EV_RX = 1, 2

    def __init__(self, txdata, rng, lazy):
        self.txdata, self.rng, self.lazy = txdata, rng, lazy
        self.rx = []
        self.tx_sent = 0
        self.stop = False
        self.irq_checks = 0
        self.status_log = []

    def prog(self):
        r = self.rng
        yield ("w", "ev_enable", 3)
        while not self.stop:
            if self.tx_sent < len(self.txdata):
                burst = r.randint(1, 20)
                while burst and self.tx_sent < len(self.txdata):
                    _, _, full = yield ("r", "txfull", None)
                    if full & 1:
                        break
                    yield ("w", "rxtx", self.txdata[self.tx_sent])
                    self.tx_sent += 1
                    burst -= 1
            while True:
                _, _, empty = yield ("r", "rxempty", None)
                if empty & 1:
                    break
                _, _, d = yield ("r", "rxtx", None)
                self.rx.append(d & 0xff)
                yield ("w", "ev_pending", self.EV_RX)
            if self.lazy:
                yield ("idle", r.randint(1, self.lazy))


def full_case(col, case):
    rng = rng_for(case["seed"])
    ratio = case["ratio"]
    clk = 1000000
    pads = uartmod.UARTPads()
    pads.rx.reset = 1
    phy = uartmod.RS232PHY(pads, clk_freq=clk, baudrate=clk / ratio)
    tw = int((clk / ratio / clk) * 2**32)
    P = 2**32 / tw
    u = uartmod.UART(phy, tx_fifo_depth=case["depth"], rx_fifo_depth=case["depth"])

    top = CSRTop(u, extra=phy)
    txdata = [rng.getrandbits(8) for _ in range(case["n"])]
    edges, frames, tend = gen_frames(rng, case["n"], P, case["tol"], False, t0=30.0)
    viol = Viol()
    sw = UartSoftware(txdata, rng, case["lazy"])
    m = CSRMaster(top, sw.prog())
    dec = TxDecoder(pads.tx, lambda: P, viol, name="uart/tx")
    gen = RxGenerator(pads.rx, edges)
    tr = Tracer([("tx", pads.tx), ("rx", pads.rx), ("irq", u.ev.irq)])
    viol.tracer = tr
    cap = int(max(tend, case["n"] * 10 * P * 1.3) + 30 * P + 300)

    def fin():
        if len(dec.frames) >= len(txdata) and len(sw.rx) >= len(frames) and dec.state == "idle":
            sw.stop = True
        return sw.stop and m.done()
    b = Bench(top, cap=cap)
    for a in (m, gen, dec, tr, Stopper(fin)):
        b.add(a)
    finished = b.run()
    col.ev("uart_full_tx_frames", len(dec.frames))
    col.ev("uart_full_rx_bytes", len(sw.rx))
    col.ev("uart_tx_frames_decoded", len(dec.frames))
    col.ev("uart_rx_bytes_delivered", len(sw.rx))
    col.cov("uart_full_cfg", "ratio=%s depth=%d lazy=%d" % (ratio, case["depth"], case["lazy"]))
    got = [f[1] for f in dec.frames]
    if not finished:
        viol.add("uart/stuck", "CSR-driven UART did not move all bytes within %d cycles" % cap,
                 tx_frames=len(got), tx_wanted=len(txdata), rx_read=len(sw.rx), rx_wanted=len(frames))
    if got != txdata[:len(got)] or (finished and len(got) != len(txdata)):
        viol.add("uart/tx-data", "bytes written to rxtx and frames on the pad differ", written=txdata[:16], decoded=got[:16])
    exp = [f[2] for f in frames]
    if sw.rx != exp[:len(sw.rx)] or (finished and len(sw.rx) != len(exp)):
        viol.add("uart/rx-data", "bytes read from rxtx differ from the frames fed to the pad", read=sw.rx[:16], sent=exp[:16])
    viol.flush(col, case, tr)
    col.case_done(case, nontrivial=len(dec.frames) >= 4 and len(sw.rx) >= 4,
                  sample={"case": case, "tx_frames": len(dec.frames), "rx_bytes": len(sw.rx)})


# ------------------------------------------------------------------------------------ cases
def cases(tier, seed):
    q = tier == "quick"
    out = []
    k = 0
    for rep in range(2 if q else 12):
        for r in TX_RATIOS:
            for sched in ("b2b", "bursts", "sparse"):
                n = int(min(60, max(10, (1500 if q else 4000) / (10 * r))))
                out.append({"cls": "uart_tx", "seed": "%d/C19/uart_tx/%d" % (seed, k), "ratios": [r], "n": n, "sched": sched,
                            "force": [0x00, 0xff, 0x55, 0xaa, 0x01, 0x80]})
                k += 1
        for j in range(3):
            rr = rng_for(seed, "C19/txmix", rep, j)
            ratios = rr.sample(TX_RATIOS, 3)
            out.append({"cls": "uart_tx", "seed": "%d/C19/uart_tx/%d" % (seed, k), "ratios": ratios, "n": 12, "sched": "bursts"})
            k += 1
    k = 0
    for rep in range(4 if q else 40):
        for r in RX_RATIOS:
            for bad in (False, True):
                n = int(max(8, (2000 if q else 4000) / (10 * r)))
                out.append({"cls": "uart_rx", "seed": "%d/C19/uart_rx/%d" % (seed, k), "ratio": r, "n": n, "tol": RX_TOL, "bad": bad})
                k += 1
        for r in RX_LOW_RATIOS:
            n = int((1500 if q else 3000) / (10 * r))
            out.append({"cls": "uart_rx", "seed": "%d/C19/uart_rx/%d" % (seed, k), "ratio": r, "n": n, "tol": RX_LOW_TOL, "bad": rep % 2 == 1})
            k += 1
    k = 0
    for rep in range(2 if q else 10):
        for ratio, depth, lazy in ((16, 16, 0), (20.7, 4, 150), (16, 8, 40), (27.3, 16, 400)):
            out.append({"cls": "uart_full", "seed": "%d/C19/uart_full/%d" % (seed, k), "ratio": ratio, "depth": depth,
                        "lazy": lazy, "n": 14 if q else 24, "tol": RX_TOL})
            k += 1
    return out


RUN = {"uart_tx": tx_case, "uart_rx": rx_case, "uart_full": full_case}
