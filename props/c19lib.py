"""Shared pieces of the C19 benches: pin tracer (witness window), CSR bus master over a real
CSRBank, tiny Wishbone master, scripted agents."""
from collections import deque

from migen import Module

from litex.soc.interconnect import csr_bus

from lib.bench.kernel import Bench


class Tracer:
    """Keeps the last `depth` cycles of a set of named signals (witness window)."""
    def __init__(self, named, depth=40):
        self.names = [n for n, _ in named]
        self.sigs = [s for _, s in named]
        self.buf = deque(maxlen=depth)
        self.waiting = []          # witness dicts that want the window around "now"

    def signals(self):
        return self.sigs

    def step(self, v, c):
        self.buf.append([c] + [v[s] for s in self.sigs])
        if self.waiting:
            w = self.window()
            for d in self.waiting:
                d["window"] = w
            self.waiting = []
        return None

    def window(self):
        return {"columns": ["cycle"] + self.names, "rows": list(self.buf)}


class Viol:
    """Violation list of one case: first witness per key is kept in full, the rest are counted."""
    def __init__(self, limit=3, tracer=None):
        self.items = []
        self.counts = {}
        self.limit = limit
        self.tracer = tracer       # set it to get the pin window at the moment of each violation

    def add(self, key, what, **witness):
        n = self.counts.get(key, 0)
        self.counts[key] = n + 1
        if n < self.limit:
            self.items.append((key, what, witness))
            if self.tracer is not None:
                self.tracer.waiting.append(witness)

    def __bool__(self):
        return bool(self.items)

    def flush(self, col, case, tracer=None, extra=None):
        for key, what, wit in self.items:
            w = dict(wit)
            if extra:
                w.update(extra)
            if tracer is not None and "window" not in w:
                w["window_at_end"] = tracer.window()
            col.violation(key, case, what, w)


class Stopper:
    """Ends the bench when fn() is true (after `after` cycles at least)."""
    def __init__(self, fn, after=0):
        self.fn, self.after, self.c, self.ok = fn, after, 0, False

    def signals(self):
        return []

    def step(self, v, c):
        self.c = c
        self.ok = self.c >= self.after and bool(self.fn())      # evaluated every cycle (fn may have side effects)
        return None

    def done(self):
        return self.ok


class Forcer:
    """Ends the bench at once when fn() becomes true (stuck core: the verdict is already recorded)."""
    def __init__(self, fn):
        self.fn, self.force = fn, False

    def signals(self):
        return []

    def step(self, v, c):
        if self.fn():
            self.force = True
        return None


class CSRTop(Module):
    """DUT + a real CSRBank (32-bit CSR bus) built from dut.get_csrs()."""
    def __init__(self, dut, extra=None):
        self.submodules.dut = dut
        self.bus = csr_bus.Interface(data_width=32, address_width=14)
        self.submodules.bank = csr_bus.CSRBank(dut.get_csrs(), address=0, bus=self.bus)
        self.map = {c.name: i for i, c in enumerate(self.bank.simple_csrs)}
        for c in dut.get_csrs():            # single-word CSRStorage "x" is exported as simple CSR "x0"
            if c.name not in self.map and c.name + "0" in self.map:
                self.map[c.name] = self.map[c.name + "0"]
        if extra is not None:
            self.submodules.extra = extra


class CSRMaster:
    """CSR bus master. ops: list of ("w", name, value) | ("r", name, tag) | ("idle", n) or a
    generator yielding such ops (it is sent the read value after a read). A write is adr/we/dat_w
    for one cycle; a read is adr/re for one cycle and dat_r taken on the cycle after.
    Logs: writes [(bus_cycle, name, value)], reads [(bus_cycle, name, value, tag)] where bus_cycle
    is the cycle during which the request was on the bus."""
    def __init__(self, top, prog, gap=1):
        self.gap = gap          # idle bus cycles after a write (Wishbone2CSR never issues back-to-back accesses)
        self.bus, self.map = top.bus, top.map
        self.prog = iter(prog)
        self.writes, self.reads = [], []
        self.state = "fetch"
        self.wait = 0
        self.pending = None
        self.finished = False
        self._send = None
        self.has_re = hasattr(self.bus, "re")

    def signals(self):
        return [self.bus.dat_r]

    def _next(self):
        try:
            if self._send is not None and hasattr(self.prog, "send"):
                s, self._send = self._send, None
                return self.prog.send(s)
            return next(self.prog)
        except StopIteration:
            self.finished = True
            return None

    def step(self, v, c):
        idle = {self.bus.we: 0}
        if self.has_re:
            idle[self.bus.re] = 0
        if self.state == "rd1":          # request is on the bus during this cycle (c)
            self.state = "rd2"
            return idle
        if self.state == "rd2":          # dat_r valid now
            name, tag, bc = self.pending
            val = v[self.bus.dat_r]
            self.reads.append((bc, name, val, tag))
            self._send = ("r", name, val)
            self.state = "fetch"
        if self.wait > 0:
            self.wait -= 1
            return idle
        if self.finished:
            return idle
        op = self._next()
        if op is None:
            return idle
        if op[0] == "idle":
            self.wait = max(0, op[1] - 1)
            return idle
        if op[0] == "w":
            _, name, val = op
            self.writes.append((c + 1, name, val))
            self.wait = self.gap
            w = {self.bus.adr: self.map[name], self.bus.we: 1, self.bus.dat_w: val}
            if self.has_re:
                w[self.bus.re] = 0
            return w
        if op[0] == "r":
            _, name, tag = op
            self.pending = (name, tag, c + 1)
            self.state = "rd1"
            w = {self.bus.adr: self.map[name], self.bus.we: 0}
            if self.has_re:
                w[self.bus.re] = 1
            return w
        raise ValueError(op)

    def done(self):
        return self.finished and self.state == "fetch" and self.wait == 0


class Script:
    """Drives signals from a per-cycle function fn(cycle_that_will_see_the_value) -> dict or None."""
    def __init__(self, fn):
        self.fn = fn

    def signals(self):
        return []

    def step(self, v, c):
        return self.fn(c + 1)


def run_bench(dut, agents, cap, drain=0):
    b = Bench(dut, cap=cap, drain=drain)
    for a in agents:
        b.add(a)
    ok = b.run()
    return ok, b.cycle["sys"]
