"""C20 - computed PLL/clock configurations meet the request and the device limits.

Runtime monitoring: the REAL clocking helpers (litex/soc/cores/clock/*.py) are given random and boundary
requests; icontract post-conditions patched in place on compute_config / do_finalize (props/c20mon.py)
recompute every output from the returned dividers with an independent model (lib/models/pll.py), check
the declared ranges and the emitted primitive parameters; every refusal is cross-checked by an
independent existence search over the same declared ranges. The repository's test/test_clock.py is run
with the contracts on as one workload class."""
import io
import os
import math
import contextlib

from lib import env
from lib.collect import Collector, rng_for
from lib.models import pll as model
from props import c20mon as mon

LEVEL = "exploration"
RULE = ("one case = one request (helper class x speed grade / device variant x input frequency x 1..max outputs of (frequency, "
        "phase, margin)) given to a fresh helper, then helper.finalize(). Requests are boundary (declared input/VCO/divider limits, "
        "frequencies exactly on / just inside / just outside the margin of an achievable value), achievable (derived from a random legal "
        "divider setting), round numbers or log-uniform random; margins 0..5e-2. Contracts judge every returned configuration and the "
        "emitted primitive; every refusal is cross-checked by an independent search. non-trivial = a configuration was judged or a "
        "refusal was cross-checked; distinct = distinct requests")
ASSUMPTIONS = [
    "migen tracer shim (names only)",
    "device formulae: Xilinx f_vco=f_in*MULT/DIVCLK, f_out=f_vco/DIVIDE; DCM f_out=f_in*CLKFX_MULTIPLY/CLKFX_DIVIDE; ECP5 f_vco=f_in/CLKI_DIV*"
    "CLKFB_DIV*DIV(feedback output); iCE40 (SIMPLE feedback) f_out=f_in*(DIVF+1)/((DIVR+1)*2^DIVQ); NX f_vco=f_in/REF_MMD_DIG*(DIVF+1), "
    "f_out=f_vco/(DIVx+1); ALTPLL f_out=f_in*MULTIPLY_BY/DIVIDE_BY; Gowin rPLL CLKOUT=f_in*(FBDIV_SEL+1)/(IDIV_SEL+1), VCO=CLKOUT*ODIV_SEL, "
    "CLKOUTD=CLKOUT/SDIV, CLKOUTD3=CLKOUT/3; GW5A f_vco=f_in/IDIV*FBDIV*MDIV (the helper's own statement); Trion f_vco=f_in/N*M*O*Cfbk",
    "declared ranges are read from the class attributes at run time (clkfbout_mult_frange, clkout_divide_range, divclk_divide_range, "
    "vco_freq_range incl. vco_margin, pfd/clkin_pfd ranges, *_div_range ...); where a class has no attribute the sets its own search "
    "scans / its comments state are taken as the declaration (USPMMCM 2..128 step 0.125, Gowin IDIV/FBDIV 1..63, ODIV list, Trion N/M/O/C)",
    "margin test of the property: |f_out - f| <= f*margin (relative to the REQUEST); float tolerance 1e-9 relative",
    "completeness is only claimed for solutions strictly inside margin/VCO/PFD windows by 1e-8, so float rounding cannot decide",
    "input frequencies are drawn inside clkin_freq_range / clki_freq_range where the class declares one; output requests outside a "
    "declared clko_freq_range are legal 'refusals at registration' when the helper asserts on them",
    "Gowin GW1N/GW2A completeness for several outputs with phase 0: brute force over (IDIV, FBDIV, ODIV) and injective assignments to "
    "CLKOUT/CLKOUTP (x1), CLKOUTD3 (/3), CLKOUTD (/even), restricted to settings in which the fastest request sits on CLKOUT/CLKOUTP "
    "(the shape the helper itself aims at)",
    "Gowin GW1N/GW2A completeness: brute force for single-output requests; for several outputs with phases the same frequencies are re-submitted "
    "in descending order with every margin tightened to the smallest one: if the helper accepts that stricter request (contracts on), "
    "a setting for the refused request exists",
    "Efinix: a stub platform (interface-writer block list, iface IOs, PLL resources) stands in for EfinixPlatform, which needs the "
    "vendor tool's device database; TITANIUMPLL computes nothing in LiteX and is not judged. GateMate CC_PLL has no divider search "
    "in LiteX: only the emitted REF_CLK/OUT_CLK/DOUB parameters and the wiring are judged",
    "phases: equality with the request where the primitive takes degrees (Xilinx); within one hardware step for ECP5; Intel within 1 ps",
]
FLOORS = {
    "quick": {"requests": 1500, "contract_config_meets_request": 900, "contract_config_inside_declared_ranges": 900,
              "contract_instance_realises_config": 900, "configs_accepted": 900, "refusals_crosschecked": 200,
              "refusals_confirmed_no_solution": 150, "n_helpers_with_config": 18, "n_helpers_with_refusal": 10, "n_boundary_kinds": 12,
              "test_clock_tests_run": 15, "test_clock_contract_evaluations": 20, "osc_requests": 150, "osc_outputs_checked": 120,
              "osc_refusals": 10},
    "thorough": {"requests": 18000, "contract_config_meets_request": 11000, "contract_config_inside_declared_ranges": 11000,
                 "contract_instance_realises_config": 11000, "configs_accepted": 11000, "refusals_crosschecked": 2500,
                 "refusals_confirmed_no_solution": 2000, "n_helpers_with_config": 18, "n_helpers_with_refusal": 12, "n_boundary_kinds": 14,
                 "test_clock_tests_run": 15, "test_clock_contract_evaluations": 20, "osc_requests": 2000, "osc_outputs_checked": 1600,
                 "osc_refusals": 100},
}
SHARD_TIMEOUT = {"quick": 900, "thorough": 3000}
N_SAMPLES = 8
CASE_WALL_CAP = 120

# helper -> (cases quick, cases thorough)
N_CASES = {
    "S6PLL": (120, 1500), "S6DCM": (100, 1200), "S7PLL": (160, 2000), "S7MMCM": (160, 2000), "USPLL": (110, 1400), "USMMCM": (110, 1400),
    "USPPLL": (110, 1400), "USPMMCM": (90, 1000), "ECP5PLL": (260, 2600), "iCE40PLL": (160, 2000), "NXPLL": (110, 1100),
    "CycloneIVPLL": (40, 400), "CycloneVPLL": (40, 400), "Cyclone10LPPLL": (40, 400), "Max10PLL": (40, 400),
    "GW1NPLL": (200, 2400), "GW2APLL": (120, 1400), "GW5APLL": (16, 160), "TRIONPLL": (100, 1200), "GateMatePLL": (60, 700),
    "NXOSCA": (120, 1500), "GW1NOSC": (80, 1000),
}
N_SHARDS = {"quick": 48, "thorough": 128}


def plan(tier, seed):
    ti = 0 if tier == "quick" else 1
    cases = []
    for helper, n in N_CASES.items():
        for k in range(n[ti]):
            cases.append({"seed": "%d/C20/%s/%d" % (seed, helper, k), "cls": helper})
    ns = N_SHARDS[tier]
    # interleave so that slow helpers (Intel, NX) are spread over all shards
    shards = [{"id": "p%03d" % i, "cls": "mixed", "cases": cases[i::ns]} for i in range(ns)]
    shards[0]["cases"] = [{"seed": "%d/C20/test_clock/0" % seed, "cls": "test_clock"}] + shards[0]["cases"]
    return [s for s in shards if s["cases"]]


class HarnessTimeout(BaseException):
    pass


def _on_alarm(signum, frame):
    raise HarnessTimeout()


def run_shard(shard):
    import signal
    col = Collector(shard["cls"], max_samples=8)
    col.sampled = set()
    signal.signal(signal.SIGALRM, _on_alarm)
    with contextlib.redirect_stdout(io.StringIO()):
        inst = mon.install()
        for n in inst["wrapped_compute_config"]:
            col.cov("compute_config_wrapped_on", n)
        for n in inst["wrapped_do_finalize"]:
            col.cov("do_finalize_wrapped_on", n)
        for case in shard["cases"]:
            col.cls = case.get("cls", shard["cls"])
            signal.setitimer(signal.ITIMER_REAL, CASE_WALL_CAP)
            try:
                col.guard(case, run_case, col, case)
            except HarnessTimeout:
                col.inconc(case, "case exceeded the %d s wall-clock cap (cost only, never a verdict)" % CASE_WALL_CAP)
            finally:
                signal.setitimer(signal.ITIMER_REAL, 0)
            env.restore_stderr()
            for k, v in mon.EV.items():
                col.ev(k, v)
            mon.EV.clear()
    return col.result()


def _reset_tracer():
    import migen.fhdl.tracer as t
    t.classname_to_objs.clear()
    t.name_to_idx.clear()


def run_case(col, case):
    _reset_tracer()
    mon.reset_case()
    if case["cls"] == "test_clock":
        return run_test_clock(col, case)
    rng = rng_for(case["seed"])
    if case["cls"] in ("NXOSCA", "GW1NOSC"):
        return run_osc(col, case, rng)
    req = case["request"] if "request" in case else gen_request(col, case["cls"], rng)
    return run_request(col, case, req)


# ------------------------------------------------------------------------------------------------
# oscillator helpers of the anchored files (a base frequency and one divider per output): same questions as for the PLLs
# ------------------------------------------------------------------------------------------------
def _inst_params(mod, of):
    from migen.fhdl.specials import Instance
    for sp in mod._fragment.specials:
        if isinstance(sp, Instance) and sp.of == of:
            return {("p_" if isinstance(i, Instance.Parameter) else "x_") + i.name: (i.value if isinstance(i, Instance.Parameter) else i.expr)
                    for i in sp.items}
    return None


def run_osc(col, case, rng):
    from migen import ClockDomain
    name = case["cls"]
    req = case.get("request")
    if name == "NXOSCA":
        from litex.soc.cores.clock.lattice_nx import NXOSCA
        base, lo, hi = NXOSCA.clk_hf_freq, *NXOSCA.clk_hf_div_range
        divs = [d + 1 for d in range(lo, hi)]                       # HF_CLK_DIV = d divides by d + 1
        if req is None:
            def one():
                m = rng.choice([5e-2, 5e-2, 1e-2, 1e-3, 1e-4, 0.2])
                mode = rng.random()
                if mode < 0.5:
                    d = rng.choice(divs)
                    f = base / d * (1 + rng.choice([0, 0.5, 0.99, -0.99, 1.01, -1.01]) * m)
                elif mode < 0.8:
                    f = rng.choice([1.8e6, 2e6, 5e6, 10e6, 12e6, 25e6, 50e6, 75e6, 100e6, 150e6, 225e6, 450e6])
                else:
                    f = loguniform(rng, 1.77e6, 450e6)
                return [min(max(f, 1.77e6), 450e6), m]
            req = {"hf": one() if rng.random() < 0.8 else None, "hfsdc": one() if rng.random() < 0.5 else None}
            if req["hf"] is None and req["hfsdc"] is None:
                req["hf"] = one()
        outs = [(k, req[k]) for k in ("hf", "hfsdc") if req.get(k)]
        osc = NXOSCA()
        for k, (f, m) in outs:
            cd = ClockDomain("cd_" + k)
            (osc.create_hf_clk if k == "hf" else osc.create_hfsdc_clk)(cd, f, margin=m)
        param = {"hf": "p_HF_CLK_DIV", "hfsdc": "p_HF_SED_SEC_DIV"}

        def build():
            osc.finalize()
            return _inst_params(osc, "OSCA")

        def div_of(p, k):
            v = p[param[k]]
            return int(getattr(v, "value", v)) + 1
    else:
        from litex.soc.cores.clock.gowin_gw1n import GW1NOSC
        lo, hi = GW1NOSC.osc_div_range
        divs = list(range(lo, hi))
        if req is None:
            dev = rng.choice(["GW1N-4", "GW1NR-9", "GW1N-1", "GW1NR-4B", "GW2A-18C"])
            base = 210e6 if dev in ["GW1N-4", "GW1NR-4", "GW1N-4B", "GW1NR-4B", "GW1NRF-4B", "GW1N-4C", "GW1NR-4C"] else 250e6
            m = rng.choice([1e-2, 1e-2, 5e-2, 1e-3, 1e-4])
            if rng.random() < 0.6:
                f = base / rng.choice(divs) * (1 + rng.choice([0, 0.5, 0.99, -0.99, 1.01, -1.01]) * m)
            else:
                f = rng.choice([2e6, 2.5e6, 5e6, 10e6, 12e6, 25e6, 27e6, 50e6, 62.5e6, 105e6, 125e6])
            req = {"device": dev, "hf": [f, m]}
        dev = req["device"]
        base = 210e6 if dev in ["GW1N-4", "GW1NR-4", "GW1N-4B", "GW1NR-4B", "GW1NRF-4B", "GW1N-4C", "GW1NR-4C"] else 250e6
        outs = [("hf", req["hf"])]
        holder = {}

        def build():
            holder["o"] = GW1NOSC(dev, req["hf"][0], margin=req["hf"][1])
            holder["o"].finalize()
            return _inst_params(holder["o"], "OSC")

        def div_of(p, k):
            v = p["p_FREQ_DIV"]
            return int(getattr(v, "value", v))
    case = dict(case, request=req)
    col.ev("osc_requests")
    solvable = {k: [d for d in divs if abs(base / d - f) <= f * m * (1 + 1e-12)] for k, (f, m) in outs}
    try:
        p = build()
    except (ValueError, AssertionError) as e:
        env.restore_stderr()
        col.ev("osc_refusals")
        if all(solvable[k] for k, _ in outs):
            col.violation("%s/refused-but-solution-exists" % name.lower(), case, "request %s refused (%s) although dividers %s meet it" % (
                req, e, {k: v[:3] for k, v in solvable.items()}), {"request": req, "dividers_meeting_it": {k: v[:6] for k, v in solvable.items()}})
        col.case_done(case, True, sample={"request": req, "refused": str(e)})
        return
    except Exception as e:
        env.restore_stderr()
        col.violation("%s/crashed-%s" % (name.lower(), type(e).__name__), case, "request %s: %r" % (req, e), {"request": req})
        col.case_done(case, True)
        return
    col.ev("osc_configs_returned")
    if p is None:
        col.violation("%s/primitive-not-instantiated" % name.lower(), case, "no instance emitted", {"request": req})
        col.case_done(case, True)
        return
    for k, (f, m) in outs:
        try:
            d = div_of(p, k)
        except (KeyError, ValueError, TypeError):
            col.violation("%s/divider-parameter-missing" % name.lower(), case, "output %s: no divider parameter on the instance %s" % (
                k, sorted(x for x in p if x.startswith("p_"))), {"request": req})
            continue
        col.ev("osc_outputs_checked")
        if d not in divs:
            col.violation("%s/divider-out-of-range" % name.lower(), case, "output %s: divider %s outside the declared range" % (k, d), {"request": req})
        elif abs(base / d - f) > f * m * (1 + 1e-9):
            col.violation("%s/output-outside-margin" % name.lower(), case, "output %s: requested %.6g Hz +-%g, the emitted divider %d gives %.6g Hz" % (
                k, f, m, d, base / d), {"request": req, "divider": d, "obtained": base / d})
    col.case_done(case, True, sample={"request": req, "instance_parameters": {k: str(v) for k, v in p.items() if k.startswith("p_")}})


# ------------------------------------------------------------------------------------------------
# helper table
# ------------------------------------------------------------------------------------------------

COMMON_IN = [12e6, 16e6, 24e6, 25e6, 26e6, 27e6, 33.333e6, 48e6, 50e6, 74.25e6, 100e6, 125e6, 156.25e6, 200e6, 300e6]
COMMON_OUT = [6.25e6, 8e6, 10e6, 12e6, 16e6, 24e6, 25e6, 33.333e6, 40e6, 48e6, 50e6, 60e6, 65e6, 74.25e6, 75e6, 80e6, 100e6, 125e6, 133.33e6,
              148.5e6, 150e6, 166.666e6, 200e6, 250e6, 300e6, 333.333e6, 400e6, 500e6, 600e6, 800e6]
TYPICAL_OUT = [12e6, 24e6, 25e6, 30e6, 40e6, 48e6, 50e6, 60e6, 66.667e6, 75e6, 100e6, 125e6, 150e6, 200e6]
MARGINS = [1e-2, 1e-2, 1e-2, 1e-2, 1e-3, 1e-3, 1e-4, 2e-2, 2e-2, 5e-2, 5e-2, 1e-5, 3e-3, 3e-3, 0]
GW1N_DEVICES = [("GW1N-9C", "GW1N-LV9QN48C6/I5"), ("GW1N-1", "GW1N-LV1QN48C6/I5"), ("GW1NR-9", "GW1NR-LV9QN88PC6/I5"),
                ("GW1NS-4C", "GW1NSR-LV4CQN48PC7/I6"), ("GW1N-1S", "GW1N-1S-CS30C6/I5"), ("GW1NS-4", "GW1NS-LV4CQN48C5/I4")]
GW2A_DEVICES = [("GW2A-18C", "GW2A-LV18PG256C8/I7"), ("GW2AR-18C", "GW2AR-LV18QN88C8/I7")]
GW5A_DEVICES = [("GW5A-25A", "GW5A-LV25MG121NES"), ("GW5AT-60", "GW5AT-LV60PG484AC1/I0")]


def helper_kwargs(name, rng):
    if name in ("S6PLL", "S6DCM", "S7PLL", "S7MMCM", "USPLL", "USMMCM", "USPPLL", "USPMMCM"):
        return {"speedgrade": rng.choice([-1, -2, -3])}
    if name == "CycloneIVPLL":
        return {"speedgrade": rng.choice(["-6", "-7", "-8", "-8L", "-9L"])}
    if name == "CycloneVPLL":
        return {"speedgrade": rng.choice(["-C6", "-C7", "-I7", "-C8", "-A7"])}
    if name == "Cyclone10LPPLL":
        return {"speedgrade": rng.choice(["-C6", "-C8", "-I7", "-A7", "-I8"])}
    if name == "Max10PLL":
        return {"speedgrade": rng.choice(["-6", "-7", "-8"])}
    if name == "iCE40PLL":
        return {"primitive": rng.choice(["SB_PLL40_CORE", "SB_PLL40_PAD"])}
    if name == "GW1NPLL":
        d = rng.choice(GW1N_DEVICES)
        return {"devicename": d[0], "device": d[1], "vco_margin": rng.choice([0, 0, 0.05])}
    if name == "GW2APLL":
        d = rng.choice(GW2A_DEVICES)
        return {"devicename": d[0], "device": d[1], "vco_margin": rng.choice([0, 0, 0.05])}
    if name == "GW5APLL":
        d = rng.choice(GW5A_DEVICES)
        return {"devicename": d[0], "device": d[1]}
    if name == "GateMatePLL":
        return {"perf_mode": rng.choice(["undefined", "lowpower", "economy", "speed"]), "low_jitter": rng.choice([0, 1]), "lock_req": rng.choice([0, 1])}
    return {}


class StubIfaceWriter:
    def __init__(self):
        self.blocks = []

    def get_block(self, name):
        for b in self.blocks:
            if b["name"] == name:
                return b
        return None


class StubToolchain:
    def __init__(self):
        self.ifacewriter = StubIfaceWriter()
        self.excluded_ios = []
        self.additional_sdc_commands = []


class StubEfinixPlatform:
    """What EFINIXPLL touches of EfinixPlatform (the real one needs the vendor tool's device database)."""
    family = "Trion"
    device = "T120F324"

    def __init__(self):
        from migen import Signal
        self._Signal = Signal
        self.toolchain = StubToolchain()
        self.clks = {}
        self.pll_available = ["PLL_TL0", "PLL_TR0", "PLL_BL0", "PLL_BR0"]
        self.pll_used = []
        self._ext = {}

    def add_iface_io(self, name, size=1):
        return self._Signal(size, name=name)

    def get_pin_name(self, sig):
        return getattr(sig, "name_override", "clkin")

    def get_pin_location(self, sig):
        return None

    def get_free_pll_resource(self):
        p = self.pll_available.pop(0)
        self.pll_used.append(p)
        return p

    def add_extension(self, io):
        for r in io:
            self._ext[r[0]] = r

    def request(self, name, number=None):
        return self._Signal(name=name)


def make_helper(name, kwargs):
    cls = mon.HELPERS[name]
    if name == "TRIONPLL":
        return cls(StubEfinixPlatform())
    return cls(**kwargs)


# ------------------------------------------------------------------------------------------------
# request generation
# ------------------------------------------------------------------------------------------------

def loguniform(rng, lo, hi):
    return math.exp(rng.uniform(math.log(lo), math.log(hi)))


def clkin_range(name, pll):
    r = getattr(pll, "clkin_freq_range", None) or getattr(pll, "clki_freq_range", None)
    if r is None:
        r = (3e6, 500e6) if name.startswith("GW") else (10e6, 800e6)
    lo, hi = r
    if name == "iCE40PLL":
        hi = min(hi, 275e6)            # the declared upper bound (133e9) is far beyond anything a VCO window can use; sampled separately
    return lo, hi


def gen_clkin(col, name, pll, rng):
    lo, hi = clkin_range(name, pll)
    r = rng.random()
    declared = getattr(pll, "clkin_freq_range", None) or getattr(pll, "clki_freq_range", None)
    if r < 0.12 and declared:
        col.cov("boundary_kinds", "clkin:declared-min")
        return float(declared[0])
    if r < 0.22 and declared:
        col.cov("boundary_kinds", "clkin:declared-max")
        return float(declared[1]) if name != "iCE40PLL" or rng.random() < 0.3 else 133e6
    if r < 0.75:
        c = [f for f in COMMON_IN if lo <= f <= hi]
        if c:
            return rng.choice(c)
    f = loguniform(rng, lo, hi)
    return float(round(f, rng.choice([-6, -5, -3, 0])) or f) if rng.random() < 0.7 else f


def random_setting(rng, desc, tries=60):
    """A random legal divider setting of the generic model (used to derive achievable requests)."""
    if "n" not in desc:
        return None
    ns = model.spec_values(desc["n"])
    for _ in range(tries):
        N = rng.choice(ns[:max(1, len(ns)//3)] if rng.random() < 0.7 else ns)
        if not model.strictly_in_window(desc["clkin"]/N, desc.get("pfd")):
            continue
        lo, hi = desc["vco"]
        ms = [m for m in model.spec_near(rng.uniform(lo, hi)*N/desc["clkin"], desc["m"])]
        ms = [m for m in ms if model.strictly_in_window(desc["clkin"]*m/N, desc["vco"])]
        if ms:
            M = rng.choice(ms)
            return N, M, desc["clkin"]*M/N
    return None


def gen_request(col, name, rng):
    """-> JSON request {helper, kwargs, clkin, outs: [{freq, phase, margin}], extra}"""
    kwargs = helper_kwargs(name, rng)
    probe = make_helper(name, kwargs)
    if name == "GateMatePLL":
        return gen_gatemate(col, kwargs, rng)
    if name == "TRIONPLL":
        return gen_trion(col, rng)
    clkin = gen_clkin(col, name, probe, rng)
    want_typical = rng.random() < 0.2
    if want_typical:
        lo_, hi_ = clkin_range(name, probe)
        c_ = [f for f in (12e6, 24e6, 25e6, 27e6, 48e6, 50e6, 100e6, 125e6, 200e6) if lo_ <= f <= hi_]
        if c_:
            clkin = rng.choice(c_)
    nmax = probe.nclkouts_max
    k = rng.choice([1, 1, 2, 2, 3, nmax, rng.randint(1, nmax)])
    if want_typical:
        k = rng.choice([1, 2, 2, 3, nmax, nmax])           # boards commonly use every output of the primitive
    if name in ("GW1NPLL", "GW2APLL"):
        k = rng.choices([1, 2, 3, 4], [5, 4, 2, 1])[0]      # rPLL has four pins with fixed ratios: most larger sets are unachievable
    k = max(1, min(k, nmax))
    if k == nmax:
        col.cov("boundary_kinds", "outputs:max")
    probe.clkin_freq = clkin
    fam = mon.family(probe)
    desc = mon.describe(probe, nouts=k) if fam not in ("GW1NPLL",) else None
    weights = [5, 3, 2, 1, 0]
    if fam == "GW1NPLL":
        weights = [8, 1, 1, 0, 0]
    if name == "USPMMCM":
        weights = [12, 1, 1, 1, 0]          # every refusal of this helper costs seconds (its scan rebuilds 1000-entry lists): keep them rare
    # "typical": what user code usually asks for - related round frequencies, one margin (1e-2 default) for all outputs, few phases
    mode = rng.choices(["achievable", "round", "random", "vco-edge", "typical"], weights)[0]
    if want_typical and fam != "GW1NPLL":
        mode = "typical"
    elif mode == "typical":
        mode = "round"
    typical_margin = rng.choice([1e-2, 1e-2, 1e-2, 2e-2, 5e-3])
    setting = None
    if fam == "ECP5PLL":
        # pfd*P with P = clkfb_div * feedback divider
        for _ in range(40):
            ci = rng.randint(1, 8)
            pfd = clkin/ci
            if model.strictly_in_window(pfd, desc["pfd"]):
                P = rng.randint(max(1, math.ceil(desc["vco"][0]/pfd)), max(1, math.floor(desc["vco"][1]/pfd)))
                if model.strictly_in_window(pfd*P, desc["vco"]):
                    setting = (ci, P, pfd*P)
                    break
        ecp5_fb_out = rng.randrange(k) if (setting and k == nmax) else None     # no spare output: the loop closes through a user output
    elif fam == "GW1NPLL":
        d0 = mon.describe(probe)
        for _ in range(60):
            idiv, fdiv, odiv = rng.randint(1, 12), rng.randint(1, 63), rng.choice([2, 4, 8, 16, 32, 48, 64, 80, 96, 112, 128])
            base = clkin*fdiv/idiv
            if model.strictly_in_window(clkin/idiv, d0["pfd"]) and model.strictly_in_window(base*odiv, d0["vco"]):
                setting = (idiv, fdiv, base)
                break
    elif desc is not None:
        setting = random_setting(rng, desc)
    if setting is None and mode in ("achievable", "vco-edge"):
        mode = "round"
    if mode == "vco-edge" and fam in ("XilinxClocking", "IntelClocking", "NXPLL", "iCE40PLL", "GW5APLL"):
        # a request that is only achievable with the VCO exactly at (or just beyond) a declared limit
        lo, hi = desc["vco"]
        edge = rng.choice(["vco-min", "vco-max", "beyond-vco-max", "below-vco-min"])
        col.cov("boundary_kinds", "request:" + edge)
        vco = {"vco-min": lo, "vco-max": hi, "beyond-vco-max": hi*1.004, "below-vco-min": lo*0.996}[edge]
        setting = (None, None, vco)
        mode = "achievable"
    outs = []
    gw_roles = None
    base_phase = rng.choice([0, 0, 0, 90, 180])
    lo_out, hi_out = getattr(probe, "clko_freq_range", (3e6, 800e6))
    lo_out = max(lo_out, 1e6)
    for i in range(k):
        m = rng.choice(MARGINS)
        if mode == "achievable":
            vco = setting[2]
            if fam == "GW1NPLL":
                if i == 0:
                    gw_roles = rng.sample(["CLKOUT", "CLKOUTP", "CLKOUTD3", "CLKOUTD"], k) if rng.random() < 0.75 else None
                if gw_roles is not None:
                    role = gw_roles[i]
                    f = vco/{"CLKOUT": 1, "CLKOUTP": 1, "CLKOUTD3": 3, "CLKOUTD": rng.choice([2, 4, 6, 8, 10, 16, 64, 128])}[role]
                else:
                    f = vco/rng.choice([1, 1, 1, 3, 2, 4, 8, 10, 128] if i else [1])
            elif fam == "ECP5PLL":
                f = vco/rng.randint(1, 128)
                if i == ecp5_fb_out:
                    # the feedback output's divider must divide P = clkfb_div * divider
                    f = vco/rng.choice([d for d in range(1, 129) if setting[1] % d == 0 and setting[1]//d <= 128])
            else:
                ds = model.spec_values(desc["d"][i])
                ds = [d for d in ds if d > 0]
                f = vco/(rng.choice(ds[:max(1, len(ds)//4)]) if rng.random() < 0.6 else rng.choice(ds))
            q = rng.random()
            if q < 0.25:
                col.cov("boundary_kinds", "request:exact")
            elif q < 0.45 and m > 0:
                s = rng.choice([-1, 1])
                f = f/(1 + s*m*0.999)                  # the achievable value sits just inside the margin of the request
                col.cov("boundary_kinds", "request:just-inside-margin")
            elif q < 0.6 and m > 0:
                s = rng.choice([-1, 1])
                f = f/(1 + s*m*1.002)                  # ... just outside: must be met by another setting or refused
                col.cov("boundary_kinds", "request:just-outside-margin")
            elif m > 0:
                f = f/(1 + rng.uniform(-0.9, 0.9)*m)
        elif mode == "round":
            c = [x for x in COMMON_OUT if lo_out <= x <= hi_out]
            f = rng.choice(c)
        elif mode == "typical":
            c = [x for x in TYPICAL_OUT if lo_out <= x <= hi_out] or [x for x in COMMON_OUT if lo_out <= x <= hi_out]
            f = rng.choice(c)
            m = typical_margin
        else:
            f = loguniform(rng, max(lo_out, 2e6), min(hi_out, 900e6))
            if rng.random() < 0.5:
                f = float(round(f, -4))
        ph = rng.choice([0, 0, 0, 0, base_phase, 90, 180, 270, 45, 22.5, rng.randint(0, 359)])
        if mode == "typical" and rng.random() < 0.7:
            ph = 0
        if fam == "iCE40PLL" or (fam == "GW5APLL" and rng.random() < 0.7):
            ph = 0
        if fam == "GW1NPLL":
            if ph not in (0, base_phase):
                ph = base_phase
            if mode == "achievable" and gw_roles is not None:
                ph = (base_phase or 90) if (gw_roles[i] == "CLKOUTP" and rng.random() < 0.5) else 0
        if rng.random() < 0.08:
            decl = getattr(probe, "clko_freq_range", None)
            if decl and min(decl) > 0:
                f = float(rng.choice(decl))
                col.cov("boundary_kinds", "request:declared-output-limit")
        outs.append({"freq": float(f), "phase": ph, "margin": m})
        if m == 0:
            col.cov("boundary_kinds", "margin:zero")
        if m <= 1e-4:
            col.cov("boundary_kinds", "margin:tight")
    if fam == "GW1NPLL" and k > 1 and rng.random() < 0.5:
        rng.shuffle(outs)
        col.cov("boundary_kinds", "request:shuffled-order")
    if len(outs) >= 2 and fam != "GW1NPLL" and rng.random() < 0.2:
        # the same frequency asked for twice with different margins (e.g. a clock and its phase-shifted twin): each output has to
        # meet its OWN margin; the looser one comes first in half of the cases
        i, j = sorted(rng.sample(range(len(outs)), 2))
        outs[j]["freq"] = outs[i]["freq"]
        loose = max(outs[i]["margin"], outs[j]["margin"], 1e-3) * rng.choice([1, 3])
        tight = loose / rng.choice([5, 10, 30])
        outs[i]["margin"], outs[j]["margin"] = (loose, tight) if rng.random() < 0.5 else (tight, loose)
        if rng.random() < 0.5:
            # a frequency that the usual dividers only reach within the loose margin
            outs[i]["freq"] = outs[j]["freq"] = outs[i]["freq"] * (1 + rng.choice([-1, 1]) * loose * rng.uniform(0.3, 0.9))
        col.cov("boundary_kinds", "request:same-frequency-different-margins")
    extra = {}
    if fam == "ECP5PLL" and rng.random() < 0.15:
        extra["expose_dpa"] = True
        for o in outs:
            o["uses_dpa"] = rng.random() < 0.6
    return {"helper": name, "kwargs": kwargs, "clkin": clkin, "outs": outs, "mode": mode, "extra": extra}


def gen_gatemate(col, kwargs, rng):
    base = rng.choice([10e6, 25e6, 48e6, 100e6, 125e6, 200e6, 250e6])
    phases = rng.sample([0, 90, 180, 270], rng.randint(1, 4))
    outs = []
    for ph in phases:
        mult = 1
        if ph in (180, 270) and rng.random() < 0.4:
            mult = 2
        if rng.random() < 0.1:
            mult = rng.choice([2, 3, 0.5])
        outs.append({"freq": base*mult, "phase": ph, "margin": 0})
    return {"helper": "GateMatePLL", "kwargs": kwargs, "clkin": rng.choice([10e6, 25e6, 50e6]), "outs": outs, "mode": "gatemate", "extra": {}}


def gen_trion(col, rng):
    fin = rng.choice([10e6, 20e6, 25e6, 33e6, 40e6, 50e6, 74.25e6, 100e6])
    k = rng.randint(1, 3)
    mode = rng.choice(["achievable", "achievable", "round"])
    outs = []
    if mode == "achievable":
        N = rng.randint(1, 4)
        O = rng.choice([2, 4, 8] if k > 1 else [1, 2, 4, 8])
        cfb = rng.randint(1, 32)
        M = rng.randint(1, max(1, 255//(O*cfb)))
        fpll = fin/N*M*cfb
        for i in range(k):
            c = cfb if i == 0 else rng.randint(1, 64)
            outs.append({"freq": fpll/c, "phase": 0, "margin": 0})
    else:
        for i in range(k):
            outs.append({"freq": rng.choice([25e6, 50e6, 75e6, 100e6, 125e6, 200e6, 400e6]), "phase": rng.choice([0, 0, 90, 180]), "margin": 0})
    fb = rng.randrange(k) if mode == "round" else 0
    return {"helper": "TRIONPLL", "kwargs": {}, "clkin": fin, "outs": outs, "mode": mode, "extra": {"feedback": fb}}


# ------------------------------------------------------------------------------------------------
# running one request against the real helper
# ------------------------------------------------------------------------------------------------

def build_and_finalize(req):
    """Instantiate as the users of the helpers do, then finalize. Returns (helper, stage reached, exception or None)."""
    from migen import Signal, ClockDomain
    name = req["helper"]
    pll = make_helper(name, req["kwargs"])
    stage = "register_clkin"
    try:
        if name == "TRIONPLL":
            clkin = Signal(name="clkin")
            clkin.name_override = "clkin"
            pll.register_clkin(clkin, req["clkin"])
        else:
            pll.register_clkin(Signal(), req["clkin"])
        stage = "create_clkout"
        for i, o in enumerate(req["outs"]):
            cd = ClockDomain("cd%d" % i)
            if name == "iCE40PLL":
                pll.create_clkout(cd, o["freq"], margin=o["margin"])
            elif name == "GateMatePLL":
                pll.create_clkout(cd, o["freq"], phase=o["phase"])
            elif name == "TRIONPLL":
                pll.create_clkout(cd, o["freq"], phase=o["phase"], margin=o["margin"], is_feedback=(i == req["extra"].get("feedback", 0)))
            elif name == "ECP5PLL":
                pll.create_clkout(cd, o["freq"], phase=o["phase"], margin=o["margin"], uses_dpa=o.get("uses_dpa", True))
            else:
                pll.create_clkout(cd, o["freq"], phase=o["phase"], margin=o["margin"])
        if req["extra"].get("expose_dpa"):
            pll.expose_dpa()
        stage = "finalize"
        pll.finalize()
        stage = "done"
        return pll, stage, None
    except (mon.MonitorViolation, mon.MonitorError):
        raise
    except Exception as e:
        return pll, stage, e


def run_request(col, case, req):
    name = req["helper"]
    col.ev("requests")
    witcase = dict(case)
    witcase["request"] = req
    n_before = mon.EV.get("configs_computed", 0)
    try:
        pll, stage, exc = build_and_finalize(req)
    except mon.MonitorViolation:
        v = mon.VIOLATIONS[-1] if mon.VIOLATIONS else {"key": name.lower() + "/unclassified", "what": "contract failed", "witness": None}
        col.violation(v["key"], witcase, v["what"], {"request": req, "detail": v["witness"]})
        col.cov("helpers_with_config", name)
        col.case_done(case, True, digest=req, sample=None)
        return
    computed = mon.EV.get("configs_computed", 0) > n_before
    sample = None
    if exc is None:
        col.ev("configs_accepted")
        col.cov("helpers_with_config", name)
        last = mon.LAST.get("last")
        if name not in col.sampled and last is not None and last[1] is not None:
            col.sampled.add(name)
            desc, norm, _ = last
            sample = {"helper": name, "kwargs": req["kwargs"], "clkin": req["clkin"], "requested": req["outs"],
                      "returned_config": mon._cfg_view(mon.LAST.get("config")),
                      "recomputed_vco": norm.get("recomputed_vco"), "recomputed_outputs": norm.get("recomputed"), "outcome": "accepted"}
        col.case_done(case, True, digest=req, sample=sample)
        return
    # ---- a refusal
    kind = type(exc).__name__
    col.cov("refusal_kinds", "%s:%s:%s" % (name, stage, kind))
    if stage in ("register_clkin", "create_clkout"):
        col.ev("refused_at_registration")
        col.case_done(case, False, digest=req, sample=None)
        return
    if computed and name not in ("TRIONPLL",):
        # compute_config returned (and passed its contracts) but do_finalize raised afterwards
        col.violation("%s/finalize-crashed-after-config-found-%s" % (mon.hname(pll), kind), witcase,
                      "compute_config found a configuration, then do_finalize raised %s: %s" % (kind, str(exc)[:200]),
                      {"request": req, "config": mon._cfg_view(mon.LAST.get("config")) if mon.LAST.get("config") is not None else None})
        col.case_done(case, True, digest=req, sample=None)
        return
    col.ev("refusals")
    col.cov("helpers_with_refusal", name)
    sol, how = cross_check(col, name, pll, req)
    documented = kind == "ValueError" or (name == "TRIONPLL" and kind == "AssertionError")
    if how is None:
        col.ev("refusals_not_crosschecked")
        col.case_done(case, False, digest=req, sample=None)
        return
    col.ev("refusals_crosschecked")
    if sol is None:
        col.ev("refusals_confirmed_no_solution")
        if not documented:
            col.ev("refusals_by_crash_no_solution")
            col.cov("crash_refusals", "%s:%s" % (name, kind))
        if ("refused:" + name) not in col.sampled:
            col.sampled.add("refused:" + name)
            sample = {"helper": name, "kwargs": req["kwargs"], "clkin": req["clkin"], "requested": req["outs"],
                      "outcome": "refused: %s(%s)" % (kind, str(exc)[:60]), "independent_search": "no solution (%s)" % how}
        col.case_done(case, True, digest=req, sample=sample)
        return
    hn = mon.hname(pll)
    key = "%s/refused-but-solution-exists" % hn if documented else "%s/crashed-%s-but-solution-exists" % (hn, kind)
    if how == "reordered":
        key = "%s/refused-but-stricter-reordered-request-accepted" % hn
    elif hn.startswith(("gw1n", "gw2a")) and documented and "No PLL config" in str(exc):
        # the listed GW1NPLL/GW2APLL refusal defect shows in the final per-output test ("Can't obtain requested frequency": margin
        # tested against the obtained frequency, secondary dividers by floor division); a search that collects no candidate at
        # all although one exists is another mechanism
        key = "%s/no-candidate-collected-but-solution-exists" % hn
    col.violation(key, witcase, "helper raised %s(%s) although a setting inside the declared ranges meets the request (%s)"
                  % (kind, str(exc)[:80], how), {"request": req, "solution": sol, "found_by": how})
    col.case_done(case, True, digest=req, sample=None)


def cross_check(col, name, pll, req):
    """Independent existence search for a refused request. -> (solution or None, method or None)"""
    fam = mon.family(pll)
    if fam == "GateMatePLL":
        f = {o["phase"]: o["freq"] for o in req["outs"]}
        base = min(f.values())
        ok = all((fr == base) if ph in (0, 90) else (fr in (base, 2*base)) for ph, fr in f.items()) and len(f) == len(req["outs"]) \
            and max(f.values()) <= pll._max_freq
        return ({"OUT_CLK": base} if ok else None), "rule"
    if fam == "EFINIXPLL":
        return mon.efinix_solve(pll), "exact-search"
    desc = mon.describe(pll)
    if any(m <= 0 for f, p, m in desc["outs"]):
        return None, None                                # zero margin: exact float equality, not cross-checked (ASSUMPTIONS)
    if fam == "GW5APLL" and any(p != 0 for f, p, m in desc["outs"]):
        return None, None                                # this helper also refuses on phase resolution, which the search does not model
    if fam == "ECP5PLL":
        sol = model.ecp5_solve(desc)
        if sol is not None:
            pr = model.ecp5_check(desc, sol["clki_div"], sol["clkfb_div"], sol["D"], sol["fb"])
            if pr:
                raise mon.MonitorError("model self-check failed: %r" % (pr,))
        return sol, "brute-force"
    if fam == "GW1NPLL":
        if len(desc["outs"]) == 1:
            return mon.gowin_solve_single(desc), "brute-force"
        if all(p == 0 for f, p, m in desc["outs"]):
            return mon.gowin_solve_multi(desc), "brute-force"
        # several outputs: the same frequencies in descending order, every margin tightened to the smallest one (a STRICTER request),
        # fresh helper, contracts on: if that is accepted, a setting for the original request exists
        req2 = dict(req)
        mmin = min(o["margin"] for o in req["outs"])
        req2["outs"] = [dict(o, margin=mmin) for o in sorted(req["outs"], key=lambda o: -o["freq"])]
        if req2["outs"] == req["outs"]:
            return None, None
        n0 = len(mon.VIOLATIONS)
        try:
            pll2, stage2, exc2 = build_and_finalize(req2)
        except mon.MonitorViolation:
            del mon.VIOLATIONS[n0:]
            return None, None
        if exc2 is None:
            return {"accepted_stricter_request": req2["outs"], "config": mon._cfg_view(mon.LAST.get("config"))}, "reordered"
        return None, None
    sol = model.generic_solve(desc)
    if sol is not None and sol.get("gave_up"):
        return None, None
    if sol is not None:
        pr = model.generic_check(desc, sol["N"], sol["M"], sol["D"])
        if pr:
            raise mon.MonitorError("model self-check failed: %r" % (pr,))
    return sol, "brute-force"


# ------------------------------------------------------------------------------------------------
# the repository's own test with the contracts on
# ------------------------------------------------------------------------------------------------

def run_test_clock(col, case):
    import unittest
    import importlib.util
    path = os.path.join(env.LITEX_ROOT, "test", "test_clock.py")
    spec = importlib.util.spec_from_file_location("verif_test_clock", path)
    mod = importlib.util.module_from_spec(spec)
    spec.loader.exec_module(mod)
    before = dict(mon.EV)
    suite = unittest.defaultTestLoader.loadTestsFromModule(mod)
    res = unittest.TextTestRunner(stream=io.StringIO(), verbosity=0).run(suite)
    col.ev("test_clock_tests_run", res.testsRun)
    n = sum(v - before.get(k, 0) for k, v in mon.EV.items() if k.startswith("contract_"))
    col.ev("test_clock_contract_evaluations", n)
    col.ev("test_clock_failures", len(res.failures) + len(res.errors))
    for v in mon.VIOLATIONS:
        col.violation(v["key"], case, "in test/test_clock.py: " + str(v["what"]), {"detail": v["witness"]})
    for t, tb in res.failures + res.errors:
        if "MonitorViolation" in tb or "ConfigMissesRequest" in tb or "ConfigOutsideDeclaredRanges" in tb or "InstanceDiffersFromConfig" in tb:
            continue
        if "MonitorError" in tb:
            col.inconc(case, "monitor error inside test_clock: " + tb[-1200:])
        else:
            col.cov("test_clock_own_failures", str(t))
    col.case_done(case, True, sample={"helper": "test/test_clock.py", "tests_run": res.testsRun, "contract_evaluations": n,
                                      "failures": [str(t) for t, _ in res.failures + res.errors]})
