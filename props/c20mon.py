"""C20 monitors: icontract post-conditions put IN PLACE (class attribute patched from the harness) on every
clocking helper's compute_config and do_finalize.

  compute_config : (1) every requested output, recomputed from the returned multipliers/dividers with the
                       device formula, is within its stated margin;
                   (2) every divider / multiplier / PFD / VCO lies inside the ranges the class declares.
  do_finalize    : (3) the parameters on the emitted primitive Instance, put through the device formula,
                       realise the request and equal the computed configuration; every requested clock
                       signal is wired to the output whose divider was computed for it.

The arithmetic is lib/models/pll.py (no LiteX code). Conditions are named functions, errors explicit,
evaluations counted in EV; a failing condition appends its mechanism to VIOLATIONS.
Because the classes are patched in place, the repository's own test/test_clock.py runs with the contracts on.
"""
import functools
import traceback

import icontract

from lib.models import pll as model

EV = {}
VIOLATIONS = []          # every failed condition of the current case (dicts: key, what, witness)
LAST = {}                # id(helper) -> last judged configuration (description, normalised config)
HELPERS = {}             # name -> class, filled by install()


def _ev(name, n=1):
    EV[name] = EV.get(name, 0) + n


class MonitorViolation(Exception):
    pass


class MonitorError(Exception):
    pass


class ConfigMissesRequest(MonitorViolation): pass
class ConfigOutsideDeclaredRanges(MonitorViolation): pass
class InstanceDiffersFromConfig(MonitorViolation): pass


def guard(fn):
    @functools.wraps(fn)
    def g(*a, **k):
        try:
            return fn(*a, **k)
        except Exception as e:
            raise MonitorError("%s: %s" % (fn.__name__, traceback.format_exc()[-1800:])) from e
    return g


def hname(pll):
    n = type(pll).__name__
    if n == "GW2APLL":
        n = "GW1NPLL"          # same code (GW2APLL only overrides the VCO/PFD tables): one mechanism key per defect
    return n.lower()


def _fail(pll, mech, what, **witness):
    VIOLATIONS.append({"key": "%s/%s" % (hname(pll), mech), "what": what, "witness": witness})
    return False


def reset_case():
    del VIOLATIONS[:]
    LAST.clear()


# ------------------------------------------------------------------------------------------------
# description of a helper as plain data (declared ranges are READ from the class, not copied here)
# ------------------------------------------------------------------------------------------------

def rspec(t, plus=0):
    """(lo, hi[, step]) of a helper -> set-spec of the model; `plus` shifts register encodings (DIVR -> DIVR+1)."""
    t = tuple(t)
    step = t[2] if len(t) > 2 else 1
    return [("range", t[0] + plus, t[1] + plus, step)]


def family(pll):
    for cls in type(pll).__mro__:
        n = cls.__name__
        if n in ("XilinxClocking", "IntelClocking", "ECP5PLL", "iCE40PLL", "NXPLL", "GW1NPLL", "GW5APLL", "EFINIXPLL", "GateMatePLL"):
            return n
    return None


def requested(pll):
    fam = family(pll)
    if fam == "ECP5PLL":
        return [(f, p, m) for n, (clk, f, p, m, dpa) in sorted(pll.clkouts.items()) if f > 0]
    return [(f, p, m) for n, (clk, f, p, m) in sorted(pll.clkouts.items())]


def xilinx_output_spec(pll, n):
    own = "compute_config" in type(pll).__dict__
    if own and n == 0:
        return [("range", 2, 128.125, 0.125)]
    spec = rspec(pll.clkout_divide_range)
    extra = getattr(pll, "clkout%d_divide_range" % n, None)
    if extra is not None:
        spec = spec + rspec(extra)
    return spec


def describe(pll, nouts=None):
    fam = family(pll)
    outs = requested(pll) if fam not in ("EFINIXPLL", "GateMatePLL") else []
    k = len(outs) if nouts is None else nouts
    d = {"family": fam, "helper": type(pll).__name__, "clkin": getattr(pll, "clkin_freq", None), "outs": outs}
    if fam == "XilinxClocking":
        vm = pll.vco_margin
        lo, hi = pll.vco_freq_range
        d["vco"] = (lo*(1 + vm), hi*(1 - vm))
        d["n"] = rspec(pll.divclk_divide_range)
        own = "compute_config" in type(pll).__dict__          # USPMMCM brings its own search with ranges written in the code
        if own:
            # "CLKFBOUT_MULT_F: 2.0 to 128.0 with step 0.125", "CLKOUT[0]_DIVIDE_F also has range 2.0 to 128.0 with step 0.125"
            d["m"] = [("range", 2, 128.125, 0.125)]
        else:
            d["m"] = rspec(pll.clkfbout_mult_frange)
        d["d"] = [xilinx_output_spec(pll, n) for n in range(k)]
        d["pfd"] = None
    elif fam == "IntelClocking":
        vm = pll.vco_margin
        lo, hi = pll.vco_freq_range
        d["vco"] = (lo*(1 + vm), hi*(1 - vm))
        d["n"] = rspec(pll.n_div_range)
        d["m"] = rspec(pll.m_div_range)
        d["d"] = [rspec(pll.c_div_range) for _ in range(k)]
        d["pfd"] = tuple(pll.clkin_pfd_freq_range)
    elif fam == "NXPLL":
        d["vco"] = tuple(pll.vco_out_freq_range)
        d["pfd"] = tuple(pll.vco_in_freq_range)
        d["n"] = rspec(pll.clki_div_range)
        d["m"] = rspec(pll.clkfb_div_range)
        d["d"] = [rspec(pll.clko_div_range) for _ in range(k)]
    elif fam == "iCE40PLL":
        d["vco"] = tuple(pll.vco_freq_range)
        d["pfd"] = None
        d["n"] = rspec(pll.divr_range, plus=1)
        d["m"] = rspec(pll.divf_range, plus=1)
        d["d"] = [[("list", [2**q for q in range(*pll.divq_range)])] for _ in range(k)]
    elif fam == "ECP5PLL":
        d["vco"] = tuple(pll.vco_freq_range)
        d["pfd"] = tuple(pll.pfd_freq_range)
        d["clki_div"] = rspec(pll.clki_div_range)
        d["clkfb_div"] = rspec(pll.clkfb_div_range)
        d["clko_div"] = rspec(pll.clko_div_range)
        d["nclkouts_max"] = pll.nclkouts_max
        d["dpa_blocked"] = [bool(dpa and pll.dpa_en) for n, (clk, f, p, m, dpa) in sorted(pll.clkouts.items()) if f > 0]
    elif fam == "GW1NPLL":
        vm = pll.vco_margin
        lo, hi = pll.vco_freq_range
        d["vco"] = (lo*(1 + vm), hi*(1 - vm))
        d["pfd"] = tuple(pll.pfd_freq_range)
        # no range attributes on this class: the sets its search scans are taken as the declaration
        d["idiv"] = [("range", 1, 64, 1)]
        d["fdiv"] = [("range", 1, 64, 1)]
        d["odiv"] = [("list", [2, 4, 8, 16, 32, 48, 64, 80, 96, 112, 128])]
        d["sdiv"] = [("range", 2, 130, 2)]
    elif fam == "GW5APLL":
        vm = pll.vco_margin
        lo, hi = pll.vco_freq_range
        d["vco"] = (lo*(1 + vm), hi*(1 - vm))
        d["pfd"] = tuple(pll.pfd_freq_range)
        d["n"] = [("range", 1, 64, 1)]                                    # "Static IDIV value (1-64)", scanned 1..63
        d["m"] = [("list", sorted({f*m for f in range(1, 64) for m in range(2, 128)}))]   # FBDIV (1-64) x MDIV (2-128), as scanned
        d["d"] = [[("range", 1, 129, 1)] for _ in range(k)]                 # "Static ODIV value (1-128)"
    return d


# ------------------------------------------------------------------------------------------------
# normalising a returned configuration -> divider tuple of the model
# ------------------------------------------------------------------------------------------------

def normalise(pll, cfg, desc):
    """-> dict(N, M, D) (generic) or the ECP5/Gowin tuples; raises KeyError if the dict lacks a documented key."""
    fam = desc["family"]
    k = len(desc["outs"])
    if fam == "XilinxClocking":
        return {"N": cfg["divclk_divide"], "M": cfg["clkfbout_mult"], "D": [cfg["clkout%d_divide" % n] for n in range(k)],
                "vco": cfg["vco"], "freqs": [cfg["clkout%d_freq" % n] for n in range(k)], "phases": [cfg["clkout%d_phase" % n] for n in range(k)]}
    if fam == "IntelClocking":
        N = round(desc["clkin"]*cfg["m"]/cfg["vco"])
        return {"N": N, "M": cfg["m"], "D": [cfg["clk%d_divide" % n]/N for n in range(k)], "vco": cfg["vco"],
                "freqs": [cfg["clk%d_freq" % n] for n in range(k)], "phases": [cfg["clk%d_phase" % n] for n in range(k)],
                "divide_by": [cfg["clk%d_divide" % n] for n in range(k)]}
    if fam == "NXPLL":
        return {"N": cfg["clki_div"], "M": cfg["clkfb_div"], "D": [cfg["clko%d_div" % n] for n in range(k)], "vco": cfg["vco"],
                "freqs": [cfg["clko%d_freq" % n] for n in range(k)], "phases": [cfg["clko%d_phase" % n] for n in range(k)]}
    if fam == "iCE40PLL":
        return {"N": cfg["divr"] + 1, "M": cfg["divf"] + 1, "D": [2**cfg["divq"]]*k, "vco": cfg["vco"], "freqs": [cfg["clkout_freq"]]*k,
                "phases": [0]*k}
    if fam == "GW5APLL":
        return {"N": cfg["idiv"], "M": cfg["fdiv"]*cfg["mdiv"], "D": [cfg["odiv%d" % n] for n in range(k)], "vco": cfg["vco"],
                "freqs": None, "phases": None}
    if fam == "ECP5PLL":
        D = []
        n = 0
        while ("clko%d_div" % n) in cfg and n < 8:
            D.append(cfg["clko%d_div" % n])
            n += 1
        return {"clki_div": cfg["clki_div"], "clkfb_div": cfg["clkfb_div"], "D": D, "fb": cfg["clkfb"], "vco": cfg["vco"],
                "freqs": [cfg["clko%d_freq" % n] for n in range(k)], "phases": [cfg["clko%d_phase" % n] for n in range(k)]}
    raise KeyError(fam)


MARGIN_MECH = ("output-outside-margin", "vco-inconsistent-with-feedback-divider", "feedback-only-divider-truncated", "config-frequency-field-wrong", "config-phase-changed",
               "clkout-not-assigned", "config-incomplete")


def judge_config(pll, cfg):
    """All problems of a configuration returned by compute_config: list of (mechanism, text, info). Cached per call."""
    key = (id(pll), id(cfg))
    hit = LAST.get(key)
    if hit is not None:
        return hit
    desc = describe(pll)
    fam = desc["family"]
    pr = []
    norm = None
    try:
        if fam == "GW1NPLL":
            norm, pr = gowin_judge(pll, cfg, desc)
        else:
            norm = normalise(pll, cfg, desc)
            if fam == "ECP5PLL":
                pr = model.ecp5_check(desc, norm["clki_div"], norm["clkfb_div"], norm["D"], norm["fb"], claimed_vco=norm["vco"])
                _, vco, outs = model.ecp5_freqs(desc, norm["clki_div"], norm["clkfb_div"], norm["D"], norm["fb"]) \
                    if (norm["fb"] is not None and all(d > 0 for d in norm["D"])) else (0, 0, [])
            else:
                pr = model.generic_check(desc, norm["N"], norm["M"], norm["D"])
                _, vco, outs = model.generic_freqs(desc, norm["N"], norm["M"], norm["D"])
                if abs(vco - norm["vco"]) > 1e-6*vco:
                    pr.append(("config-frequency-field-wrong", "config['vco']=%.9g but dividers give %.9g" % (norm["vco"], vco), {}))
            if fam == "ECP5PLL" and norm["fb"] is not None and norm["fb"] >= len(desc["outs"]):
                # the divider of a feedback-only output is derived with int(float): name that mechanism precisely
                pr = [(("feedback-only-divider-truncated", t + " (feedback-only output: divider = int(vco*clki_div/(clkin*clkfb_div)))", i)
                       if (m == "vco-inconsistent-with-feedback-divider" or (m == "output-divider-out-of-range" and i.get("output") == norm["fb"]))
                       else (m, t, i)) for m, t, i in pr]
            norm["recomputed"] = list(outs)
            norm["recomputed_vco"] = vco
            if norm.get("freqs"):
                for i, (a, b) in enumerate(zip(norm["freqs"], outs)):
                    if abs(a - b) > 1e-6*b:
                        pr.append(("config-frequency-field-wrong", "config frequency of output %d is %.9g, dividers give %.9g" % (i, a, b), {"output": i}))
            if norm.get("phases"):
                for i, (a, (f, p, m)) in enumerate(zip(norm["phases"], desc["outs"])):
                    if a != p:
                        pr.append(("config-phase-changed", "output %d requested phase %r, config says %r" % (i, p, a), {"output": i}))
    except KeyError as e:
        pr = [("config-incomplete", "returned configuration lacks %s" % (e,), {"config_keys": sorted(map(str, cfg)) if isinstance(cfg, dict) else None})]
    res = (desc, norm, pr)
    LAST.clear()
    LAST[key] = res
    LAST["last"] = res
    LAST["owner"] = id(pll)
    LAST["config"] = cfg
    return res


def _cfg_view(cfg):
    return {str(k): (v if isinstance(v, (int, float, str, type(None))) else str(type(v).__name__)) for k, v in cfg.items()} \
        if isinstance(cfg, dict) else repr(cfg)


@guard
def config_meets_request(self, result):
    """(1) every requested output recomputed from the returned multipliers/dividers is within its stated margin."""
    _ev("contract_config_meets_request")
    _ev("configs_computed")
    if family(self) == "EFINIXPLL":
        return efinix_judge(self, "margin")
    desc, norm, pr = judge_config(self, result)
    for mech, text, info in pr:
        if mech in MARGIN_MECH:
            return _fail(self, mech, text, request=desc_view(desc), config=_cfg_view(result), recomputed=(norm or {}).get("recomputed"), info=info)
    return True


@guard
def config_inside_declared_ranges(self, result):
    """(2) every divider / multiplier / PFD / VCO lies inside the ranges the class declares."""
    _ev("contract_config_inside_declared_ranges")
    if family(self) == "EFINIXPLL":
        return efinix_judge(self, "range")
    desc, norm, pr = judge_config(self, result)
    for mech, text, info in pr:
        if mech not in MARGIN_MECH:
            return _fail(self, mech, text, request=desc_view(desc), config=_cfg_view(result), info=info,
                         declared={k: desc.get(k) for k in ("n", "m", "pfd", "vco", "clki_div", "clkfb_div", "clko_div", "idiv", "fdiv", "odiv")
                                   if desc.get(k) is not None and len(str(desc.get(k))) < 300})
    return True


def desc_view(desc):
    return {"helper": desc["helper"], "clkin": desc["clkin"], "outputs": [{"freq": f, "phase": p, "margin": m} for f, p, m in desc["outs"]],
            "vco_range": desc.get("vco"), "pfd_range": desc.get("pfd")}


# ------------------------------------------------------------------------------------------------
# Gowin GW1N / GW2A (rPLL / PLLVR): CLKOUT = clkin*FBDIV/IDIV, VCO = CLKOUT*ODIV, CLKOUTD = CLKOUT/SDIV, CLKOUTD3 = CLKOUT/3
# ------------------------------------------------------------------------------------------------

def gowin_judge(pll, cfg, desc):
    pr = []
    idiv, fdiv, odiv = cfg["idiv"], cfg["fdiv"], cfg["odiv"]
    sdiv = cfg["SDIV_SEL"]
    clkin = desc["clkin"]
    base = clkin*fdiv/idiv
    vco = base*odiv
    pfd = clkin/idiv
    norm = {"idiv": idiv, "fdiv": fdiv, "odiv": odiv, "sdiv": sdiv, "base": base, "recomputed_vco": vco, "recomputed": []}
    if not model.in_spec(idiv, desc["idiv"]):
        pr.append(("input-divider-out-of-range", "IDIV %r out of range" % idiv, {}))
    if not model.in_spec(fdiv, desc["fdiv"]):
        pr.append(("multiplier-out-of-range", "FBDIV %r out of range" % fdiv, {}))
    if not model.in_spec(odiv, desc["odiv"]):
        pr.append(("vco-divider-out-of-range", "ODIV %r not a legal value" % odiv, {}))
    if not model.in_window(pfd, desc["pfd"]):
        pr.append(("pfd-out-of-range", "PFD %.6g outside %r" % (pfd, desc["pfd"]), {}))
    if not model.in_window(vco, desc["vco"]):
        pr.append(("vco-out-of-range", "VCO %.6g outside %r" % (vco, desc["vco"]), {}))
    if abs(vco - cfg["vco"]) > 1e-6*vco:
        pr.append(("config-frequency-field-wrong", "config['vco']=%.9g, dividers give %.9g" % (cfg["vco"], vco), {}))
    ports = {"CLKOUT": base, "CLKOUTP": base, "CLKOUTD": base/sdiv if sdiv else None, "CLKOUTD3": base/3}
    uses_d = False
    for n, (clk, f, p, m) in sorted(pll.clkouts.items()):
        port = [k for k in ports if cfg.get(k) is clk]
        if not port:
            pr.append(("clkout-not-assigned", "requested output %d (%.9g Hz) is assigned to no PLL output (another request took its pin)" % (n, f),
                       {"output": n}))
            norm["recomputed"].append(None)
            continue
        fo = ports[port[0]]
        uses_d = uses_d or port[0] == "CLKOUTD"
        norm["recomputed"].append(fo)
        if fo is None or not model.within_margin(fo, f, m):
            pr.append(("output-outside-margin", "output %d on %s: requested %.9g Hz +-%g, configuration gives %.9g Hz" % (n, port[0], f, m, fo or 0),
                       {"output": n, "port": port[0], "requested": f, "recomputed": fo}))
    if uses_d and not model.in_spec(sdiv, desc["sdiv"]):
        pr.append(("output-divider-out-of-range", "SDIV %r is not an even value in 2..128" % (sdiv,), {}))
    return norm, pr


def gowin_solve_single(desc):
    """One requested output on CLKOUT: does any (IDIV, FBDIV, ODIV) of the scanned sets meet it?"""
    (f, p, m), = desc["outs"]
    clkin = desc["clkin"]
    for idiv in model.spec_values(desc["idiv"]):
        if not model.strictly_in_window(clkin/idiv, desc["pfd"]):
            continue
        x = f*idiv/clkin
        for fdiv in model.spec_near(x, desc["fdiv"]):
            base = clkin*fdiv/idiv
            if not model.strictly_within_margin(base, f, m):
                continue
            for odiv in model.spec_values(desc["odiv"]):
                if model.strictly_in_window(base*odiv, desc["vco"]):
                    return {"idiv": idiv, "fdiv": fdiv, "odiv": odiv, "clkout": base, "vco": base*odiv}
    return None


def gowin_solve_multi(desc):
    """Several requested outputs, all with phase 0: is there a base frequency (IDIV, FBDIV, ODIV of the scanned sets) and an
    injective assignment of the requests to the pins CLKOUT, CLKOUTP (same frequency), CLKOUTD3 (/3), CLKOUTD (/even 2..128)?"""
    import itertools
    outs = desc["outs"]
    if any(p != 0 for f, p, m in outs) or len(outs) > 4:
        return None
    clkin = desc["clkin"]
    odivs = model.spec_values(desc["odiv"])
    sdivs = model.spec_values(desc["sdiv"])
    for idiv in model.spec_values(desc["idiv"]):
        if not model.strictly_in_window(clkin/idiv, desc["pfd"]):
            continue
        for fdiv in model.spec_values(desc["fdiv"]):
            base = clkin*fdiv/idiv
            od = [o for o in odivs if model.strictly_in_window(base*o, desc["vco"])]
            if not od:
                continue
            feas = []
            for f, p, m in outs:
                pins = []
                if model.strictly_within_margin(base, f, m):
                    pins += [("CLKOUT", None), ("CLKOUTP", None)]
                if model.strictly_within_margin(base/3, f, m):
                    pins.append(("CLKOUTD3", None))
                for sd in model.spec_near(base/f, desc["sdiv"]):
                    if sd in sdivs and model.strictly_within_margin(base/sd, f, m):
                        pins.append(("CLKOUTD", sd))
                        break
                if not pins:
                    feas = None
                    break
                feas.append(pins)
            if feas is None:
                continue
            top = max(range(len(outs)), key=lambda i: outs[i][0])
            for combo in itertools.product(*feas):
                names = [c[0] for c in combo]
                # only settings of the shape the helper itself aims at: the fastest request sits on CLKOUT/CLKOUTP
                if len(set(names)) == len(names) and names[top] in ("CLKOUT", "CLKOUTP"):
                    return {"idiv": idiv, "fdiv": fdiv, "odiv": od[0], "clkout": base, "vco": base*od[0],
                            "pins": [{"pin": c[0], "sdiv": c[1]} for c in combo]}
    return None


# ------------------------------------------------------------------------------------------------
# Efinix Trion: the configuration lives in the interface-writer block
# ------------------------------------------------------------------------------------------------

def efinix_block(pll):
    return pll.platform.toolchain.ifacewriter.get_block(pll.name)


def efinix_judge(pll, what):
    blk = efinix_block(pll)
    if blk["feedback"] == -1 or "M" not in blk:
        return True                     # nothing computed (no feedback clock declared): the vendor tool decides
    fin = blk["input_freq"]
    M, N, O = blk["M"], blk["N"], blk["O"]
    cs = [blk["CLKOUT%d_DIV" % i] for i in range(len(blk["clk_out"]))]
    cfb = cs[blk["feedback"]]
    dev = pll.platform.device
    vco_r, pfd_r, pll_r = pll.get_vco_freq_range(dev), pll.get_pfd_freq_range(dev), pll.get_pll_freq_range(dev)
    pfd = fin/N
    vco = pfd*M*O*cfb
    fpll = vco/O
    wit = dict(input_freq=fin, M=M, N=N, O=O, C=cs, feedback=blk["feedback"], vco=vco, pfd=pfd, requested=[c[1] for c in blk["clk_out"]])
    if what == "margin":
        for i, c in enumerate(blk["clk_out"]):
            fo = fpll/cs[i]
            if not model.within_margin(fo, c[1], max(c[3], 0)):
                return _fail(pll, "output-outside-margin", "output %d requested %.9g Hz, block parameters give %.9g Hz" % (i, c[1], fo), **wit)
        if abs(blk["VCO_FREQ"] - vco) > 1e-6*vco:
            return _fail(pll, "config-frequency-field-wrong", "VCO_FREQ %.9g, parameters give %.9g" % (blk["VCO_FREQ"], vco), **wit)
        return True
    if not (1 <= N <= 15) or not (1 <= M <= 255) or O not in (1, 2, 4, 8) or M*O*cfb > 255:
        return _fail(pll, "divider-out-of-range", "M=%r N=%r O=%r Cfbk=%r outside 1..255 / 1..15 / {1,2,4,8} / M*O*C<=255" % (M, N, O, cfb), **wit)
    if any(not (1 <= c <= 256) for c in cs):
        return _fail(pll, "output-divider-out-of-range", "output dividers %r outside 1..256" % (cs,), **wit)
    if not model.in_window(pfd, pfd_r):
        return _fail(pll, "pfd-out-of-range", "PFD %.6g outside %r" % (pfd, pfd_r), **wit)
    if not model.in_window(vco, vco_r):
        return _fail(pll, "vco-out-of-range", "VCO %.6g outside %r" % (vco, vco_r), **wit)
    return True


def efinix_solve(pll):
    """Existence for the Trion search space (N 1..15, M 1..255, O, C 1..256, M*O*Cfbk <= 255), exact output frequencies."""
    from fractions import Fraction
    blk = efinix_block(pll)
    dev = pll.platform.device
    vco_r, pfd_r, pll_r = pll.get_vco_freq_range(dev), pll.get_pfd_freq_range(dev), pll.get_pll_freq_range(dev)
    fin = Fraction(blk["input_freq"])
    outs = [(Fraction(c[1]), c[2]) for c in blk["clk_out"]]
    fb = blk["feedback"]
    ffb, pfb = outs[fb]
    o_set = [2, 4, 8] if len(outs) > 1 else [1, 2, 4, 8]
    for N in range(1, 16):
        pfd = fin/N
        if not (pfd_r[0] <= pfd <= pfd_r[1]):
            continue
        Mq = ffb*N/fin                      # fVCO = fPFD*M*O*Cfbk and fFBK = fVCO/(O*Cfbk)  =>  M = fFBK*N/fIN
        if Mq.denominator != 1 or not (1 <= Mq <= 255):
            continue
        M = int(Mq)
        for cfb in pll.get_c_range(dev, pfb):
            if ffb*cfb < pll_r[0] or ffb > pll_r[1]:
                continue
            for O in o_set:
                vco = ffb*cfb*O
                if not (vco_r[0] <= vco <= vco_r[1]) or M*O*cfb > 255:
                    continue
                fpll = vco/O
                cs = []
                for i, (f, p) in enumerate(outs):
                    c = fpll/f
                    if c.denominator != 1 or int(c) not in pll.get_c_range(dev, p) or (i == fb and int(c) != cfb):
                        break
                    cs.append(int(c))
                if len(cs) == len(outs):
                    return {"N": N, "M": M, "O": O, "C": cs, "vco": float(vco)}
    return None


# ------------------------------------------------------------------------------------------------
# the emitted primitive
# ------------------------------------------------------------------------------------------------

PRIMITIVES = ("PLLE2_ADV", "MMCME2_ADV", "MMCME4_ADV", "PLL_ADV", "DCM_CLKGEN", "EHXPLLL", "SB_PLL40_CORE", "SB_PLL40_PAD", "PLL", "ALTPLL",
              "rPLL", "PLLVR", "PLLA", "CC_PLL")


def find_instance(pll):
    from migen.fhdl.specials import Instance
    out = [s for s in pll._fragment.specials if isinstance(s, Instance) and s.of in PRIMITIVES]
    return out


def inst_items(inst):
    from migen.fhdl.specials import Instance
    from migen.fhdl.structure import Constant
    par, outs = {}, {}
    for it in inst.items:
        if isinstance(it, Instance.Parameter):
            v = it.value
            par[it.name] = v.value if isinstance(v, Constant) else v
        elif isinstance(it, Instance.Output):
            outs[it.name] = it.expr
    return par, outs


def _num(v):
    if isinstance(v, str):
        return float(v) if ("." in v or "e" in v.lower()) else int(v)
    return v


@guard
def instance_realises_config(self):
    """(3) parameters on the emitted Instance == computed configuration, and through the device formula they meet the request."""
    _ev("contract_instance_realises_config")
    fam = family(self)
    if fam == "EFINIXPLL":
        return True                                   # no primitive is emitted by LiteX (interface designer block)
    insts = find_instance(self)
    if len(insts) != 1:
        return _fail(self, "no-single-primitive-emitted", "%d primitive instances after do_finalize" % len(insts))
    inst = insts[0]
    par, outs = inst_items(inst)
    # a) what the helper kept in self.params is what sits on the instance
    for k, v in getattr(self, "params", {}).items():
        if k.startswith("p_"):
            pv = par.get(k[2:], "<missing>")
            if pv != v and not (isinstance(v, float) and isinstance(pv, float) and abs(pv - v) < 1e-12):
                return _fail(self, "instance-parameter-differs-from-params", "Instance.%s=%r, helper.params[%s]=%r" % (k[2:], pv, k, v))
    if fam == "GateMatePLL":
        return gatemate_instance(self, par, outs)
    last = LAST.get("last") if LAST.get("owner") == id(self) else None
    if last is None:
        return _fail(self, "no-config-computed", "do_finalize emitted a primitive without calling compute_config")
    desc, norm, _ = last
    if norm is None:
        return True                                   # the configuration itself was already reported as incomplete
    clks = [c[0] for n, c in sorted(self.clkouts.items())]
    k = len(desc["outs"])
    wit = dict(request=desc_view(desc), primitive=inst.of, parameters={a: b for a, b in par.items() if isinstance(b, (int, float, str))})
    try:
        if fam == "XilinxClocking":
            if inst.of == "DCM_CLKGEN":
                N, M, D, wired = 1, par["CLKFX_MULTIPLY"], [par["CLKFX_DIVIDE"]], [outs.get("CLKFX")]
                cfgD = [norm["D"][0]*norm["N"]]
                cfgN = 1
                period = par["CLKIN_PERIOD"]
                ph = None
            else:
                M = par["CLKFBOUT_MULT_F"] if "CLKFBOUT_MULT_F" in par else par["CLKFBOUT_MULT"]
                N = par["DIVCLK_DIVIDE"]
                D = [par["CLKOUT%d_DIVIDE_F" % n] if ("CLKOUT%d_DIVIDE_F" % n) in par else par["CLKOUT%d_DIVIDE" % n] for n in range(k)]
                wired = [outs.get("CLKOUT%d" % n) for n in range(k)]
                cfgD, cfgN = norm["D"], norm["N"]
                period = par["CLKIN1_PERIOD"]
                ph = [par["CLKOUT%d_PHASE" % n] for n in range(k)]
            if abs(period - 1e9/desc["clkin"]) > 1e-9*period:
                return _fail(self, "instance-input-period-wrong", "input period %r ns for %r Hz" % (period, desc["clkin"]), **wit)
            if (N, M, list(D)) != (cfgN, norm["M"], list(cfgD)):
                return _fail(self, "instance-parameter-differs-from-config", "Instance has N=%r M=%r D=%r, configuration N=%r M=%r D=%r"
                             % (N, M, D, cfgN, norm["M"], cfgD), **wit)
            if ph is not None and [float(x) for x in ph] != [float(p) for f, p, m in desc["outs"]]:
                return _fail(self, "instance-phase-differs-from-request", "Instance phases %r, requested %r" % (ph, [p for f, p, m in desc["outs"]]), **wit)
            d2 = dict(desc)
            if inst.of == "DCM_CLKGEN":
                d2["n"] = [("list", [1])]
            pr = model.generic_check(d2, N, M, D)
        elif fam == "IntelClocking":
            M = [par["CLK%d_MULTIPLY_BY" % n] for n in range(k)]
            DB = [par["CLK%d_DIVIDE_BY" % n] for n in range(k)]
            if M != [norm["M"]]*k or DB != norm["divide_by"]:
                return _fail(self, "instance-parameter-differs-from-config", "Instance MULTIPLY_BY=%r DIVIDE_BY=%r, configuration m=%r divide=%r"
                             % (M, DB, norm["M"], norm["divide_by"]), **wit)
            if par["INCLK0_INPUT_FREQUENCY"] != int(1e12/desc["clkin"]):
                return _fail(self, "instance-input-period-wrong", "INCLK0_INPUT_FREQUENCY %r" % par["INCLK0_INPUT_FREQUENCY"], **wit)
            pr = []
            for n, (f, p, m) in enumerate(desc["outs"]):
                fo = desc["clkin"]*M[n]/DB[n]
                if not model.within_margin(fo, f, m):
                    pr.append(("output-outside-margin", "output %d: requested %.9g, ALTPLL parameters give %.9g" % (n, f, fo), {}))
                ps = par["CLK%d_PHASE_SHIFT" % n]
                exp = (1e12/fo)*p/360
                if abs(ps - exp) > 1.0 + 1e-9*exp:
                    pr.append(("instance-phase-differs-from-request", "output %d: phase shift %r ps, requested %r deg = %.1f ps" % (n, ps, p, exp), {}))
            clkbus = outs.get("CLK")
            wired = clks if clkbus is not None and len(clkbus) == self.nclkouts else [None]*k      # bits of the CLK bus are assigned in comb
        elif fam == "NXPLL":
            N = _num(par["REF_MMD_DIG"])
            M = _num(par["DIVF"]) + 1
            D = [_num(par["DIV%s" % chr(65 + n)]) + 1 for n in range(k)]
            wired = [outs.get("CLKO" + {0: "P", 1: "S", 2: "S2", 3: "S3", 4: "S4"}[n]) for n in range(k)]
            if (N, M, D) != (norm["N"], norm["M"], list(norm["D"])):
                mech = "input-divider-not-emitted" if (M, D) == (norm["M"], list(norm["D"])) else "instance-parameter-differs-from-config"
                return _fail(self, mech, "Instance has REF_MMD_DIG=%r DIVF+1=%r DIVx+1=%r, configuration clki_div=%r clkfb_div=%r clko_div=%r"
                             % (N, M, D, norm["N"], norm["M"], norm["D"]), **wit)
            pr = model.generic_check(desc, N, M, D)
        elif fam == "iCE40PLL":
            N, M, D = par["DIVR"] + 1, par["DIVF"] + 1, [2**par["DIVQ"]]*k
            wired = [outs.get("PLLOUTGLOBAL")]*k
            if (N, M, D) != (norm["N"], norm["M"], list(norm["D"])):
                return _fail(self, "instance-parameter-differs-from-config", "Instance DIVR/DIVF/DIVQ give N=%r M=%r D=%r, configuration N=%r M=%r D=%r"
                             % (N, M, D, norm["N"], norm["M"], norm["D"]), **wit)
            pr = model.generic_check(desc, N, M, D)
        elif fam == "GW5APLL":
            N, M = par["IDIV_SEL"], par["FBDIV_SEL"]*par["MDIV_SEL"]
            D = [par["ODIV%d_SEL" % n] for n in range(k)]
            wired = [outs.get("CLKOUT%d" % n) for n in range(k)]
            if (N, M, D) != (norm["N"], norm["M"], list(norm["D"])):
                return _fail(self, "instance-parameter-differs-from-config", "Instance N=%r M=%r D=%r, configuration N=%r M=%r D=%r"
                             % (N, M, D, norm["N"], norm["M"], norm["D"]), **wit)
            pr = model.generic_check(desc, N, M, D)
        elif fam == "ECP5PLL":
            letters = ["P", "S", "S2", "S3"]
            D = []
            for L in letters:
                if par.get("CLKO%s_ENABLE" % L) == "ENABLED":
                    D.append(par["CLKO%s_DIV" % L])
            fbp = par["FEEDBK_PATH"]
            fb = letters.index(fbp[len("INT_O"):]) if fbp.startswith("INT_O") else None
            if (par["CLKI_DIV"], par["CLKFB_DIV"], D, fb) != (norm["clki_div"], norm["clkfb_div"], list(norm["D"]), norm["fb"]):
                return _fail(self, "instance-parameter-differs-from-config", "Instance CLKI_DIV=%r CLKFB_DIV=%r DIV=%r feedback=%r, configuration %r %r %r %r"
                             % (par["CLKI_DIV"], par["CLKFB_DIV"], D, fb, norm["clki_div"], norm["clkfb_div"], norm["D"], norm["fb"]), **wit)
            pr = model.ecp5_check(desc, par["CLKI_DIV"], par["CLKFB_DIV"], D, fb)
            wired = [outs.get("CLKO" + letters[n]) for n in range(k)]
            for n, (f, p, m) in enumerate(desc["outs"]):
                L = letters[n]
                div = par["CLKO%s_DIV" % L]
                real = ((par["CLKO%s_CPHASE" % L] - (div - 1)) + par["CLKO%s_FPHASE" % L]/8)/div*360
                err = abs((real - p + 180) % 360 - 180)
                if err > 22.5/div + 1e-6:
                    pr.append(("instance-phase-differs-from-request", "output %d: CPHASE/FPHASE give %.3f deg, requested %r" % (n, real, p), {}))
        elif fam == "GW1NPLL":
            idiv, fdiv, odiv, sdiv = par["IDIV_SEL"] + 1, par["FBDIV_SEL"] + 1, par["ODIV_SEL"], par["DYN_SDIV_SEL"]
            if (idiv, fdiv, odiv, sdiv) != (norm["idiv"], norm["fdiv"], norm["odiv"], norm["sdiv"]):
                return _fail(self, "instance-parameter-differs-from-config", "Instance IDIV=%r FBDIV=%r ODIV=%r SDIV=%r, configuration %r %r %r %r"
                             % (idiv, fdiv, odiv, sdiv, norm["idiv"], norm["fdiv"], norm["odiv"], norm["sdiv"]), **wit)
            base = desc["clkin"]*fdiv/idiv
            ports = {"CLKOUT": base, "CLKOUTP": base, "CLKOUTD": base/sdiv if sdiv else None, "CLKOUTD3": base/3}
            pr = []
            for n, ((f, p, m), clk) in enumerate(zip(desc["outs"], clks)):
                port = [q for q in ports if outs.get(q) is clk]
                if not port:
                    pr.append(("clkout-not-connected", "requested output %d (%.9g Hz) is connected to no port of the primitive" % (n, f), {}))
                elif ports[port[0]] is None or not model.within_margin(ports[port[0]], f, m):
                    pr.append(("output-outside-margin", "output %d on %s gives %.9g, requested %.9g" % (n, port[0], ports[port[0]] or 0, f), {}))
            wired = clks
        else:
            return True
    except KeyError as e:
        return _fail(self, "instance-parameter-missing", "primitive %s lacks parameter %s" % (inst.of, e), **wit)
    for mech, text, info in pr:
        return _fail(self, "instance-" + mech if not mech.startswith("instance-") else mech, text, info=info, **wit)
    for n, (w, c) in enumerate(zip(wired, clks)):
        if w is not c:
            return _fail(self, "instance-output-wired-to-other-clock", "requested clock %d is not the signal on its primitive output" % n, **wit)
    return True


def gatemate_instance(pll, par, outs):
    """CC_PLL: the vendor tool derives the dividers from REF_CLK/OUT_CLK; LiteX must state them as requested."""
    req = {ph: (clk, f) for ph, (clk, f) in pll._clkouts.items() if f != 0}
    base = float(par["OUT_CLK"])*1e6
    if abs(float(par["REF_CLK"])*1e6 - pll._clkin_freq) > 1e-6*pll._clkin_freq:
        return _fail(pll, "instance-input-frequency-wrong", "REF_CLK %r for %r Hz" % (par["REF_CLK"], pll._clkin_freq))
    for ph, (clk, f) in req.items():
        mult = 2 if (ph in (180, 270) and par.get("CLK%d_DOUB" % ph) == 1) else 1
        if abs(base*mult - f) > 1e-6*f:
            return _fail(pll, "instance-output-outside-request", "CLK%d gives %.9g Hz, requested %.9g" % (ph, base*mult, f))
        if outs.get("CLK%d" % ph) is not clk:
            return _fail(pll, "instance-output-wired-to-other-clock", "CLK%d is not wired to the requested clock" % ph)
    return True


# ------------------------------------------------------------------------------------------------
# installation (in place)
# ------------------------------------------------------------------------------------------------

_installed = {}


def install():
    if _installed:
        return _installed
    import litex.soc.cores.clock as C
    from litex.soc.cores.clock import xilinx_common, intel_common
    from litex.soc.cores.clock.gowin_gw1n import GW1NPLL
    from litex.soc.cores.clock.gowin_gw2a import GW2APLL
    from litex.soc.cores.clock.gowin_gw5a import GW5APLL
    from litex.soc.cores.clock.colognechip import GateMatePLL
    from litex.soc.cores.clock.efinix import EFINIXPLL, TRIONPLL
    helpers = {n: getattr(C, n) for n in ("S6PLL", "S6DCM", "S7PLL", "S7MMCM", "USPLL", "USMMCM", "USPPLL", "USPMMCM", "ECP5PLL", "iCE40PLL", "NXPLL",
                                          "CycloneIVPLL", "CycloneVPLL", "Cyclone10LPPLL", "Max10PLL")}
    helpers.update(GW1NPLL=GW1NPLL, GW2APLL=GW2APLL, GW5APLL=GW5APLL, GateMatePLL=GateMatePLL, TRIONPLL=TRIONPLL)
    try:
        from litex.soc.cores.clock.intel_stratix5 import StratixVPLL
        helpers["StratixVPLL"] = StratixVPLL
    except Exception:
        pass
    bases = [xilinx_common.XilinxClocking, intel_common.IntelClocking, EFINIXPLL]
    wrapped_cc, wrapped_fin = [], []
    seen = set()
    for cls in list(helpers.values()) + bases:
        for k in cls.__mro__:
            if k in seen or k is object or not k.__module__.startswith("litex.soc.cores.clock"):
                continue
            seen.add(k)
            d = k.__dict__
            if "compute_config" in d and not getattr(d["compute_config"], "__verif__", False):
                f = d["compute_config"]
                f = icontract.ensure(config_inside_declared_ranges, error=ConfigOutsideDeclaredRanges)(f)
                f = icontract.ensure(config_meets_request, error=ConfigMissesRequest)(f)
                f.__verif__ = True
                setattr(k, "compute_config", f)
                wrapped_cc.append(k.__name__)
            # do_finalize of the classes that emit the primitive (the Xilinx base class only adds a reset delay)
            if "do_finalize" in d and k.__name__ != "XilinxClocking" and not getattr(d["do_finalize"], "__verif__", False):
                f = icontract.ensure(instance_realises_config, error=InstanceDiffersFromConfig)(d["do_finalize"])
                f.__verif__ = True
                setattr(k, "do_finalize", f)
                wrapped_fin.append(k.__name__)
    HELPERS.update(helpers)
    _installed.update(helpers=helpers, wrapped_compute_config=sorted(wrapped_cc), wrapped_do_finalize=sorted(wrapped_fin))
    return _installed
